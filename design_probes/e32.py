import numpy as np, felupe as fem, warnings, os
os.environ["FELUPE_VERBOSE"]="false"
np.set_printoptions(precision=5, suppress=True, linewidth=150)
rng = np.random.default_rng(19)
# (e) axisymmetric / planestrain fields: polynomial reproduction
warnings.simplefilter("ignore")
m = fem.Rectangle(a=(0,0.5), b=(1,1.5), n=3); m.points[4] += [0.07,-0.05]
r = fem.RegionQuad(m, hess=True); X = m.points
G = rng.uniform(-1,1,(2,2)); c0 = rng.uniform(-1,1,2)
u = c0 + X@G.T
fa = fem.FieldAxisymmetric(r, dim=2, values=u.copy()); fp = fem.FieldPlaneStrain(r, dim=2, values=u.copy())
Xq = fem.Field(r, dim=2, values=X).interpolate()
ga = fa.grad(); print("axi grad 2d err", np.abs(ga[:2,:2]-G[:,:,None,None]).max(), "hoop err", np.abs(ga[2,2] - (c0[1]+np.einsum("j,jqc->qc",G[1],Xq))/Xq[1]).max(), "off-plane", np.abs(ga[2,:2]).max()+np.abs(ga[:2,2]).max())
gp = fp.grad(); print("ps grad err", np.abs(gp[:2,:2]-G[:,:,None,None]).max(), "pad", np.abs(gp[2]).max()+np.abs(gp[:,2]).max(), "interp", np.abs(fp.interpolate()[:2]-(c0[:,None,None]+np.einsum("ij,jqc->iqc",G,Xq))).max(), fp.interpolate().shape, fp.hess().shape)
ex = fem.FieldContainer([fa]).extract(); print("extract adds identity:", np.abs(ex[0]-ga-np.eye(3)[:,:,None,None]).max())
# float32 copy
r32 = r.astype(np.float32); print("float32 dtypes", r32.dV.dtype, r32.dhdX.dtype, "rel diff", np.abs(r32.dhdX-r.dhdX).max()/np.abs(r.dhdX).max(), "orig untouched", r.dV.dtype)
# negative volume warning
warnings.simplefilter("error")
mm = fem.Rectangle(n=3); cells = mm.cells.copy(); cells[2] = cells[2][::-1]; mm2 = fem.Mesh(mm.points, cells, "quad")
try:
    fem.RegionQuad(mm2); print("no warning!")
except UserWarning as w: print("warning ok:", str(w).split("\n")[1].strip())
try:
    fem.RegionQuad(mm); print("valid mesh: no warning ok")
except UserWarning as w: print("unexpected warning")
warnings.simplefilter("ignore")
# (a) C14 plane strain, axisymmetric, mixed
def balance(field, umat, name):
    s = fem.SolidBody(umat, field); fo = s.assemble.vector(field).toarray().ravel()
    n0 = field.fieldsizes[0]; d = field[0].dim; f0 = fo[:n0].reshape(-1,d)
    x = field.region.mesh.points + field[0].values
    mom = np.abs((x[:,0]*f0[:,1]-x[:,1]*f0[:,0]).sum()) if d==2 else np.abs(np.cross(x,f0).sum(0)).max()
    print(f"{name:22s} sum f = {np.abs(f0.sum(0)).round(14)}  moment={mom:.1e} |f|={np.abs(f0).max():.2f}")
nh = fem.NeoHooke(mu=1, bulk=3)
f = fem.FieldContainer([fem.FieldPlaneStrain(r, dim=2)]); f[0].values[:] = 0.05*rng.standard_normal((m.npoints,2)); balance(f, nh, "plane strain")
f = fem.FieldContainer([fem.FieldAxisymmetric(r, dim=2)]); f[0].values[:] = 0.05*rng.standard_normal((m.npoints,2)); balance(f, nh, "axisymmetric")
f = fem.FieldsMixed(r, n=3, planestrain=True); f[0].values[:] = 0.05*rng.standard_normal((m.npoints,2)); f[1].values[:]+=.1; balance(f, fem.ThreeFieldVariation(nh), "ps mixed")
m3 = fem.Cube(n=3).triangulate().add_midpoints_volumes(); r3 = fem.RegionTetraMINI(m3); f = fem.FieldContainer([fem.Field(r3, dim=3)]); f[0].values[:] = 0.03*rng.standard_normal((m3.npoints,3)); balance(f, nh, "tet MINI")
m3 = fem.Cube(n=2).triangulate().add_midpoints_edges(); r3 = fem.RegionQuadraticTetra(m3); f = fem.FieldContainer([fem.Field(r3, dim=3)]); f[0].values[:] = 0.03*rng.standard_normal((m3.npoints,3)); balance(f, nh, "tet10")
m2 = fem.Rectangle(n=3).triangulate().add_midpoints_edges(); r2 = fem.RegionQuadraticTriangle(m2); f = fem.FieldContainer([fem.FieldPlaneStrain(r2, dim=2)]); f[0].values[:] = 0.03*rng.standard_normal((m2.npoints,2)); balance(f, nh, "tri6 ps")
