import numpy as np, felupe as fem, warnings, os, tempfile
os.environ["FELUPE_VERBOSE"]="false"
np.set_printoptions(precision=5, suppress=True, linewidth=160)
warnings.simplefilter("ignore")
rng = np.random.default_rng(5)
# ---- C09 patch test, various regions, distorted interior
def patch(mesh, Region, dim, umat, planestrain=False, **kw):
    r = Region(mesh, **kw)
    Fld = fem.FieldPlaneStrain if planestrain else fem.Field
    f = fem.FieldContainer([Fld(r, dim=dim)])
    H = 0.15*rng.uniform(-1,1,(dim,dim))
    X = mesh.points
    bmask = np.zeros(mesh.npoints, bool)
    for a in range(dim):
        bmask |= np.isclose(X[:,a], X[:,a].min()) | np.isclose(X[:,a], X[:,a].max())
    # points without cells handled automatically
    uex = X @ H.T
    bnd = {"all": fem.Boundary(f[0], mask=bmask, value=uex[bmask])}
    s = fem.SolidBody(umat, f)
    dof0, dof1 = fem.dof.partition(f, bnd); ext0 = fem.dof.apply(f, bnd, dof0)
    res = fem.newtonrhapson(items=[s], dof0=dof0, dof1=dof1, ext0=ext0, verbose=0)
    used = mesh.points_with_cells
    err = np.abs(res.x[0].values - uex)[used].max()
    F = res.x.extract()[0]
    Fex = np.eye(3); Fex[:dim,:dim] += H
    eF = np.abs(F - Fex.reshape(3,3,1,1)[:F.shape[0],:F.shape[1]]).max()
    return err, eF, res.iterations
um = fem.NeoHooke(mu=1.0, bulk=3.0)
def distort(m, amp):
    X = m.points; inner = np.ones(m.npoints,bool)
    for a in range(m.dim): inner &= ~(np.isclose(X[:,a],X[:,a].min())|np.isclose(X[:,a],X[:,a].max()))
    m.points[inner] += amp*rng.uniform(-1,1,(inner.sum(), m.dim)); return m
cases = [
 ("hex8", distort(fem.Cube(n=4),0.08), fem.RegionHexahedron, 3, {}),
 ("hex20", distort(fem.Cube(n=3),0.08).add_midpoints_edges(), fem.RegionQuadraticHexahedron, 3, {}),
 ("hex27", distort(fem.Cube(n=3),0.08).add_midpoints_edges().add_midpoints_faces().add_midpoints_volumes(), fem.RegionTriQuadraticHexahedron, 3, {}),
 ("tet4", distort(fem.Cube(n=3),0.08).triangulate(), fem.RegionTetra, 3, {}),
 ("tet10", distort(fem.Cube(n=3),0.08).triangulate().add_midpoints_edges(), fem.RegionQuadraticTetra, 3, {}),
 ("quad4 ps", distort(fem.Rectangle(n=4),0.08), fem.RegionQuad, 2, {}),
 ("quad8 ps", distort(fem.Rectangle(n=3),0.08).add_midpoints_edges(), fem.RegionQuadraticQuad, 2, {}),
 ("quad9 ps", distort(fem.Rectangle(n=3),0.08).add_midpoints_edges().add_midpoints_faces(), fem.RegionBiQuadraticQuad, 2, {}),
 ("tri3 ps", distort(fem.Rectangle(n=4),0.08).triangulate(), fem.RegionTriangle, 2, {}),
 ("tri6 ps", distort(fem.Rectangle(n=3),0.08).triangulate().add_midpoints_edges(), fem.RegionQuadraticTriangle, 2, {}),
]
for name, mesh, R, dim, kw in cases:
    try:
        print(name, "patch err u=%.1e F=%.1e it=%d" % patch(mesh, R, dim, um, planestrain=(dim==2), **kw))
    except Exception as e:
        print(name, "EXC", type(e).__name__, str(e)[:80])
