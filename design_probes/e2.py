import numpy as np, felupe as fem, warnings
np.set_printoptions(precision=6, suppress=True, linewidth=150)
warnings.simplefilter("error")

# (1) MINI geometry: translation invariance
for shift in [0.0, 10.0, 100.0]:
    m = fem.Rectangle(n=3).triangulate().add_midpoints_faces()
    m.points[:] = m.points + shift
    try:
        r = fem.RegionTriangleMINI(m)
        print("tri MINI shift", shift, "V=", r.dV.sum(), "min dV", r.dV.min())
    except Exception as e:
        print("tri MINI shift", shift, "EXC", type(e).__name__, str(e)[:80])
for shift in [0.0, 10.0, 100.0]:
    m = fem.Cube(n=3).triangulate().add_midpoints_volumes()
    m.points[:] = m.points + shift
    try:
        r = fem.RegionTetraMINI(m)
        print("tet MINI shift", shift, "V=", r.dV.sum(), "min dV", r.dV.min())
    except Exception as e:
        print("tet MINI shift", shift, "EXC", type(e).__name__, str(e)[:80])
m = fem.Cube(n=2).triangulate().add_midpoints_volumes()
print("tet mini bubble node of cell0:", m.points[m.cells[0,4]], "cell vertices mean:", m.points[m.cells[0,:4]].mean(0), "first3 mean", m.points[m.cells[0,:3]].mean(0))

# (2) region hessian of a linear field on a distorted quad
m = fem.Rectangle(n=2)
m.points[2] += [0.3, 0.2]
r = fem.RegionQuad(m, hess=True)
f = fem.Field(r, dim=1, values=(1 + 2*m.points[:,0] - 3*m.points[:,1]).reshape(-1,1))
print("grad lin on distorted quad:", f.grad()[0,:,0,0], " hess max:", np.abs(f.hess()).max())
m2 = fem.Rectangle(n=2); m2.points[:] = m2.points @ np.array([[1.2,.3],[.1,.9]])
r2 = fem.RegionQuad(m2, hess=True)
X=m2.points
f2 = fem.Field(r2, dim=1, values=(X[:,0]*X[:,1]).reshape(-1,1))
print("affine quad hess of xy:", f2.hess()[0,:,:,0,0])

# (3) revolve orientation
for axis in [0,1,2]:
    for a,b in [((1,1),(2,2)), ((-2,1),(-1,2)), ((1,-2),(2,-1))]:
        try:
            mm = fem.Rectangle(a=a,b=b,n=3).revolve(n=5, phi=90, axis=axis)
            with warnings.catch_warnings():
                warnings.simplefilter("ignore")
                rr = fem.RegionHexahedron(mm)
            print("revolve axis",axis,"rect",a,b,"V=",round(rr.dV.sum(),4),"mindV",round(rr.dV.min(),4))
        except Exception as e:
            print("revolve axis",axis,a,b,"EXC",type(e).__name__, str(e)[:60])
