import numpy as np, felupe as fem, warnings, time
import felupe.constitution.tensortrax as tt
import felupe.constitution.jax as jx
import jax; jax.config.update("jax_enable_x64", True)
warnings.simplefilter("ignore")
np.set_printoptions(precision=5, suppress=True, linewidth=150)
rng = np.random.default_rng(14)
def randF(n, amp=0.2): return (np.eye(3)[:,:,None] + amp*rng.uniform(-1,1,(3,3,n))).reshape(3,3,1,n)
def fdA(g, F, h=1e-6):
    A = np.zeros((3,3,3,3,*F.shape[2:]))
    for k in range(3):
        for l in range(3):
            d = np.zeros_like(F); d[k,l]=h
            A[:,:,k,l] = (np.array(g(F+d)) - np.array(g(F-d)))/(2*h)
    return A
n=3; I = np.eye(3).reshape(3,3,1,1)
F1 = randF(n, 0.3); F2 = I + 0.6*(F1-I); F3 = I + 1.2*(F1-I)
p=[0.011, 0.408, 0.421, 6.85, 0.0056, 5.54, 5.84, 0.117]
models = {
 "tt morph_rd (Material)": (tt.Material(tt.models.lagrange.morph_representative_directions, p=p, nstatevars=84), 84),
 "jax morph_rd (Material)": (jx.Material(jx.models.lagrange.morph_representative_directions, p=p, nstatevars=84), 84),
 "tt morph_rd (Hyperelastic)": (tt.Hyperelastic(tt.models.hyperelastic.morph_representative_directions, p=p, nstatevars=84), 84),
 "tt ogden_roxburgh": (tt.Hyperelastic(tt.models.hyperelastic.ogden_roxburgh, material=tt.models.hyperelastic.neo_hooke, mu=1.0, r=3.0, m=1.0, beta=0.2, nstatevars=1), 1),
}
res = {}
for name, (um, ns) in models.items():
    t0=time.time()
    sv = np.zeros((ns,1,n))
    P1, s1 = um.gradient([F1, sv]); P2, s2 = um.gradient([F2, s1]); P3, s3 = um.gradient([F3, s2])
    A2 = um.hessian([F2, s1])[0]; A2fd = fdA(lambda F_: um.gradient([F_, s1])[0], F2)
    A3 = um.hessian([F3, s2])[0]; A3fd = fdA(lambda F_: um.gradient([F_, s2])[0], F3)
    res[name] = (P1,P2,P3,A2,s1)
    print(f"{name:28s} tangent err unload={np.abs(A2-A2fd).max()/np.abs(A2).max():.1e} reload/primary={np.abs(A3-A3fd).max()/np.abs(A3).max():.1e} t={time.time()-t0:.1f}s")
a, b, c = res["tt morph_rd (Material)"], res["jax morph_rd (Material)"], res["tt morph_rd (Hyperelastic)"]
for k,lab in enumerate(["P1","P2","P3","A2"]):
    print(lab, "tt-vs-jax", np.abs(a[k]-b[k]).max()/np.abs(a[k]).max(), "tt Material vs tt Hyperelastic", np.abs(a[k]-c[k]).max()/np.abs(a[k]).max())
# OR hand vs AD
orh = fem.OgdenRoxburgh(fem.NeoHooke(mu=1.0), r=3.0, m=1.0, beta=0.2); sv = np.zeros((1,1,n))
P1h, s1h = orh.gradient([F1, sv]); P2h, s2h = orh.gradient([F2, s1h]); A2h = orh.hessian([F2, s1h])[0]
d = res["tt ogden_roxburgh"]
print("OR hand vs AD: P1", np.abs(P1h-d[0]).max(), "P2", np.abs(P2h-d[1]).max(), "A2", np.abs(A2h-d[3]).max()/np.abs(A2h).max(), "state", np.abs(s1h-d[4]).max())
