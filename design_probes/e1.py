import numpy as np, felupe as fem, warnings
import felupe.constitution.tensortrax as mat
np.set_printoptions(precision=5, suppress=True, linewidth=150)

def lin_moduli(umat, nstate=0):
    """shear & bulk modulus from tangent at F=I assuming isotropic lin elastic: A = lam 1x1 + mu (ik + il)"""
    F = np.eye(3).reshape(3,3,1,1)
    x = [F] + ([np.zeros((nstate,1,1))] if nstate is not None else [])
    A = umat.hessian(x)[0][...,0,0]
    P = umat.gradient(x)[0][...,0,0]
    mu = A[0,1,0,1]
    lam = A[0,0,1,1]
    K = lam + 2/3*mu
    return mu, K, np.abs(P).max(), A[0,1,1,0]

H = mat.Hyperelastic
M = mat.models.hyperelastic
print("blatz_ko mu=1 ->", lin_moduli(H(M.blatz_ko, mu=1.0)))
print("vdw mu=1,beta=.3 ->", lin_moduli(H(M.van_der_waals, mu=1.0, beta=0.3, a=0.2, limit=5.0)))
print("vdw mu=1,beta=0 ->", lin_moduli(H(M.van_der_waals, mu=1.0, beta=0.0, a=0.0, limit=50.0)))
print("arruda C1=1 lim=3 ->", lin_moduli(H(M.arruda_boyce, C1=1.0, limit=3.0)), 1+3/5/9+99/175/81+513/875/729+42039/67375/6561)
print("alexander ->", lin_moduli(H(M.alexander, C1=1.0, C2=.5, C3=.2, gamma=2., k=.1)), 2*(1+.5/2+.2))
print("abb ->", lin_moduli(H(M.anssari_benam_bucchi, mu=1.0, N=10.)), (1-30)/(3-30))
print("ext tube d=0 ->", lin_moduli(H(M.extended_tube, Gc=1.0, Ge=.5, beta=.3, delta=0.0)))
print("lopez ->", lin_moduli(H(M.lopez_pamies, mu=[1.0,.2], alpha=[1.0,-2.])))
print("ogden ->", lin_moduli(H(M.ogden, mu=[1.0,.2], alpha=[1.7,-2.])))
print("storakers ->", lin_moduli(H(M.storakers, mu=[1.0,.2], alpha=[1.7,-2.], beta=[.3,.6])), 1.2, 2*1*(1/3+.3)+2*.2*(1/3+.6))
print("mgl ->", lin_moduli(H(M.miehe_goektepe_lulei, mu=1.0, N=100., U=0, p=2, q=2)))
print("mgl p=1.1 ->", lin_moduli(H(M.miehe_goektepe_lulei, mu=1.0, N=100., U=0, p=1.1, q=2)))
print("svk ->", lin_moduli(H(M.saint_venant_kirchhoff, mu=1.0, lmbda=2.0)))
print("yeoh ->", lin_moduli(H(M.yeoh, C10=.5, C20=.1, C30=.1)))
print("mooney ->", lin_moduli(H(M.mooney_rivlin, C10=.3, C01=.2)))
print("tod ->", lin_moduli(H(M.third_order_deformation, C10=.3, C01=.2, C11=.1,C20=.1,C30=.1)))
print("NeoHooke ->", lin_moduli(fem.NeoHooke(mu=1.0, bulk=5.0), nstate=0))
print("NeoHookeComp ->", lin_moduli(fem.NeoHookeCompressible(mu=1.0, lmbda=2.0), nstate=0))
