import numpy as np, felupe as fem, warnings, os, tempfile, meshio
warnings.simplefilter("ignore")
rng = np.random.default_rng(18)
m = fem.Cube(n=3); r = fem.RegionHexahedron(m); f = fem.FieldContainer([fem.Field(r, dim=3)]); f[0].values[:] = 0.08*rng.standard_normal((m.npoints,3))
F = f.extract()[0].copy(); P = fem.NeoHooke(mu=1,bulk=3).gradient([F,None])[0]
tmp = tempfile.mkdtemp(); os.chdir(tmp)
forces = rng.standard_normal(m.npoints*3)
for fn, g in [("a.vtu", None), ("b.vtk", [P]), ("c.vtu", [P]), ("d.xdmf",[P])]:
    try:
        fem.save(r, f, forces=forces, gradient=g, filename=fn)
        mm = meshio.read(fn)
        print(fn, "ok", {k: v.shape for k,v in mm.point_data.items()}, np.abs(mm.point_data["Displacements"]-f[0].values).max(), np.abs(mm.point_data["Reaction Force"]-forces.reshape(-1,3)).max())
    except Exception as e: print(fn, "EXC", type(e).__name__, str(e)[:100])
v = fem.ViewField(f)
F = f.extract()[0]
cd = v.mesh.cell_data["Deformation Gradient"]; print(cd.shape, np.abs(cd.reshape(-1,3,3) - F.mean(-2).transpose(2,0,1)).max(), np.abs(cd.reshape(-1,3,3) - F.mean(-2).transpose(2,1,0)).max())
