import numpy as np, felupe as fem, warnings, os, tempfile, meshio, time
os.environ["FELUPE_VERBOSE"]="false"
warnings.simplefilter("ignore")
np.set_printoptions(precision=5, suppress=True, linewidth=150)
rng = np.random.default_rng(18)
m = fem.Cube(n=3); m.points[:] += 0.03*rng.standard_normal(m.points.shape)
r = fem.RegionHexahedron(m); f = fem.FieldContainer([fem.Field(r, dim=3)]); f[0].values[:] = 0.08*rng.standard_normal((m.npoints,3))
s = fem.SolidBody(fem.NeoHooke(mu=1,bulk=3), f)
t0=time.time()
F = f.extract()[0].copy(); P = fem.NeoHooke(mu=1,bulk=3).gradient([F,None])[0]
J = np.linalg.det(F.transpose(2,3,0,1))
tau = np.einsum("ij...,kj...->ik...", P, F); sig = tau/J
print("kirchhoff", np.abs(s.evaluate.kirchhoff_stress(f)-tau).max(), "cauchy", np.abs(s.evaluate.cauchy_stress(f)-sig).max())
for st, ref in (("Cauchy", sig), ("Kirchhoff", tau), (None, P)):
    v = fem.ViewSolid(f, solid=s, stress_type=st)
    cd = v.mesh.cell_data
    lab = f"{st} Stress" if st else "Stress"
    voigt = lambda T: np.stack([T[0,0],T[1,1],T[2,2],T[0,1],T[1,2],T[0,2]])
    print(st, list(cd.keys()))
    print("   stress mean err", np.abs(cd[lab] - voigt(ref.mean(-2)).T).max(), "principal", np.abs(cd[f"Principal Values of {lab}"] - np.linalg.eigvalsh(ref.transpose(2,3,0,1)).mean(0)).max() if st else "")
print("defgrad cell data err", np.abs(v.mesh.cell_data["Deformation Gradient"].reshape(-1,3,3) - F.mean(-2).transpose(2,0,1)).max(), "pd", list(v.mesh.point_data.keys()))
print("view time", time.time()-t0)
# save
tmp = tempfile.mkdtemp(); os.chdir(tmp)
forces = rng.standard_normal(m.npoints*3)
fem.save(r, f, forces=forces, gradient=[P], filename="r.vtu")
mm = meshio.read("r.vtu"); print(list(mm.point_data.keys()))
print("disp", np.abs(mm.point_data["Displacements"]-f[0].values).max(), "forces", np.abs(mm.point_data["Reaction Force"]-forces.reshape(-1,3)).max(), "cauchy", np.abs(mm.point_data["Cauchy Stress"].reshape(-1,3,3) - fem.topoints(sig, r)).max())
# force/moment
b = fem.Boundary(f[0], fx=lambda x: x > 0.9)
fv = s.assemble.vector(f)
x = m.points + f[0].values
print("force", np.abs(fem.tools.force(f, fv, b) - fv.toarray().reshape(-1,3)[b.points].sum(0)).max(), "moment", np.abs(fem.tools.moment(f, fv, b, centerpoint=np.array([.1,.2,.3])) - np.cross(x[b.points]-[.1,.2,.3], fv.toarray().reshape(-1,3)[b.points]).sum(0)).max())
