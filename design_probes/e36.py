import numpy as np, felupe as fem, warnings, itertools
warnings.simplefilter("ignore")
np.set_printoptions(precision=5, suppress=True, linewidth=150)
rng = np.random.default_rng(23)
A3 = np.eye(3)+0.25*rng.uniform(-1,1,(3,3)); A2 = np.eye(2)+0.25*rng.uniform(-1,1,(2,2))
def aff(m): m=m.copy(); m.points[:] = m.points@(A3 if m.dim==3 else A2).T + 3.0; return m
def polyfun(dim, order, tensor=False):
    exps = [e for e in itertools.product(range(order+1), repeat=dim) if (tensor or sum(e)<=order)]
    co = rng.uniform(0.2,1,len(exps))*rng.choice([-1,1],len(exps))
    f = lambda X: sum(c*np.prod(X**np.array(e),axis=-1) for c,e in zip(co,exps))
    def g(X):
        out = np.zeros(X.shape)
        for c,e in zip(co,exps):
            for k in range(dim):
                if e[k]>0:
                    ee = np.array(e); ee[k]-=1; out[...,k] += c*e[k]*np.prod(X**ee,axis=-1)
        return out
    return f,g
T = [
 ("RegionQuad",1, aff(fem.Rectangle(n=3)), fem.RegionQuad),
 ("RegionQuadraticQuad",2, aff(fem.Rectangle(n=3)).add_midpoints_edges(), fem.RegionQuadraticQuad),
 ("RegionBiQuadraticQuad",2, aff(fem.Rectangle(n=3)).add_midpoints_edges().add_midpoints_faces(), fem.RegionBiQuadraticQuad),
 ("RegionHexahedron",1, aff(fem.Cube(n=3)), fem.RegionHexahedron),
 ("RegionQuadraticHexahedron",2, aff(fem.Cube(n=3)).add_midpoints_edges(), fem.RegionQuadraticHexahedron),
 ("RegionTriQuadraticHexahedron",2, aff(fem.Cube(n=3)).add_midpoints_edges().add_midpoints_faces().add_midpoints_volumes(), fem.RegionTriQuadraticHexahedron),
 ("RegionTriangle",1, aff(fem.Rectangle(n=3)).triangulate(), fem.RegionTriangle),
 ("RegionQuadraticTriangle",2, aff(fem.Rectangle(n=3)).triangulate().add_midpoints_edges(), fem.RegionQuadraticTriangle),
 ("RegionTetra",1, aff(fem.Cube(n=3)).triangulate(), fem.RegionTetra),
 ("RegionQuadraticTetra",2, aff(fem.Cube(n=3)).triangulate().add_midpoints_edges(), fem.RegionQuadraticTetra),
 ("RegionLagrange o3 2d",3, aff(fem.mesh.RectangleArbitraryOrderQuad(order=3)), lambda m: fem.RegionLagrange(m, order=3, dim=2)),
 ("RegionLagrange o3 3d",3, aff(fem.mesh.CubeArbitraryOrderHexahedron(order=3)), lambda m: fem.RegionLagrange(m, order=3, dim=3)),
 ("RegionLagrange o2 3d p0",2, None, None),
]
for name, order, m, R in T:
    if m is None: continue
    r = R(m); dim = m.dim
    f, g = polyfun(dim, order)
    fld = fem.Field(r, dim=1, values=f(m.points).reshape(-1,1))
    Xq = fem.Field(r, dim=dim, values=m.points).interpolate()          # isoparametric position (affine => exact)
    Xq = np.moveaxis(Xq,0,-1)
    ei = np.abs(fld.interpolate()[0]-f(Xq)).max(); eg = np.abs(np.moveaxis(fld.grad()[0],0,-1)-g(Xq)).max()
    print(f"{name:30s} order {order}: interp err={ei:.1e} grad err={eg:.1e}" + ("   <<<<" if max(ei,eg)>1e-10 else ""))
# multi-cell Lagrange mesh? (only single-cell generators exist) -> check volume under rigid motion + curved
# C02 Form API mixed with sym
from felupe.math import ddot, dot, grad, dya
m = fem.Cube(n=3); r = fem.RegionHexahedron(m); fm = fem.FieldsMixed(r, n=2); u,p = fm.fields
nq,nc = r.dV.shape
F = rng.standard_normal((3,3,nq,nc)); pp = rng.standard_normal((1,nq,nc)); A = rng.standard_normal((3,3,3,3,nq,nc)); A = A + A.transpose(2,3,0,1,4,5)
@fem.Form(v=fm, u=fm, kwargs=dict(F=F,p=pp,A=A))
def a():
    return [lambda v,u,F,p,A: ddot(grad(v), ddot(A, grad(u), mode=(4,2))), lambda v,r_,F,p,A: dot(p, r_)*ddot(F, grad(v)), lambda q,r_,F,p,A: dot(p,q)*dot(r_,p)]
Kf = a.assemble(fm, fm).toarray()
Kr = fem.IntegralForm([A, (F*pp)[:,:,None] if False else F*pp, (pp*pp)[None]], fm, r.dV, fm).assemble().toarray()
print("mixed Form vs IntegralForm:", np.abs(Kf-Kr).max()/np.abs(Kr).max())
f1 = fem.FieldContainer([u])
@fem.Form(v=f1, u=f1, kwargs=dict(A=A))
def a1(): return [lambda v,u,A: ddot(grad(v), ddot(A, grad(u), mode=(4,2)))]
K0 = a1.assemble(f1,f1,sym=False,parallel=False).toarray()
for sym in (False,True):
    for par in (False,True):
        print("sym",sym,"par",par, np.abs(a1.assemble(f1,f1,sym=sym,parallel=par).toarray()-K0).max())
@fem.Form(v=fm, kwargs=dict(F=F,p=pp))
def L(): return [lambda v,F,p: ddot(F, grad(v)), lambda q,F,p: dot(p,q)]
Lf = L.assemble(fm, parallel=True).toarray().ravel(); Lr = fem.IntegralForm([F, pp], fm, r.dV).assemble().toarray().ravel(); print("linear Form vs IntegralForm", np.abs(Lf-Lr).max())
