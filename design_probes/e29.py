import numpy as np, felupe as fem, warnings, itertools
warnings.simplefilter("ignore")
rng = np.random.default_rng(17)
RG = {"line": None, "quad":fem.RegionQuad,"hexahedron":fem.RegionHexahedron,"triangle":fem.RegionTriangle,"tetra":fem.RegionTetra,
      "quad8":fem.RegionQuadraticQuad,"quad9":fem.RegionBiQuadraticQuad,"hexahedron20":fem.RegionQuadraticHexahedron,"hexahedron27":fem.RegionTriQuadraticHexahedron,
      "triangle6":fem.RegionQuadraticTriangle,"tetra10":fem.RegionQuadraticTetra}
def vol(m):
    if m.cell_type=="line":
        L = m.points[m.cells[:,1]]-m.points[m.cells[:,0]]
        if m.dim==1: return L.sum(), L.min()
        return np.linalg.norm(L,axis=1).sum(), 1.0
    r = RG[m.cell_type](m); return r.dV.sum(), r.dV.min()
def conforming(m):
    """each interior facet shared by exactly two cells, no unused/duplicate points"""
    ct = m.cell_type
    faces = {"quad":[(0,1),(1,2),(2,3),(3,0)], "triangle":[(0,1),(1,2),(2,0)],
             "hexahedron":[(0,3,2,1),(4,5,6,7),(0,1,5,4),(1,2,6,5),(2,3,7,6),(3,0,4,7)], "tetra":[(0,2,1),(0,1,3),(1,2,3),(2,0,3)]}[ct]
    from collections import Counter
    cnt = Counter()
    for c in m.cells:
        for f in faces: cnt[tuple(sorted(c[list(f)]))]+=1
    ok_multi = max(cnt.values())<=2
    unused = len(m.points_without_cells)
    dup = len(m.points) - len(np.unique(m.points.round(9), axis=0))
    return ok_multi, unused, dup, sum(1 for v in cnt.values() if v==1)
for name, m in [("Circle n=3", fem.Circle(n=3)), ("Circle n=5 r=2 c=(1,1)", fem.Circle(radius=2.0, centerpoint=[1,1], n=5)), ("Circle sections", fem.Circle(n=4, sections=[0,90,180])),
                ("Triangle", fem.mesh.Triangle(a=(0.1,0),b=(2,0.3),c=(.5,1.5),n=5)), ("Rect", fem.Rectangle(a=(-1,2), b=(3,5), n=(4,3))), ("Cube", fem.Cube(a=(-1,2,0), b=(3,5,1), n=(4,3,2))), ("Grid", fem.Grid(np.array([0,.2,1.]), np.array([0,.5,.6,2.])))]:
    print(name, "vol/min", np.round(vol(m),6), "conforming(multi<=2, unused, dup, nboundaryfacets)", conforming(m))
# random programs
ops_ok = 0; fails=[]
for trial in range(300):
    kind = rng.choice(["line","quad","hex"])
    m = {"line": fem.mesh.Line(a=0.5, b=2.0, n=int(rng.integers(2,5))), "quad": fem.Rectangle(a=(0.5,0.5), b=(2,1.7), n=tuple(rng.integers(2,4,2))), "hex": fem.Cube(a=(0.5,0.5,0.2), b=(2,1.7,1.1), n=tuple(rng.integers(2,4,3)))}[kind]
    V, _ = vol(m); hist=[kind]
    try:
        for step in range(int(rng.integers(2,7))):
            ct = m.cell_type; dim = m.dim
            cand = ["rotate","translate"]
            if ct in ("line","quad","hexahedron","triangle","tetra"): cand += ["mirror","flipflip"]
            if ct in ("quad","hexahedron"): cand += ["triangulate"]
            if ct in ("line","quad") and dim==(1 if ct=="line" else 2): cand += ["expand","revolve"]
            if ct in ("quad","hexahedron","triangle","tetra"): cand += ["midedges"]
            if ct in ("quad8","hexahedron20"): cand += ["midfaces"]
            cand += ["concat_translate","disconnect","merge"]
            op = rng.choice(cand); hist.append(op)
            if op=="rotate":
                if dim==1: continue
                m = m.rotate(angle_deg=float(rng.uniform(-180,180)), axis=int(rng.integers(0,dim)), center=rng.uniform(-1,1,dim))
            elif op=="translate": m = m.translate(move=float(rng.uniform(-3,3)), axis=int(rng.integers(0,dim)))
            elif op=="mirror":
                if dim==1: m = m.mirror(normal=[1.0], centerpoint=[float(rng.uniform(-1,1))])
                else: m = m.mirror(normal=list(rng.standard_normal(dim)), centerpoint=list(rng.uniform(-1,1,dim)))
            elif op=="flipflip": assert np.array_equal(m.flip().flip().cells, m.cells)
            elif op=="triangulate": m = m.triangulate(mode=int(rng.choice([0,3])))
            elif op=="expand": z = float(rng.uniform(0.3,2)); m = m.expand(n=int(rng.integers(2,4)), z=z); V *= z
            elif op=="revolve":
                # only from pristine positions: need y>0 (quad) / x>0 (line); skip if rotated/mirrored etc.
                hist[-1]="revolve(skip)"; continue
            elif op=="midedges": m = m.add_midpoints_edges()
            elif op=="midfaces": m = m.add_midpoints_faces()
            elif op=="concat_translate":
                ext = m.points[:,0].max()-m.points[:,0].min()
                m = fem.mesh.concatenate([m, m.translate(ext, 0)]); V *= 2
            elif op=="disconnect": m = m.disconnect()
            elif op=="merge": m = m.merge_duplicate_points(decimals=8)
            v, mn = vol(m)
            if abs(v-V) > 1e-9*abs(V) or mn <= 0: fails.append((hist[:], v, V, mn)); break
        ops_ok += 1
    except Exception as e:
        fails.append((hist[:], type(e).__name__, str(e)[:80]))
print("programs", 300, "fails", len(fails))
for f in fails[:12]: print(f)
