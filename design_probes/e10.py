import numpy as np, felupe as fem, warnings, time
import felupe.constitution.tensortrax as tt
import felupe.constitution.jax as jx
np.set_printoptions(precision=4, suppress=True, linewidth=160)
warnings.simplefilter("ignore")
rng = np.random.default_rng(3)
from scipy.spatial.transform import Rotation
def randF(n, amp=0.25):
    F = np.eye(3)[:,:,None] + amp*rng.uniform(-1,1,(3,3,n))
    return F.reshape(3,3,1,n)
M = tt.models.hyperelastic
params = dict(
 neo_hooke=dict(mu=1.3), mooney_rivlin=dict(C10=.4,C01=.3), yeoh=dict(C10=.5,C20=-.05,C30=.02),
 third_order_deformation=dict(C10=.4,C01=.2,C11=.05,C20=-.02,C30=.01), ogden=dict(mu=[1.0,.2],alpha=[1.7,-2.0]),
 arruda_boyce=dict(C1=1.0,limit=3.2), extended_tube=dict(Gc=.2,Ge=.2,beta=.2,delta=.1),
 van_der_waals=dict(mu=1.0,limit=5.0,a=.5,beta=.1), alexander=dict(C1=1.,C2=.5,C3=.2,gamma=2.,k=.1),
 anssari_benam_bucchi=dict(mu=1.,N=10.), lopez_pamies=dict(mu=[1.,.2],alpha=[1.,-2.]),
 miehe_goektepe_lulei=dict(mu=.2,N=20.,U=10.,p=1.5,q=.1), blatz_ko=dict(mu=1.0), storakers=dict(mu=[1.,.2],alpha=[1.7,-2.],beta=[.3,.6]),
 saint_venant_kirchhoff=dict(mu=1.,lmbda=2.), 
)
n=4
F = randF(n)
R = Rotation.random(random_state=1).as_matrix(); Q = Rotation.random(random_state=2).as_matrix()
def fd_hess(umat, F, sv, h=1e-6):
    A = np.zeros((3,3,3,3,*F.shape[2:]))
    for k in range(3):
        for l in range(3):
            d = np.zeros_like(F); d[k,l]=h
            A[:,:,k,l] = (np.array(umat.gradient([F+d, sv])[0]) - np.array(umat.gradient([F-d, sv])[0]))/(2*h)
    return A
for name, kw in params.items():
    t0=time.time()
    um = tt.Hyperelastic(getattr(M,name), **kw)
    P = um.gradient([F, None])[0]; A = um.hessian([F, None])[0]
    Afd = fd_hess(um, F, None)
    e_fd = np.abs(A-Afd).max()/np.abs(A).max()
    RF = np.einsum("ij,jk...->ik...", R, F); P_R = um.gradient([RF,None])[0]
    e_obj = np.abs(P_R - np.einsum("ij,jk...->ik...", R, P)).max()/np.abs(P).max()
    FQ = np.einsum("ij...,jk->ik...", F, Q); P_Q = um.gradient([FQ,None])[0]
    e_iso = np.abs(P_Q - np.einsum("ij...,jk->ik...", P, Q)).max()/np.abs(P).max()
    tau = np.einsum("ij...,kj...->ik...", P, F); e_sym = np.abs(tau - tau.transpose(1,0,2,3)).max()/np.abs(tau).max()
    e_maj = np.abs(A - A.transpose(2,3,0,1,4,5)).max()/np.abs(A).max()
    P0 = um.gradient([np.eye(3).reshape(3,3,1,1), None])[0]
    t1=time.time()
    msg = f"{name:26s} fd={e_fd:.1e} obj={e_obj:.1e} iso={e_iso:.1e} symtau={e_sym:.1e} major={e_maj:.1e} P(I)={np.abs(P0).max():.1e} t={t1-t0:.2f}s"
    if hasattr(jx.models.hyperelastic, name):
        t0=time.time()
        uj = jx.Hyperelastic(getattr(jx.models.hyperelastic,name), **kw)
        Pj = uj.gradient([F,None])[0]; Aj = uj.hessian([F,None])[0]
        msg += f" | jax dP={np.abs(Pj-P).max()/np.abs(P).max():.1e} dA={np.abs(Aj-A).max()/np.abs(A).max():.1e} t={time.time()-t0:.2f}s"
    print(msg)
