import numpy as np, felupe as fem, itertools
def cheb(D, a, b):
    k = np.arange(D+1); x = np.cos(np.pi*k/D)  # [-1,1] extrema
    c = np.ones(D+1); c[0]=c[-1]=2; c *= (-1.0)**k
    X = np.tile(x,(D+1,1)).T; dX = X - X.T
    Dm = np.outer(c,1/c)/(dX+np.eye(D+1)); Dm -= np.diag(Dm.sum(1))
    return (a+b)/2 + (b-a)/2*x, Dm*2/(b-a)
def check(el, lo, hi, D):
    dim = el.points.shape[1]
    x, Dm = cheb(D, lo, hi)
    grid = np.array(list(itertools.product(x, repeat=dim)))
    H = np.array([el.function(p) for p in grid]).reshape(*(D+1,)*dim, -1)
    G = np.array([el.gradient(p) for p in grid]).reshape(*(D+1,)*dim, -1, dim)
    err = 0
    for k in range(dim):
        dH = np.moveaxis(np.tensordot(Dm, H, axes=(1,k)), 0, k)
        err = max(err, np.abs(dH - G[...,k]).max())
    eh = None
    if hasattr(el, "hessian"):
        Hs = np.array([el.hessian(p) for p in grid]).reshape(*(D+1,)*dim, -1, dim, dim)
        eh = 0
        for k in range(dim):
            dG = np.moveaxis(np.tensordot(Dm, G, axes=(1,k)), 0, k)
            eh = max(eh, np.abs(dG - Hs[...,k]).max())
    return err, eh
for el, lo, hi, D in [(fem.Hexahedron(),-1,1,3),(fem.QuadraticHexahedron(),-1,1,5),(fem.element.TriQuadraticHexahedron(),-1,1,4),(fem.QuadraticQuad(),-1,1,5),
                      (fem.QuadraticTetra(),0,1,4),(fem.TetraMINI(),0,1,6),(fem.TriangleMINI(),0,1,5),(fem.QuadraticTriangle(),0,1,4),
                      (fem.ArbitraryOrderLagrangeElement(order=6,dim=2),-1,1,8),(fem.ArbitraryOrderLagrangeElement(order=4,dim=3),-1,1,6)]:
    print(type(el).__name__, check(el, lo, hi, D))
