import numpy as np, felupe as fem, warnings
from felupe.math import ddot, dot, grad
warnings.simplefilter("ignore")
rng = np.random.default_rng(23)
m = fem.Cube(n=3); m.points[:] += 0.03*rng.standard_normal(m.points.shape); r = fem.RegionHexahedron(m); fm = fem.FieldsMixed(r, n=2); u,p = fm.fields
nq,nc = r.dV.shape
F = rng.standard_normal((3,3,nq,nc)); pp = rng.standard_normal((1,nq,nc)); A = rng.standard_normal((3,3,3,3,nq,nc))
d11 = lambda a,b: dot(a,b,mode=(1,1))
@fem.Form(v=fm, u=fm, kwargs=dict(F=F,p=pp,A=A))
def a():
    return [lambda v,u,F,p,A: ddot(grad(v), ddot(A, grad(u), mode=(4,2))), lambda v,r_,F,p,A: d11(p, r_)*ddot(F, grad(v)), lambda q,r_,F,p,A: d11(p,q)*d11(r_,p)]
for par in (False, True):
    Kf = a.assemble(fm, fm, parallel=par).toarray()
    Kr = fem.IntegralForm([A, F*pp, (pp*pp)[None]], fm, r.dV, fm).assemble().toarray()
    print("mixed Form vs IntegralForm par",par, np.abs(Kf-Kr).max()/np.abs(Kr).max())
@fem.Form(v=fm, kwargs=dict(F=F,p=pp))
def L(): return [lambda v,F,p: ddot(F, grad(v)), lambda q,F,p: d11(p,q)]
for par in (False, True):
    Lf = L.assemble(fm, parallel=par).toarray().ravel(); Lr = fem.IntegralForm([F, pp], fm, r.dV).assemble().toarray().ravel(); print("linear Form vs IntegralForm par",par, np.abs(Lf-Lr).max())
