import numpy as np, felupe as fem, warnings, itertools
from felupe import math as fm
warnings.simplefilter("ignore")
rng = np.random.default_rng(22)
# C17: all dot/ddot/dddot modes vs explicit definitions
d=3; tr=(2,3)
T = {1: rng.standard_normal((d,*tr)), 2: rng.standard_normal((d,d,*tr)), 3: rng.standard_normal((d,d,d,*tr)), 4: rng.standard_normal((d,d,d,d,*tr))}
T2 = {k: rng.standard_normal(v.shape) for k,v in T.items()}
L = "ijklmnop"
def ref_dot(A,B,na,nb):   # contract last index of A with first of B
    a = L[:na]; b = a[-1] + "qrstuv"[:nb-1]
    out = a[:-1]+b[1:]
    return np.einsum(f"{a}...,{b}...->{out}...", A, B)
def ref_ddot(A,B,na,nb):
    a = L[:na]; b = a[-2:] + "qrstuv"[:nb-2]
    return np.einsum(f"{a}...,{b}...->{a[:-2]+b[2:]}...", A, B)
bad=[]
for (na,nb) in [(2,2),(1,1),(4,4),(2,1),(1,2),(2,3),(3,2),(4,1),(1,4),(2,4),(4,2)]:
    for par in (False,True):
        e = np.abs(fm.dot(T[na],T2[nb],mode=(na,nb),parallel=par)-ref_dot(T[na],T2[nb],na,nb)).max()
        if e>1e-12: bad.append(("dot",na,nb,par,e))
for (na,nb) in [(2,2),(2,4),(4,2),(2,3),(3,2),(4,4)]:
    for par in (False,True):
        e = np.abs(fm.ddot(T[na],T2[nb],mode=(na,nb),parallel=par)-ref_ddot(T[na],T2[nb],na,nb)).max()
        if e>1e-12: bad.append(("ddot",na,nb,par,e))
e = np.abs(fm.dddot(T[3],T2[3])-np.einsum("ijk...,ijk...->...",T[3],T2[3])).max(); 
if e>1e-12: bad.append(("dddot",e))
e = np.abs(fm.dya(T[1],T2[1],mode=1)-np.einsum("i...,j...->ij...",T[1],T2[1])).max() + np.abs(fm.transpose(T[4],mode=2)-np.einsum("ijkl...->klij...",T[4])).max()
print("C17 modes bad:", bad, e)
# C16: midpoints are centroids for all types
def check_mid(m0, m1, groups):
    bad=0
    for c0, c1 in zip(m0.cells, m1.cells):
        pass
    return bad
from itertools import combinations
edge_tab = {"quad":[(0,1),(1,2),(2,3),(3,0)], "hexahedron":[(0,1),(1,2),(2,3),(3,0),(4,5),(5,6),(6,7),(7,4),(0,4),(1,5),(2,6),(3,7)],
            "triangle":[(0,1),(1,2),(2,0)], "tetra":[(0,1),(1,2),(2,0),(0,3),(1,3),(2,3)]}
for name, m in [("quad", fem.Rectangle(n=3)), ("hexahedron", fem.Cube(n=3)), ("triangle", fem.Rectangle(n=3).triangulate()), ("tetra", fem.Cube(n=3).triangulate())]:
    m.points[:] += 0.05*rng.standard_normal(m.points.shape)
    me = m.add_midpoints_edges(); nv = m.cells.shape[1]
    err = max(np.abs(me.points[me.cells[:, nv+k]] - m.points[m.cells[:, list(e)]].mean(1)).max() for k, e in enumerate(edge_tab[name]))
    print(name, "edge midpoints err", err, me.cell_type, "unique:", len(np.unique(me.points,axis=0))==me.npoints)
mh = fem.Cube(n=3); mh.points[:] += 0.05*rng.standard_normal(mh.points.shape)
m27 = mh.add_midpoints_edges().add_midpoints_faces().add_midpoints_volumes()
ftab = [(0,3,7,4),(1,2,6,5),(0,1,5,4),(3,2,6,7),(0,1,2,3),(4,5,6,7)]
print("hex27 face mid err", max(np.abs(m27.points[m27.cells[:,20+k]]-mh.points[mh.cells[:,list(f)]].mean(1)).max() for k,f in enumerate(ftab)), "vol mid err", np.abs(m27.points[m27.cells[:,26]]-mh.points[mh.cells].mean(1)).max())
mq = fem.Rectangle(n=3); mq.points[:] += 0.05*rng.standard_normal(mq.points.shape); m9 = mq.add_midpoints_edges().add_midpoints_faces()
print("quad9 face mid err", np.abs(m9.points[m9.cells[:,8]]-mq.points[mq.cells].mean(1)).max())
mt = fem.Cube(n=2).triangulate(); mtv = mt.add_midpoints_volumes(); print("tet volume mid err (F8)", np.abs(mtv.points[mtv.cells[:,4]]-mt.points[mt.cells].mean(1)).max())
mtr = fem.Rectangle(n=2).triangulate(); mtf = mtr.add_midpoints_faces(); print("tri face mid err", np.abs(mtf.points[mtf.cells[:,3]]-mtr.points[mtr.cells].mean(1)).max())
# convert order 0
m0 = mh.convert(order=0, calc_points=True); print("order0 points err", np.abs(m0.points-mh.points[mh.cells].mean(1)).max(), m0.cells.shape)
