import numpy as np, felupe as fem, warnings, os
os.environ["FELUPE_VERBOSE"]="false"
np.set_printoptions(precision=5, suppress=True, linewidth=160)
warnings.simplefilter("ignore")
m = fem.Cube(n=3); r = fem.RegionHexahedron(m); f = fem.FieldContainer([fem.Field(r, dim=3)])
b, lc = fem.dof.uniaxial(f, clamped=False, move=0.0)
um = fem.OgdenRoxburgh(fem.NeoHooke(mu=1.0, bulk=20.0), r=3, m=1, beta=0.1)
s = fem.SolidBody(um, f)
ramp = np.array([0.1, 0.3, 0.2, 0.0, 0.25, 0.5])
step = fem.Step([s], ramp={b["move"]: ramp}, boundaries=b)
hist = []
for i, res in enumerate(step.generate(verbose=0)):
    hist.append((ramp[i], res.x[0].values[:,0].max(), res.iterations, s.results.statevars[0].max(), s.results.statevars[0].min()))
for h in hist: print(h)
# failure injection: maxiter=1 at nonlinear step -> raises?
f2 = fem.FieldContainer([fem.Field(r, dim=3)]); b2, _ = fem.dof.uniaxial(f2, clamped=True, move=0.0)
s2 = fem.SolidBody(um, f2)
sv0 = s2.results.statevars.copy()
step2 = fem.Step([s2], ramp={b2["move"]: np.array([0.2, 0.9, 1.0])}, boundaries=b2)
n=0
try:
    for res in step2.generate(verbose=0, maxiter=3, tol=1e-10):
        n+=1; print("substep ok", n, res.iterations, res.fnorms[-1], "sv max", s2.results.statevars.max())
except Exception as e:
    print("raised after", n, "substeps:", type(e).__name__, str(e)[:60], "sv max", s2.results.statevars.max(), "trial sv max", s2.results._statevars.max())
# linear problem 1 iteration
f3 = fem.FieldContainer([fem.Field(r, dim=3)]); b3, lc3 = fem.dof.uniaxial(f3, clamped=True, move=0.1)
s3 = fem.SolidBody(fem.LinearElastic(E=1.0, nu=0.3), f3)
res = fem.newtonrhapson(items=[s3], **lc3, verbose=0); print("linear iterations", res.iterations, res.fnorms)
print("prescribed ok", np.abs(res.x[0].values.ravel()[lc3["dof0"]] - lc3["ext0"]).max())
# plasticity
umatp = fem.LinearElasticPlasticIsotropicHardening(E=100.0, nu=0.3, sy=1.0, K=10.0)
f4 = fem.FieldContainer([fem.Field(r, dim=3)]); b4, _ = fem.dof.uniaxial(f4, clamped=False, move=0.0)
s4 = fem.SolidBody(umatp, f4)
rampp = np.array([0.005, 0.02, 0.03, 0.01, -0.01, 0.04])
step4 = fem.Step([s4], ramp={b4["move"]: rampp}, boundaries=b4)
for i,res in enumerate(step4.generate(verbose=0)):
    sv = s4.results.statevars
    print("plast", rampp[i], "alpha", sv[0].max().round(6), "iters", res.iterations)
