import numpy as np, felupe as fem, warnings
np.set_printoptions(precision=6, suppress=True, linewidth=150)
warnings.simplefilter("ignore")
rng = np.random.default_rng(2)
umat = fem.NeoHooke(mu=1.3, bulk=7.0)
# plane strain vs 3D slab (unit thickness, w suppressed)
m2 = fem.Rectangle(n=3); m2.points[:] += 0.04*rng.standard_normal(m2.points.shape)
r2 = fem.RegionQuad(m2); f2 = fem.FieldContainer([fem.FieldPlaneStrain(r2, dim=2)])
u = 0.05*rng.standard_normal(f2[0].values.shape); f2[0].values[:] = u
s2 = fem.SolidBody(umat, f2); r_ps = s2.assemble.vector(f2).toarray().reshape(-1,2); K_ps = s2.assemble.matrix(f2).toarray()
m3 = m2.expand(n=2, z=1.0); r3 = fem.RegionHexahedron(m3); f3 = fem.FieldContainer([fem.Field(r3, dim=3)])
f3[0].values[:, :2] = np.vstack([u,u])
s3 = fem.SolidBody(umat, f3); r_3d = s3.assemble.vector(f3).toarray().reshape(-1,3); K3 = s3.assemble.matrix(f3).toarray()
n2 = m2.npoints
print("ps force vs slab:", np.abs(r_ps - (r_3d[:n2,:2]+r_3d[n2:,:2])).max())
# stiffness: K_ps[ai,bj] = sum over layers
idx = np.arange(m3.npoints*3).reshape(-1,3)
T = np.zeros((m3.npoints*3, n2*2))
for a in range(n2):
    for i in range(2):
        T[idx[a,i], 2*a+i] = 1; T[idx[a+n2,i], 2*a+i] = 1
print("ps stiffness vs slab:", np.abs(K_ps - T.T@K3@T).max()/np.abs(K_ps).max())
# uniform grid
mg = fem.Cube(n=4)
ru = fem.RegionHexahedron(mg, uniform=True); rn = fem.RegionHexahedron(mg)
fu = fem.FieldContainer([fem.Field(ru, dim=3)]); fn = fem.FieldContainer([fem.Field(rn, dim=3)])
uu = 0.05*rng.standard_normal(fu[0].values.shape); fu[0].values[:] = uu; fn[0].values[:] = uu
su = fem.SolidBody(umat, fu); sn = fem.SolidBody(umat, fn)
print("uniform vec:", np.abs(su.assemble.vector(fu).toarray()-sn.assemble.vector(fn).toarray()).max(), "mat:", np.abs(su.assemble.matrix(fu).toarray()-sn.assemble.matrix(fn).toarray()).max(), ru.dV.shape, rn.dV.shape)
# axisymmetric: nodal forces = d/du of total energy 2 pi int W R dA
ma = fem.Rectangle(a=(0,0.5), b=(1,1.5), n=3); ma.points[:] += 0.03*rng.standard_normal(ma.points.shape)
ra = fem.RegionQuad(ma); fa = fem.FieldContainer([fem.FieldAxisymmetric(ra, dim=2)])
ua = 0.05*rng.standard_normal(fa[0].values.shape)
def energy(uv):
    fa[0].values[:] = uv.reshape(-1,2)
    F = fa.extract()[0]
    W = umat.function([F, None])[0]
    return (2*np.pi*fa[0].radius*ra.dV*W).sum()
fa[0].values[:] = ua
sa = fem.SolidBody(umat, fa); rvec = sa.assemble.vector(fa).toarray().ravel().copy()
g = np.zeros_like(rvec); h=1e-6
for j in range(g.size):
    e = np.zeros(g.size); e[j]=h
    g[j] = (energy(ua.ravel()+e)-energy(ua.ravel()-e))/(2*h)
print("axi force vs dE/du:", np.abs(g-rvec).max()/np.abs(rvec).max())
