import numpy as np, felupe as fem
np.set_printoptions(precision=6, suppress=True, linewidth=150)
m = fem.Rectangle(n=2)
m.points[3] += [0.31, 0.17]
r = fem.RegionQuad(m, hess=True)
X = m.points
f = fem.Field(r, dim=1, values=(1 + 2*X[:,0] - 3*X[:,1]).reshape(-1,1))
print("hess lin on distorted quad:", f.hess()[0,:,:,0,0], np.abs(f.hess()).max())
# hex
m = fem.Cube(n=2); m.points[7] += [0.2,0.1,0.15]
r = fem.RegionHexahedron(m, hess=True); X=m.points
f = fem.Field(r, dim=1, values=(1 + 2*X[:,0] - 3*X[:,1]+X[:,2]).reshape(-1,1))
print("hess lin on distorted hex:", np.abs(f.hess()).max())
