import numpy as np, felupe as fem, warnings, os, tempfile, meshio
os.environ["FELUPE_VERBOSE"]="false"
np.set_printoptions(precision=6, suppress=True, linewidth=160)
warnings.simplefilter("ignore")
rng = np.random.default_rng(6)
from scipy.optimize import brentq
mu, lam = 1.0, 2.0
um = fem.NeoHookeCompressible(mu=mu, lmbda=lam)
def P_analytic(l1):
    # uniaxial: P22 = mu(lt - 1/lt) + lam ln(l1 lt^2)/lt = 0
    g = lambda lt: mu*(lt-1/lt) + lam*np.log(l1*lt*lt)/lt
    lt = brentq(g, 0.2, 3.0)
    return mu*(l1-1/l1)+lam*np.log(l1*lt*lt)/l1, lt
m = fem.Cube(a=(0,0,0), b=(2,1.5,1), n=(3,3,2))
X = m.points; inner = np.ones(m.npoints,bool)
for a in range(3): inner &= ~(np.isclose(X[:,a],X[:,a].min())|np.isclose(X[:,a],X[:,a].max()))
m.points[inner] += 0.1*rng.uniform(-1,1,(inner.sum(),3))
r = fem.RegionHexahedron(m); f = fem.FieldContainer([fem.Field(r, dim=3)])
b, lc = fem.dof.uniaxial(f, clamped=False, move=0.0, axis=0)
s = fem.SolidBody(um, f)
ramp = fem.math.linsteps([0, 0.6, -0.3], num=3)
step = fem.Step([s], ramp={b["move"]: ramp}, boundaries=b)
tmp = tempfile.mkdtemp(); os.chdir(tmp)
seen=[]
job = fem.CharacteristicCurve([step], boundary=b["move"], callback=lambda i,j,res: seen.append(res.x[0].values.copy()))
job.evaluate(filename=os.path.join(tmp,"res.xdmf"), verbose=0)
A0 = 1.5*1.0
for x, y in zip(job.x, job.y):
    l1 = 1 + x[0]/2
    Pa, lt = P_analytic(l1)
    print("stretch %.3f  F_fem=%.6f  P*A=%.6f  err=%.1e" % (l1, y[0], Pa*A0, abs(y[0]-Pa*A0)))
F = f.extract()[0]; print("F uniform:", np.abs(F - F[...,:1,:1]).max(), "lt", lt, F[1,1,0,0], F[2,2,0,0])
# xdmf re-read
with meshio.xdmf.TimeSeriesReader(os.path.join(tmp,"res.xdmf")) as reader:
    pts, cells = reader.read_points_cells()
    print("nsteps", reader.num_steps, "expected", len(ramp))
    for k in range(reader.num_steps):
        t, pd, cd = reader.read_data(k)
        print(k, t, list(pd.keys()), list(cd.keys()), np.abs(pd["Displacement"]-seen[k]).max(), cd["Deformation Gradient"][0].shape)
# material view
v = um.view(ux=np.array([0.8,1.3,1.9]), ps=np.array([1.2,1.5]), bx=np.array([1.1,1.4]))
for (lam_, P_, label) in v.evaluate(): print(label, lam_, P_, [P_analytic(l)[0] for l in lam_] if label=="Uniaxial" else "")
