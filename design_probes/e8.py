import numpy as np, felupe as fem, warnings
np.set_printoptions(precision=6, suppress=True, linewidth=150)
warnings.simplefilter("ignore")
rng = np.random.default_rng(1)
def mk(ct, n=3, amp=0.04):
    if ct.startswith("quad"):
        m = fem.Rectangle(n=n)
    else:
        m = fem.Cube(n=n)
    m.points[:] += amp*rng.standard_normal(m.points.shape)  # distort vertices (also boundary)
    if ct in ("quad8","hexahedron20"): m = m.add_midpoints_edges()
    if ct == "quad9": m = m.add_midpoints_edges().add_midpoints_faces()
    if ct == "hexahedron27": m = m.add_midpoints_edges().add_midpoints_faces().add_midpoints_volumes()
    if ct not in ("quad","hexahedron"):
        # curve: perturb non-vertex points
        nv = (n**2 if ct.startswith("quad") else n**3)
        m.points[nv:] += 0.5*amp*rng.standard_normal(m.points[nv:].shape)
    return m
RV = {"quad":fem.RegionQuad,"quad8":fem.RegionQuadraticQuad,"quad9":fem.RegionBiQuadraticQuad,"hexahedron":fem.RegionHexahedron,"hexahedron20":fem.RegionQuadraticHexahedron,"hexahedron27":fem.RegionTriQuadraticHexahedron}
RB = {"quad":fem.RegionQuadBoundary,"quad8":fem.RegionQuadraticQuadBoundary,"quad9":fem.RegionBiQuadraticQuadBoundary,"hexahedron":fem.RegionHexahedronBoundary,"hexahedron20":fem.RegionQuadraticHexahedronBoundary,"hexahedron27":fem.RegionTriQuadraticHexahedronBoundary}
for ct in RV:
    m = mk(ct)
    rv = RV[ct](m); V = rv.dV.sum(); dim = m.dim
    rb = RB[ct](m)
    X = fem.Field(rb, dim=dim, values=m.points).interpolate()
    flux = (X*rb.dA).sum()
    closure = np.abs(rb.dA.sum(axis=(1,2))).max()
    nrm = np.abs(np.linalg.norm(rb.normals,axis=0)-1).max()
    tdot = max(np.abs((t*rb.normals).sum(0)).max() for t in rb.tangents)
    tn = max(np.abs(np.linalg.norm(t,axis=0)-1).max() for t in rb.tangents)
    # outward: normal . (x - centroid of its own cell) > 0
    ra = RB[ct](m, only_surface=False)
    ncell = m.ncells; nf = 4 if dim==2 else 6
    dAc = ra.dA.reshape(dim, -1, ncell, nf)
    percell = np.abs(dAc.sum(axis=(1,3))).max()
    Xa = fem.Field(ra, dim=dim, values=m.points).interpolate()
    flux_all = (Xa*ra.dA).sum(axis=(0,1)).reshape(ncell,nf).sum(1)
    vc = rv.dV.sum(0)
    print(f"{ct:13s} V={V:.6f} flux/dim={flux/dim:.6f} closure={closure:.1e} |n|-1={nrm:.1e} t.n={tdot:.1e} |t|-1={tn:.1e} percell closure={percell:.1e} percell flux err={np.abs(flux_all/dim-vc).max():.1e} minV={rv.dV.min():.2e} nfaces={rb.mesh.ncells}")
