import numpy as np, felupe as fem, warnings
np.set_printoptions(precision=6, suppress=True, linewidth=150)
warnings.simplefilter("ignore")
m = fem.Rectangle(a=(0,1), b=(2,3), n=4)
r = fem.RegionQuad(m)
f = fem.FieldContainer([fem.FieldAxisymmetric(r, dim=2)])
V = 2*np.pi*(r.dV*f[0].radius).sum(); print("V", V, np.pi*(9-1)*2)
for vals in [[1.0,0.0],[0.0,1.0],[1.0,0.0,0.0],[0.0,1.0,0.0]]:
    try:
        b = fem.SolidBodyForce(f, values=vals, scale=2.0)
        v = b.assemble.vector().toarray().reshape(-1,2).sum(0)
        print("bodyforce", vals, "->", v, "expected", 2.0*np.array(vals[:2])*V)
    except Exception as e:
        print("bodyforce", vals, "EXC", type(e).__name__, e)
s = fem.SolidBody(fem.NeoHooke(mu=1,bulk=2), f, density=1.5)
try:
    M = s.assemble.mass(); print("mass axi", M.shape, M.sum())
except Exception as e:
    print("mass axi EXC", type(e).__name__, e)
# plane strain mass
f2 = fem.FieldContainer([fem.FieldPlaneStrain(r, dim=2)])
s2 = fem.SolidBody(fem.NeoHooke(mu=1,bulk=2), f2, density=1.5)
M = s2.assemble.mass(); print("mass ps", M.shape, M.sum(), 1.5*4*2, np.abs(M-M.T).max())
# pressure on axisymmetric
rb = fem.RegionQuadBoundary(m, mask=m.points[:,1]==3, ensure_3d=True)
fb = fem.FieldContainer([fem.FieldAxisymmetric(rb, dim=2)])
p = fem.SolidBodyPressure(fb, pressure=1.0)
v = p.assemble.vector().toarray().reshape(-1,2).sum(0); print("pressure axi sum", v, "expected radial", -(-1.0)*2*np.pi*3*2, "(sign?)")
K = p.assemble.matrix(); print(K.shape)
# pointload axisymmetric
pl = fem.PointLoad(f, [3,7], values=[[1.0,2.0]], axisymmetric=True); print(pl.assemble.vector().toarray().reshape(-1,2)[[3,7]], m.points[[3,7]])
# free vibration sigma kwarg
m3 = fem.Cube(n=3); r3 = fem.RegionHexahedron(m3); f3 = fem.FieldContainer([fem.Field(r3, dim=3)])
s3 = fem.SolidBody(fem.LinearElastic(E=1,nu=.3), f3, density=1.0)
job = fem.FreeVibration([s3], {})
try:
    job.evaluate(sigma=-1.0, k=8); print("eig", job.eigenvalues)
except Exception as e: print("freevib sigma EXC", type(e).__name__, e)
from scipy.sparse.linalg import eigsh
job.evaluate(solver=lambda A, M, sigma, **kw: eigsh(A, M=M, sigma=-1e-2, **kw), k=9); print("eig", job.eigenvalues)
