import numpy as np, felupe as fem, warnings
warnings.simplefilter("ignore")
np.set_printoptions(precision=5, suppress=True, linewidth=150)
rng = np.random.default_rng(15)
m = fem.Rectangle(a=(0,0.5), b=(1,1.5), n=3); m.points[:] += 0.03*rng.standard_normal(m.points.shape)
r = fem.RegionQuad(m)
fm = fem.FieldsMixed(r, n=3, axisymmetric=True)
u, p, J = fm.fields
nq, nc = r.dV.shape
R = u.radius; dV = r.dV; W = 2*np.pi*R*dV
cells = m.cells; cd = p.region.mesh.cells
# reference: generalized B operator: for dof (a,i) of u: delta F (3x3) = [[dh_a/dX_J e_i]] 2D part + delta F33 = h_a/R if i==1
def Bu(c,q):
    B = np.zeros((m.npoints*2, 3,3))
    for a,pt in enumerate(cells[c]):
        for i in range(2):
            B[2*pt+i, i, :2] = r.dhdX[a,:,q,c]
        B[2*pt+1, 2, 2] = r.h[a,q,0]/R[q,c]
    return B
def Bs(field,c,q):
    n = field.region.mesh.npoints; B = np.zeros(n)
    for a,pt in enumerate(field.region.mesh.cells[c]): B[pt] += field.region.h[a,q,0]
    return B
A = rng.standard_normal((3,3,3,3,nq,nc)); Bm = rng.standard_normal((3,3,nq,nc)); Cm = rng.standard_normal((3,3,nq,nc)); D = rng.standard_normal((1,nq,nc)); E = rng.standard_normal((1,nq,nc)); G = rng.standard_normal((1,nq,nc))
K = fem.IntegralForm([A,Bm,Cm,D,E,G], fm, r.dV, fm).assemble().toarray()
nu_, np_ = m.npoints*2, p.region.mesh.npoints
Kuu = np.zeros((nu_,nu_)); Kup = np.zeros((nu_,np_)); KuJ=np.zeros((nu_,np_)); Kpp=np.zeros((np_,np_)); KpJ=np.zeros((np_,np_)); KJJ=np.zeros((np_,np_))
for c in range(nc):
    for q in range(nq):
        B = Bu(c,q); bp = Bs(p,c,q); bJ = Bs(J,c,q); w = W[q,c]
        Kuu += np.einsum("aij,ijkl,bkl->ab", B, A[...,q,c], B)*w
        Kup += np.einsum("aij,ij,b->ab", B, Bm[...,q,c], bp)*w
        KuJ += np.einsum("aij,ij,b->ab", B, Cm[...,q,c], bJ)*w
        Kpp += np.outer(bp,bp)*D[0,q,c]*w; KpJ += np.outer(bp,bJ)*E[0,q,c]*w; KJJ += np.outer(bJ,bJ)*G[0,q,c]*w
ref = np.block([[Kuu,Kup,KuJ],[Kup.T,Kpp,KpJ],[KuJ.T,KpJ.T,KJJ]])
print("axi mixed mode2 bilinear:", np.abs(K-ref).max()/np.abs(ref).max())
# linear form
P = rng.standard_normal((3,3,nq,nc)); fp = rng.standard_normal((1,nq,nc)); fJ = rng.standard_normal((1,nq,nc))
L = fem.IntegralForm([P,fp,fJ], fm, r.dV).assemble().toarray().ravel()
Lu = np.zeros(nu_); Lp=np.zeros(np_); LJ=np.zeros(np_)
for c in range(nc):
    for q in range(nq):
        w=W[q,c]; Lu += np.einsum("aij,ij->a", Bu(c,q), P[...,q,c])*w; Lp += Bs(p,c,q)*fp[0,q,c]*w; LJ += Bs(J,c,q)*fJ[0,q,c]*w
print("axi mixed linear:", np.abs(L-np.r_[Lu,Lp,LJ]).max())
# plane strain trimming
fps = fem.FieldsMixed(r, n=3, planestrain=True)
K2 = fem.IntegralForm([A,Bm,Cm,D,E,G], fps, r.dV, fps).assemble().toarray()
def Bu2(c,q):
    B = np.zeros((m.npoints*2, 3,3))
    for a,pt in enumerate(cells[c]):
        for i in range(2): B[2*pt+i, i, :2] = r.dhdX[a,:,q,c]
    return B
Kuu = np.zeros((nu_,nu_)); Kup = np.zeros((nu_,np_))
for c in range(nc):
    for q in range(nq):
        B = Bu2(c,q); w = dV[q,c]
        Kuu += np.einsum("aij,ijkl,bkl->ab", B, A[...,q,c], B)*w; Kup += np.einsum("aij,ij,b->ab", B, Bm[...,q,c], Bs(p,c,q))*w
print("plane strain uu:", np.abs(K2[:nu_,:nu_]-Kuu).max(), "up:", np.abs(K2[:nu_,nu_:nu_+np_]-Kup).max())
