import numpy as np, felupe as fem, warnings
np.set_printoptions(precision=6, suppress=True, linewidth=160)
warnings.simplefilter("ignore")
rng = np.random.default_rng(7)
def ref_matrix(v, u, fun, dV, gv, gu):
    """dense reference by explicit loops. fun full tensor (i[,J],k[,L],q,c)"""
    rv, ru = v.region, u.region
    nv, nu = v.region.mesh.npoints*v.dim, u.region.mesh.npoints*u.dim
    K = np.zeros((nv, nu))
    cv, cu = rv.mesh.cells, ru.mesh.cells
    nq, nc = dV.shape
    for c in range(nc):
        for q in range(nq):
            w = dV[q,c]
            for a in range(cv.shape[1]):
                for b in range(cu.shape[1]):
                    for i in range(v.dim):
                        for k in range(u.dim):
                            if gv and gu:
                                val = np.einsum("J,JL,L", rv.dhdX[a,:,q,c], fun[i,:,k,:,q,c], ru.dhdX[b,:,q,c])
                            elif gv and not gu:
                                val = np.einsum("J,J", rv.dhdX[a,:,q,c], fun[i,:,k,q,c])*ru.h[b,q,0]
                            elif not gv and gu:
                                val = rv.h[a,q,0]*np.einsum("L,L", fun[i,k,:,q,c], ru.dhdX[b,:,q,c])
                            else:
                                val = rv.h[a,q,0]*fun[i,k,q,c]*ru.h[b,q,0]
                            K[v.dim*cv[c,a]+i, u.dim*cu[c,b]+k] += val*w
    return K
m = fem.Cube(n=3); m.points[:] += 0.03*rng.standard_normal(m.points.shape)
r = fem.RegionHexahedron(m)
fm = fem.FieldsMixed(r, n=2)   # u (dim 3), p (dual const)
u, p = fm.fields
nq, nc = r.dV.shape
A = rng.standard_normal((3,3,3,3,nq,nc)); B = rng.standard_normal((3,3,1,nq,nc)); C = rng.standard_normal((1,1,nq,nc)); Bt = rng.standard_normal((1,3,3,nq,nc))
for par in (False, True):
    K2 = fem.IntegralForm([A,B,C], fm, r.dV, fm).assemble(parallel=par).toarray()
    Kuu = ref_matrix(u,u,A,r.dV,True,True); Kup = ref_matrix(u,p,B,r.dV,True,False); Kpp = ref_matrix(p,p,C,r.dV,False,False)
    ref2 = np.block([[Kuu,Kup],[Kup.T,Kpp]])
    print("mode2 par",par, np.abs(K2-ref2).max())
    K3 = fem.IntegralForm([A,B,Bt,C], fm, r.dV, fm).assemble(parallel=par).toarray()
    Kpu = ref_matrix(p,u,Bt,r.dV,False,True)
    print("mode3 par",par, np.abs(K3-np.block([[Kuu,Kup],[Kpu,Kpp]])).max())
K2n = fem.IntegralForm([A,None,C], fm, r.dV, fm).assemble().toarray()
print("None block", np.abs(K2n-np.block([[Kuu,0*Kup],[0*Kup.T,Kpp]])).max())
# B without the trailing component axis (3,3,q,c)
K2b = fem.IntegralForm([A,B[:,:,0],C], fm, r.dV, fm).assemble().toarray(); print("B (3,3,q,c) accepted:", np.abs(K2b-ref2).max())
# Form equivalence
from felupe.math import ddot, dot, grad
field = fem.FieldContainer([u])
@fem.Form(v=field, u=field, kwargs={"A": A})
def bf():
    return [lambda v, u, A: ddot(grad(v), ddot(A, grad(u), mode=(4,2)))]
for par in (False, True):
    Kf = bf.assemble(field, field, parallel=par).toarray(); print("Form vs IntegralForm par",par, np.abs(Kf-Kuu).max())
