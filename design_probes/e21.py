import numpy as np, felupe as fem, itertools
def mono_int(e):  # over [-1,1]^d
    return np.prod([0 if k%2 else 2/(k+1) for k in e])
bad=[]
for order in range(0,9):
    for dim in (1,2,3):
        for perm in (True, False):
            q = fem.GaussLegendre(order, dim, permute=perm); deg = 2*(order+1)-1
            err = max(abs((q.weights*np.prod(q.points**np.array(e),axis=1)).sum()-mono_int(e)) for e in itertools.product(range(min(deg,9)+1), repeat=dim))
            nxt = abs((q.weights*q.points[:,0]**(deg+1)).sum()-mono_int((deg+1,)+(0,)*(dim-1)))
            q0 = fem.GaussLegendre(order, dim, permute=False)
            same = sorted(map(tuple, np.c_[q.points,q.weights].round(12).tolist()))==sorted(map(tuple, np.c_[q0.points,q0.weights].round(12).tolist()))
            # ordering like Lagrange element points
            ordok = True
            if perm and dim>1 and order>=1:
                el = fem.ArbitraryOrderLagrangeElement(order=order, dim=dim)
                ordok = all(np.array_equal(np.argsort(np.argsort(q.points[:,k].round(10), kind="stable")*0+np.unique(q.points[:,k].round(10), return_inverse=True)[1]), np.argsort(np.argsort(el.points[:,k].round(10))*0+np.unique(el.points[:,k].round(10), return_inverse=True)[1])) for k in range(dim))
                ordok = all(np.array_equal(np.unique(q.points[:,k].round(10), return_inverse=True)[1], np.unique(el.points[:,k].round(10), return_inverse=True)[1]) for k in range(dim))
            if err>1e-13 or nxt<1e-6 or not same or not ordok or abs(q.weights.sum()-2**dim)>1e-13 or np.abs(q.points).max()>1:
                bad.append(("GL",order,dim,perm,err,nxt,same,ordok))
for order in range(0,6):
    for dim in (1,2,3):
        q = fem.GaussLobatto(order, dim); deg = 2*(order+2)-3
        err = max(abs((q.weights*np.prod(q.points**np.array(e),axis=1)).sum()-mono_int(e)) for e in itertools.product(range(min(deg,9)+1), repeat=dim))
        nxt = abs((q.weights*q.points[:,0]**(deg+1)).sum()-mono_int((deg+1,)+(0,)*(dim-1)))
        if err>1e-13 or nxt<1e-6: bad.append(("Lobatto",order,dim,err,nxt))
for order in range(0,5):
    for dim in (2,3):
        qb = fem.GaussLegendreBoundary(order, dim); ql = fem.GaussLegendre(order, dim-1)
        if not (np.allclose(qb.points[:,:-1], ql.points) and np.all(qb.points[:,-1]==-1) and np.allclose(qb.weights, ql.weights) and qb.dim==dim): bad.append(("GLB",order,dim))
        qb = fem.GaussLobattoBoundary(order, dim); ql = fem.GaussLobatto(order, dim-1)
        if not (np.allclose(qb.points[:,:-1], ql.points) and np.all(qb.points[:,-1]==-1) and np.allclose(qb.weights, ql.weights)): bad.append(("GLoB",order,dim))
print("bad:", bad)
