import numpy as np, felupe as fem, warnings, os, time
os.environ["FELUPE_VERBOSE"]="false"
warnings.simplefilter("ignore")
np.set_printoptions(precision=6, suppress=True, linewidth=150)
rng = np.random.default_rng(12)
# (3) condensed vs explicit three-field
for bulk in [5.0, 500.0, 5000.0]:
    m = fem.Cube(n=3); m.points[13] += [0.05,-0.04,0.03]
    r = fem.RegionHexahedron(m)
    f1 = fem.FieldContainer([fem.Field(r, dim=3)])
    b1, lc1 = fem.dof.uniaxial(f1, clamped=True, move=0.3)
    s1 = fem.SolidBodyNearlyIncompressible(fem.NeoHooke(mu=1.0), f1, bulk=bulk)
    res1 = fem.newtonrhapson(items=[s1], **lc1, tol=1e-11, verbose=0)
    f2 = fem.FieldsMixed(r, n=3)
    b2, lc2 = fem.dof.uniaxial(f2, clamped=True, move=0.3)
    s2 = fem.SolidBody(fem.NearlyIncompressible(fem.NeoHooke(mu=1.0), bulk=bulk), f2)
    res2 = fem.newtonrhapson(items=[s2], **lc2, tol=1e-11, verbose=0)
    du = np.abs(res1.x[0].values - res2.x[0].values).max()
    dp = np.abs(s1.results.state.p - res2.x[1].values.ravel()).max(); dJ = np.abs(s1.results.state.J - res2.x[2].values.ravel()).max()
    print(f"bulk={bulk}: du={du:.1e} dp={dp:.1e} (|p|={np.abs(res2.x[1].values).max():.2f}) dJ={dJ:.1e} it={res1.iterations},{res2.iterations}")
# (2) axisymmetric vs revolved 3D: ring force resultants
umat = fem.NeoHooke(mu=1.0, bulk=4.0)
m2 = fem.Rectangle(a=(0,1), b=(1,2), n=3)
r2 = fem.RegionQuad(m2); fa = fem.FieldContainer([fem.FieldAxisymmetric(r2, dim=2)])
U = lambda X: np.c_[0.1*X[:,0]*X[:,1], 0.08*X[:,1]**2 - 0.05*X[:,0]]   # (u_z, u_r) as function of (z,r)
fa[0].values[:] = U(m2.points)
ra = fem.SolidBody(umat, fa).assemble.vector(fa).toarray().reshape(-1,2)
for n in [9, 17, 33]:
    t0=time.time()
    m3 = m2.revolve(n=n, phi=360, axis=0)
    r3 = fem.RegionHexahedron(m3); f3 = fem.FieldContainer([fem.Field(r3, dim=3)])
    X = m3.points; R = np.hypot(X[:,1], X[:,2]); u2 = U(np.c_[X[:,0], R])
    f3[0].values[:] = np.c_[u2[:,0], u2[:,1]*X[:,1]/R, u2[:,1]*X[:,2]/R]
    r3d = fem.SolidBody(umat, f3).assemble.vector(f3).toarray().reshape(-1,3)
    # ring resultants: axial force sum and radial force sum (f . e_r)
    npl = m2.npoints; nrings = n-1
    fz = r3d[:,0].reshape(nrings, npl).sum(0)
    fr = ((r3d[:,1]*X[:,1] + r3d[:,2]*X[:,2])/R).reshape(nrings, npl).sum(0)
    err = max(np.abs(fz-ra[:,0]).max(), np.abs(fr-ra[:,1]).max())/np.abs(ra).max()
    print(f"n={n}: rel err={err:.3e}  V3d={r3.dV.sum():.5f} t={time.time()-t0:.2f}s")
