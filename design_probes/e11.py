import numpy as np, felupe as fem, warnings
from felupe import math as fm
np.set_printoptions(precision=4, suppress=True, linewidth=160)
rng = np.random.default_rng(4)
def bt(A):  # move tensor axes last->first helper: (d,d,...)->(...,d,d)
    return np.moveaxis(np.moveaxis(A,0,-1),0,-1)
for d in (1,2,3):
    for shape in [(5,), (4,3), (1,3), (2,1,3)]:
        A = np.eye(d).reshape(d,d,*([1]*len(shape))) + 0.4*rng.uniform(-1,1,(d,d,*shape))
        A0 = A.copy()
        An = np.moveaxis(A,[0,1],[-2,-1])
        ref_det = np.linalg.det(An); ref_inv = np.moveaxis(np.linalg.inv(An),[-2,-1],[0,1])
        e = []
        e.append(np.abs(fm.det(A)-ref_det).max())
        e.append(np.abs(fm.inv(A)-ref_inv).max())
        e.append(np.abs(fm.cof(A)-ref_det*np.swapaxes(ref_inv,0,1)).max())
        out = np.empty_like(A); r = fm.inv(A, out=out); e.append(np.abs(out-ref_inv).max()); 
        S = (A+np.swapaxes(A,0,1))/2; Sn = np.moveaxis(S,[0,1],[-2,-1])
        e.append(np.abs(fm.inv(S, sym=True)-np.moveaxis(np.linalg.inv(Sn),[-2,-1],[0,1])).max())
        e.append(np.abs(fm.inv(A, determinant=fm.det(A))-ref_inv).max())
        e.append(np.abs(fm.dev(A) - (A - np.trace(A)/d*np.eye(d).reshape(d,d,*([1]*len(shape))))).max())
        assert np.array_equal(A, A0)
        print(d, shape, ["%.0e"%x for x in e])
# eig
C = np.einsum("ki...,kj...->ij...", A, A)
w, v = fm.eigh(C); print("eigh recon", np.abs(np.einsum("a...,ia...,ja...->ij...", w, v, v)-C).max())
print("eigvalsh", np.abs(fm.eigvalsh(C)-w).max(), fm.eigvalsh(C, shear=True).shape)
# cross 2d?
a = rng.standard_normal((3,4,2)); b = rng.standard_normal((3,4,2)); print("cross", np.abs(fm.cross(a,b)-np.cross(a,b,axis=0)).max())
try:
    a2 = rng.standard_normal((2,5)); b2 = rng.standard_normal((2,5)); print("cross2d", fm.cross(a2,b2).shape)
except Exception as ex: print("cross2d EXC", type(ex).__name__, ex)
# parallel
A = rng.standard_normal((3,3,8,1000)); B = rng.standard_normal((3,3,8,1000))
print("dot par", np.abs(fm.dot(A,B,parallel=True)-fm.dot(A,B)).max(), "cdya par", np.abs(fm.cdya(A,B,parallel=True)-fm.cdya(A,B)).max())
out = np.zeros((3,3,3,3,8,1000)); r = fm.cdya(A,B,out=out); print("cdya out", r is out, np.abs(out - 0.5*(np.einsum("ik...,jl...->ijkl...",A,B)+np.einsum("il...,kj...->ijkl...",A,B))).max())
print("tovoigt", fm.tovoigt(np.arange(9.).reshape(3,3,1))[:,0], fm.tovoigt(np.arange(4.).reshape(2,2,1), strain=True)[:,0])
print("vm2d", fm.equivalent_von_mises(np.diag([3.,1.]).reshape(2,2,1)))
print("linsteps", fm.linsteps([0,1,3], num=[2,4]), fm.linsteps([0,1,3], num=2, axis=1, axes=3, values=[9,9,9]))
print("solve_nd", end=" ")
A4 = rng.standard_normal((3,3,3,3,4,5)) + 5*np.einsum("ik,jl->ijkl",np.eye(3),np.eye(3))[...,None,None]; b = rng.standard_normal((3,3,4,5))
x = fm.solve_2d(A4,b); print(np.abs(np.einsum("ijkl...,kl...->ij...",A4,x)-b).max())
for dim in (2,3):
  for ax in range(3 if dim==3 else 1):
    R = fm.rotation_matrix(33.0, dim, ax); print("rot", dim, ax, np.abs(R@R.T-np.eye(dim)).max(), np.linalg.det(R).round(6), R[ax,ax] if dim==3 else "")
