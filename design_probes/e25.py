import numpy as np, felupe as fem, warnings, time
import felupe.constitution.tensortrax as tt
import felupe.constitution.jax as jx
import jax; jax.config.update("jax_enable_x64", True)
warnings.simplefilter("ignore")
np.set_printoptions(precision=5, suppress=True, linewidth=150)
rng = np.random.default_rng(13)
def randF(n, amp=0.2): return (np.eye(3)[:,:,None] + amp*rng.uniform(-1,1,(3,3,n))).reshape(3,3,1,n)
def fdA(g, F, h=1e-6):
    A = np.zeros((3,3,3,3,*F.shape[2:]))
    for k in range(3):
        for l in range(3):
            d = np.zeros_like(F); d[k,l]=h
            A[:,:,k,l] = (np.array(g(F+d)) - np.array(g(F-d)))/(2*h)
    return A
n=4
p=[0.011, 0.408, 0.421, 6.85, 0.0056, 5.54, 5.84, 0.117]
mo = tt.Material(tt.models.lagrange.morph, p=p, nstatevars=13)
mj = jx.Material(jx.models.lagrange.morph, p=p, nstatevars=13)
svm = np.zeros((13,1,n)); svm[[1,4,6]] = 1.0
F1 = randF(n, 0.3); I = np.eye(3).reshape(3,3,1,1)
F2 = I + 0.6*(F1-I)
for lab, m_ in (("tensortrax", mo), ("jax", mj)):
    P1, s1 = m_.gradient([F1, svm]); P2, s2 = m_.gradient([F2, s1])
    A = m_.hessian([F2, s1])[0]; Afd = fdA(lambda F_: m_.gradient([F_, s1])[0], F2)
    print(lab, "per-item tangent err:", (np.abs(A-Afd).max(axis=(0,1,2,3,4))/np.abs(A).max()).round(6), "CTS", s2[0].ravel().round(4), "CTS1", s1[0].ravel().round(4))
    if lab=="tensortrax": Pt1, st1, Pt2, At = P1, s1, P2, A
    else: print("jax vs tensortrax: dP1", np.abs(P1-Pt1).max()/np.abs(Pt1).max(), "dstate", np.abs(s1-st1).max(), "dP2", np.abs(P2-Pt2).max()/np.abs(Pt2).max(), "dA", np.abs(A-At).max()/np.abs(At).max())
# asymmetry of LG
C = np.einsum("ki...,kj...->ij...", F2, F2)[...,0,:]; Cn = np.einsum("ki...,kj...->ij...", F1, F1)[...,0,:]
for i in range(n):
    c = C[...,i]; cn = Cn[...,i]; invC = np.linalg.inv(c); dC = c-cn; CG = c*np.linalg.det(c)**(-1/3)
    X = invC@dC; X = X - np.trace(X)/3*np.eye(3); X=(X+X.T)/2; LG = X@CG
    print("LG asym", np.abs(LG-LG.T).max()/np.abs(LG).max(), "eig true", np.sort(np.linalg.eigvals(LG).real), "eigvalsh L", np.linalg.eigvalsh(LG), "sym", np.linalg.eigvalsh((LG+LG.T)/2))
