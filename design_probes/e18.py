import numpy as np, felupe as fem, warnings
np.set_printoptions(precision=6, suppress=True, linewidth=160)
warnings.simplefilter("ignore")
rng = np.random.default_rng(9)
A = np.eye(3) + 0.3*rng.uniform(-1,1,(3,3)); A2 = np.eye(2)+0.3*rng.uniform(-1,1,(2,2))
def aff(m):
    m = m.copy(); M = A if m.dim==3 else A2
    m.points[:] = m.points @ M.T + 0.7; return m
T = {
 "RegionQuad": (aff(fem.Rectangle(n=3)), fem.RegionQuad, fem.GaussLegendre(5,2)),
 "RegionQuadraticQuad": (aff(fem.Rectangle(n=3)).add_midpoints_edges(), fem.RegionQuadraticQuad, fem.GaussLegendre(5,2)),
 "RegionBiQuadraticQuad": (aff(fem.Rectangle(n=3)).add_midpoints_edges().add_midpoints_faces(), fem.RegionBiQuadraticQuad, fem.GaussLegendre(5,2)),
 "RegionHexahedron": (aff(fem.Cube(n=3)), fem.RegionHexahedron, fem.GaussLegendre(5,3)),
 "RegionQuadraticHexahedron": (aff(fem.Cube(n=2)).add_midpoints_edges(), fem.RegionQuadraticHexahedron, fem.GaussLegendre(5,3)),
 "RegionTriQuadraticHexahedron": (aff(fem.Cube(n=2)).add_midpoints_edges().add_midpoints_faces().add_midpoints_volumes(), fem.RegionTriQuadraticHexahedron, fem.GaussLegendre(5,3)),
 "RegionTriangle": (aff(fem.Rectangle(n=3)).triangulate(), fem.RegionTriangle, fem.TriangleQuadrature(5)),
 "RegionQuadraticTriangle": (aff(fem.Rectangle(n=3)).triangulate().add_midpoints_edges(), fem.RegionQuadraticTriangle, fem.TriangleQuadrature(5)),
 "RegionTetra": (aff(fem.Cube(n=2)).triangulate(), fem.RegionTetra, fem.TetrahedronQuadrature(5)),
 "RegionQuadraticTetra": (aff(fem.Cube(n=2)).triangulate().add_midpoints_edges(), fem.RegionQuadraticTetra, fem.TetrahedronQuadrature(5)),
 "RegionLagrange3_2d": (aff(fem.mesh.RectangleArbitraryOrderQuad(order=3)), lambda m, **kw: fem.RegionLagrange(m, order=3, dim=2, **kw), fem.GaussLegendre(6,2)),
 "RegionLagrange2_3d": (aff(fem.mesh.CubeArbitraryOrderHexahedron(order=2)), lambda m, **kw: fem.RegionLagrange(m, order=2, dim=3, **kw), fem.GaussLegendre(5,3)),
}
for name,(m,R,qhi) in T.items():
    r = R(m); rh = R(m, quadrature=qhi)
    S = np.einsum("aIqc,bJqc,qc->abIJc", r.dhdX, r.dhdX, r.dV); Sh = np.einsum("aIqc,bJqc,qc->abIJc", rh.dhdX, rh.dhdX, rh.dV)
    print(f"{name:30s} V={r.dV.sum():.6f} Vhi={rh.dV.sum():.6f} grad-product err={np.abs(S-Sh).max()/np.abs(Sh).max():.1e}")
# C14 force & moment balance
m = fem.Cube(n=3); m.points[:] += 0.04*rng.standard_normal(m.points.shape)
r = fem.RegionHexahedron(m); f = fem.FieldContainer([fem.Field(r, dim=3)]); f[0].values[:] = 0.08*rng.standard_normal((m.npoints,3))
s = fem.SolidBody(fem.NeoHooke(mu=1,bulk=3), f, density=2.5)
fo = s.assemble.vector(f).toarray().reshape(-1,3); x = m.points + f[0].values
print("force sum", np.abs(fo.sum(0)).max(), "moment", np.abs(np.cross(x-[3,2,1], fo).sum(0)).max(), "|f|", np.abs(fo).max())
M = s.assemble.mass().toarray(); print("mass sum per dir", [M[i::3, i::3].sum() for i in range(3)], 2.5*r.dV.sum(), "sym", np.abs(M-M.T).max(), "min eig", np.linalg.eigvalsh(M).min())
bf = fem.SolidBodyForce(f, values=[1.,-2.,.5], scale=2.5); print("body force sum", bf.assemble.vector().toarray().reshape(-1,3).sum(0), 2.5*r.dV.sum()*np.array([1,-2,.5]))
rb = fem.RegionHexahedronBoundary(m); fb = fem.FieldContainer([fem.Field(rb, dim=3)]); fb.link(f)
pr = fem.SolidBodyPressure(fb, pressure=1.7); print("closed pressure sum", np.abs(pr.assemble.vector(fb).toarray().reshape(-1,3).sum(0)).max())
mask = np.isclose(fem.Cube(n=3).points[:,0], 1)
rb2 = fem.RegionHexahedronBoundary(m, mask=mask); fb2 = fem.FieldContainer([fem.Field(rb2, dim=3)]); fb2.link(f)
pr2 = fem.SolidBodyPressure(fb2, pressure=1.7); v2 = pr2.assemble.vector(fb2).toarray().reshape(-1,3).sum(0)
md = m.copy(); md.points[:] = x; rbd = fem.RegionHexahedronBoundary(md, mask=mask); print("open face pressure sum", v2, "expected", -1.7*rbd.dA.sum(axis=(1,2)))
