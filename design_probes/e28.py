import numpy as np, felupe as fem, warnings, itertools
warnings.simplefilter("ignore")
np.set_printoptions(precision=5, suppress=True, linewidth=150)
rng = np.random.default_rng(16)
def model_uniaxial(X, dim, left, right, move, axis, clamped, sym):
    sym = (sym,)*3 if not hasattr(sym,"__len__") else sym
    pres = {}
    def setp(mask, comp, val):
        for pt in np.where(mask)[0]: pres[(pt,comp)] = val   # last wins
    if right is None: right = X[:,axis].max()
    for a in range(dim):
        if sym[a]: setp(np.isclose(X[:,a],0.0), a, 0.0)
    if not sym[axis]:
        if left is None: left = X[:,axis].min()
        setp(np.isclose(X[:,axis],left), axis, 0.0)
    if clamped:
        for a in range(dim):
            if a!=axis: setp(np.isclose(X[:,axis],right), a, 0.0)
        if not sym[axis]:
            for a in range(dim):
                if a!=axis: setp(np.isclose(X[:,axis],left), a, 0.0)
    setp(np.isclose(X[:,axis],right), axis, move)
    return pres
bad = 0; n=0
for dim in (2,3):
    for axis in range(dim):
        for clamped in (False, True):
            for sym in [True, False, (True,False,True), (False,True,False), (False,False,False)]:
                for origin in [0.0, -0.5]:
                    m = fem.Rectangle(a=(origin,origin), b=(1,2), n=3) if dim==2 else fem.Cube(a=(origin,)*3, b=(1,2,1.5), n=3)
                    r = (fem.RegionQuad if dim==2 else fem.RegionHexahedron)(m)
                    f = fem.FieldContainer([fem.Field(r, dim=dim)])
                    move = 0.37
                    try:
                        b, lc = fem.dof.uniaxial(f, move=move, axis=axis, clamped=clamped, sym=sym)
                    except Exception as e:
                        print("EXC", dim, axis, clamped, sym, origin, type(e).__name__, e); continue
                    pres = model_uniaxial(m.points, dim, None, None, move, axis, clamped, sym)
                    dof0_model = np.array(sorted(dim*pt+c for (pt,c) in pres))
                    ext_model = np.array([pres[(d//dim, d%dim)] for d in dof0_model])
                    n+=1
                    if not (np.array_equal(dof0_model, lc["dof0"]) and np.allclose(ext_model, lc["ext0"])):
                        bad+=1; print("MISMATCH", dim, axis, clamped, sym, origin, len(dof0_model), len(lc["dof0"]))
print("uniaxial cases", n, "bad", bad)
# partition with cell-less points + mixed
m = fem.Cube(n=3); m.update(points=np.vstack([m.points, [[2,2,2],[3,3,3]]]))
r = fem.RegionHexahedron(m); fm = fem.FieldsMixed(r, n=3)
print("points without cells", m.points_without_cells, "fieldsizes", fm.fieldsizes, "offsets", fm.offsets)
bnd = {"a": fem.Boundary(fm[0], fx=0, skip=(0,1,0), value=np.array([0.1, 0.3])), "p": fem.Boundary(fm[1], mask=np.arange(fm[1].region.mesh.npoints)%3==0, value=0.7)}
d0, d1 = fem.dof.partition(fm, bnd); ext0 = fem.dof.apply(fm, bnd, d0)
print(len(d0), len(d1), sum(fm.fieldsizes), np.intersect1d(d0,d1).size, d0[-8:], ext0[:6], ext0[-4:])
