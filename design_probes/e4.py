import numpy as np, felupe as fem, warnings, itertools
np.set_printoptions(precision=6, suppress=True, linewidth=150)
# quadrature exactness
from math import factorial
def tri_int(a,b): return factorial(a)*factorial(b)/factorial(a+b+2)
def tet_int(a,b,c): return factorial(a)*factorial(b)*factorial(c)/factorial(a+b+c+3)
for o in [1,2,3,5]:
    q = fem.TriangleQuadrature(order=o)
    for deg in range(0,8):
        err = max(abs((q.weights*q.points[:,0]**a*q.points[:,1]**(d-a)).sum()-tri_int(a,d-a)) for d in range(deg+1) for a in range(d+1))
        if err > 1e-7: break
    print("tri order",o,"exact up to degree",deg-1, "next err", err)
for o in [1,2,3,5]:
    q = fem.TetrahedronQuadrature(order=o)
    for deg in range(0,8):
        err = max(abs((q.weights*q.points[:,0]**a*q.points[:,1]**b*q.points[:,2]**(d-a-b)).sum()-tet_int(a,b,d-a-b)) for d in range(deg+1) for a in range(d+1) for b in range(d-a+1))
        if err > 1e-7: break
    print("tet order",o,"exact up to degree",deg-1, "next err", err, "min pt", q.points.min(), "wsum", q.weights.sum())
# max err at exact degree
for o in [1,2,3,5]:
    q = fem.TetrahedronQuadrature(order=o)
    err = max(abs((q.weights*q.points[:,0]**a*q.points[:,1]**b*q.points[:,2]**(d-a-b)).sum()-tet_int(a,b,d-a-b)) for d in range(o+1) for a in range(d+1) for b in range(d-a+1))
    q2 = fem.TriangleQuadrature(order=o)
    err2 = max(abs((q2.weights*q2.points[:,0]**a*q2.points[:,1]**(d-a)).sum()-tri_int(a,d-a)) for d in range(o+1) for a in range(d+1))
    print("order",o,"tet err",err,"tri err",err2)
q = fem.BazantOh(n=21)
# sphere: integrate monomials over unit sphere normalized (total weight 1); compare with exact mean
def sph_mean(a,b,c):
    if a%2 or b%2 or c%2: return 0.0
    from scipy.special import gamma
    # mean of x^a y^b z^c over unit sphere
    return 2*gamma((a+1)/2)*gamma((b+1)/2)*gamma((c+1)/2)/gamma((a+b+c+3)/2)/(4*np.pi)
mx=0
for d in range(0,12):
    e = max(abs((q.weights*q.points[:,0]**a*q.points[:,1]**b*q.points[:,2]**(d-a-b)).sum()-sph_mean(a,b,d-a-b)) for a in range(d+1) for b in range(d-a+1))
    print("sphere deg",d,"err",e)
