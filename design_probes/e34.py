import numpy as np, felupe as fem, warnings, scipy.linalg as sl
import felupe.constitution.tensortrax as tt, tensortrax.math as tm
warnings.simplefilter("ignore")
np.set_printoptions(precision=6, suppress=True, linewidth=150)
rng = np.random.default_rng(21)
# C17 strain
F = (np.eye(3)[:,:,None,None] + 0.3*rng.uniform(-1,1,(3,3,2,3)))
C = np.einsum("ki...,kj...->ij...", F, F)
for k in (-2,-1,0,1,2,0.5):
    E = fem.math.strain(None, C=C, k=k)
    ref = np.zeros_like(E)
    for q in range(2):
        for c in range(3):
            U = sl.sqrtm(C[...,q,c]).real
            ref[...,q,c] = sl.logm(U).real if k==0 else (np.linalg.matrix_power(U,int(k))-np.eye(3))/k if float(k).is_integer() else (sl.fractional_matrix_power(U,k).real-np.eye(3))/k
    Ev = fem.math.strain(None, C=C, k=k, asvoigt=True); Ep = fem.math.strain(None, C=C, k=k, tensor=False)
    print("k",k,"tensor err", np.abs(E-ref).max(), "voigt shear doubled", np.abs(Ev[3]-2*E[0,1]).max(), "principal", np.abs(np.sort(Ep,axis=0)-np.sort(np.linalg.eigvalsh(ref.transpose(2,3,0,1)).transpose(2,0,1),axis=0)).max())
# C11 wrappers
@tt.total_lagrange
def S_nh(F, mu):
    C = F.T @ F; return mu*tm.special.dev(tm.linalg.det(C)**(-1/3)*C) @ tm.linalg.inv(C)
@tt.updated_lagrange
def sig_nh(F, mu):
    b = F @ F.T; J = tm.linalg.det(F); return mu*tm.special.dev(J**(-2/3)*b)/J
Fb = F[:,:, :1, :]
nh = fem.NeoHooke(mu=1.3)
for lab, fn in (("total", S_nh), ("updated", sig_nh)):
    um = tt.Material(fn, mu=1.3)
    P = um.gradient([Fb, None])[0]; A = um.hessian([Fb, None])[0]
    print(lab, "vs NeoHooke: dP", np.abs(P-nh.gradient([Fb,None])[0]).max(), "dA", np.abs(A-nh.hessian([Fb,None])[0]).max())
# C13 masks and ensure_3d
m = fem.Cube(n=3)
mask = (m.x > 0.4)
rb = fem.RegionHexahedronBoundary(m, mask=mask)
faces = rb.mesh.cells_faces
allsurf = fem.RegionHexahedronBoundary(m).mesh.cells_faces
expect = {tuple(sorted(f)) for f in allsurf if mask[f].all()}
print("mask selection ok:", {tuple(sorted(f)) for f in faces}==expect, len(faces), len(expect))
mq = fem.Rectangle(n=3); rq = fem.RegionQuadBoundary(mq, ensure_3d=True); print("ensure_3d shapes", rq.dA.shape, rq.normals.shape, [t.shape for t in rq.tangents], rq.dV.shape)
rq2 = fem.RegionQuadBoundary(mq); print("2d shapes", rq2.dA.shape, rq2.normals.shape, [t.shape for t in rq2.tangents])
