import numpy as np, felupe as fem, warnings, os
os.environ["FELUPE_VERBOSE"]="false"
np.set_printoptions(precision=6, suppress=True, linewidth=160)
warnings.simplefilter("ignore")
rng = np.random.default_rng(8)
def dist(m, amp=0.05):
    m = m.copy(); m.points[:] = m.points + amp*rng.standard_normal(m.points.shape); return m
cases = {
 "hex8": (dist(fem.Cube(n=3)), fem.RegionHexahedron, {}),
 "hex20": (dist(fem.Cube(n=3)).add_midpoints_edges(), fem.RegionQuadraticHexahedron, {}),
 "hex27": (dist(fem.Cube(n=3)).add_midpoints_edges().add_midpoints_faces().add_midpoints_volumes(), fem.RegionTriQuadraticHexahedron, {}),
 "quad4": (dist(fem.Rectangle(n=4)), fem.RegionQuad, {}),
 "quad8": (dist(fem.Rectangle(n=3)).add_midpoints_edges(), fem.RegionQuadraticQuad, {}),
 "quad9": (dist(fem.Rectangle(n=3)).add_midpoints_edges().add_midpoints_faces(), fem.RegionBiQuadraticQuad, {}),
 "tri3": (dist(fem.Rectangle(n=3)).triangulate(), fem.RegionTriangle, {}),
 "tri3 o2": (dist(fem.Rectangle(n=3)).triangulate(), fem.RegionTriangle, {"quadrature": fem.TriangleQuadrature(order=2)}),
 "tri6 o5": (dist(fem.Rectangle(n=3)).triangulate().add_midpoints_edges(), fem.RegionQuadraticTriangle, {"quadrature": fem.TriangleQuadrature(order=5)}),
 "tet4": (dist(fem.Cube(n=3)).triangulate(), fem.RegionTetra, {}),
 "tet10 o5": (dist(fem.Cube(n=3)).triangulate().add_midpoints_edges(), fem.RegionQuadraticTetra, {"quadrature": fem.TetrahedronQuadrature(order=5)}),
 "lagr3 2d": (fem.mesh.RectangleArbitraryOrderQuad(order=3), lambda m, **kw: fem.RegionLagrange(m, order=3, dim=2), {}),
}
for name,(m,R,kw) in cases.items():
    try:
        r = R(m, **kw)
        vals = rng.standard_normal((m.npoints, 2))
        f = fem.Field(r, dim=2, values=vals)
        vq = f.interpolate()
        proj = fem.project(vq, r)
        used = m.points_with_cells
        e1 = np.abs(proj-vals)[used].max()
        # integral preserved for arbitrary data
        w = rng.standard_normal((2,)+r.dV.shape)
        pw = fem.project(w, r)
        # use region actually used in project (may have swapped quadrature) -> compare integrals with same region if npoints equal
        rr = r
        i1 = (w*r.dV).sum(axis=(1,2)); i2 = (fem.Field(r, dim=2, values=pw).interpolate()*r.dV).sum(axis=(1,2))
        msg = f"{name:9s} project own-space err={e1:.1e} integral err={np.abs(i1-i2).max():.1e}"
        if name in ("hex8","quad4"):
            lin = (1 + m.points @ rng.standard_normal((m.dim,2)))
            fl = fem.Field(r, dim=2, values=lin); ex = fem.tools.extrapolate(fl.interpolate(), r)
            msg += f" extrap lin err={np.abs(ex-lin).max():.1e}"
            # multilinear: product x*y(*z) on undistorted mesh
            tp = fem.topoints(vq, r); 
            # oracle
            acc = np.zeros_like(vals); cnt = np.zeros(m.npoints)
            for c, cell in enumerate(m.cells):
                for a, pnt in enumerate(cell):
                    acc[pnt] += vq[:, a, c]; cnt[pnt]+=1
            msg += f" topoints err={np.abs(tp-acc/cnt[:,None]).max():.1e}"
        print(msg)
    except Exception as e:
        print(name, "EXC", type(e).__name__, str(e)[:100])
# C18
m = fem.Cube(b=(3,1,1), n=(5,3,3)); r = fem.RegionHexahedron(m); f = fem.FieldContainer([fem.Field(r, dim=3)])
s = fem.SolidBody(fem.LinearElastic(E=2.0,nu=.3), f, density=1.3)
bnd = {"left": fem.Boundary(f[0], fx=0)}
job = fem.FreeVibration([s], bnd).evaluate(k=5)
K = s.assemble.matrix(f); M = s.assemble.mass(); d1 = job.dof1
for i in range(5):
    v = job.eigenvectors[:,i]; lam = job.eigenvalues[i]
    print("eig", i, lam, np.linalg.norm(K[d1][:,d1]@v - lam*M[d1][:,d1]@v)/np.linalg.norm(K[d1][:,d1]@v))
fld, freq = job.extract(2, inplace=False); print(freq, np.sqrt(job.eigenvalues[2])/2/np.pi, np.abs(fld[0].values[m.x==0]).max())
