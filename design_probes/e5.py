import numpy as np, felupe as fem, warnings
np.set_printoptions(precision=6, suppress=True, linewidth=150)
warnings.simplefilter("ignore")
def vol(mesh):
    R = {"quad":fem.RegionQuad,"hexahedron":fem.RegionHexahedron,"triangle":fem.RegionTriangle,"tetra":fem.RegionTetra,
         "quad8":fem.RegionQuadraticQuad,"quad9":fem.RegionBiQuadraticQuad,"hexahedron20":fem.RegionQuadraticHexahedron,"hexahedron27":fem.RegionTriQuadraticHexahedron,
         "triangle6":fem.RegionQuadraticTriangle,"tetra10":fem.RegionQuadraticTetra}[mesh.cell_type]
    r = R(mesh); return r.dV.sum(), r.dV.min()
print("Circle", vol(fem.Circle(n=4)), np.pi, " unused pts:", fem.Circle(n=4).points_without_cells)
print("Circle sections [0,90]", vol(fem.Circle(n=3, sections=[0,90])), np.pi/2)
print("Triangle", vol(fem.mesh.Triangle(a=(0,0),b=(2,0),c=(.5,1.5),n=4)), 0.5*2*1.5)
print("Triangle cw", vol(fem.mesh.Triangle(a=(0,0),c=(2,0),b=(.5,1.5),n=4)))
m = fem.Cube(n=3)
print("tri mode3", vol(m.triangulate(mode=3)), "mode0", vol(m.triangulate(mode=0)))
print("mirror", vol(m.mirror(normal=[1,2,3])), vol(fem.Rectangle(n=3).mirror(normal=[1,1,0])), vol(m.triangulate().mirror()), vol(fem.Rectangle(n=3).triangulate().mirror(axis=1)))
print("flipflip equal", np.array_equal(m.flip().flip().cells, m.cells), "flip vol", vol(m.flip()))
print("expand line->quad", vol(fem.mesh.Line(n=4).expand(n=3, z=2.0)))
print("expand quad->hex", vol(fem.Rectangle(n=3).expand(n=3, z=2.0)))
print("revolve line", vol(fem.mesh.Line(a=1,b=2,n=3).revolve(n=5, phi=90)))
print("revolve 360", vol(fem.Rectangle(a=(0,1),b=(1,2),n=3).revolve(n=9, phi=360)), fem.Rectangle(a=(0,1),b=(1,2),n=3).revolve(n=9, phi=360).points_without_cells)
for f in ["add_midpoints_edges"]:
    for base in [fem.Rectangle(n=3), fem.Cube(n=3), fem.Rectangle(n=3).triangulate(), fem.Cube(n=3).triangulate()]:
        print(base.cell_type, "->", getattr(base,f)().cell_type, vol(getattr(base,f)()))
print("quad9", vol(fem.Rectangle(n=3).add_midpoints_edges().add_midpoints_faces()))
print("hex27", vol(fem.Cube(n=3).add_midpoints_edges().add_midpoints_faces().add_midpoints_volumes()))
mm = fem.Cube(n=3).convert(order=2, calc_midfaces=True, calc_midvolumes=True); print(mm.cell_type, vol(mm))
# merge
a = fem.Rectangle(n=3); b = fem.Rectangle(a=(1,0), b=(2,1), n=3)
c = fem.mesh.concatenate([a,b]); print("concat", vol(c), c.npoints, "merged", c.merge_duplicate_points().npoints, vol(c.merge_duplicate_points()))
c2 = fem.mesh.concatenate([a,b.translate(1e-7,0)]); print("merge decimals=5:", c2.merge_duplicate_points(decimals=5).npoints, "none:", c2.merge_duplicate_points().npoints)
print("stack", vol(fem.mesh.stack([a, a])), "container merge", fem.MeshContainer([a,b], merge=True).points.shape)
print("disconnect", vol(a.disconnect()), a.disconnect().npoints)
print("Lagrange mesh", fem.mesh.RectangleArbitraryOrderQuad(order=3).cells, )
r = fem.RegionLagrange(fem.mesh.RectangleArbitraryOrderQuad(order=3), order=3, dim=2); print(r.dV.sum(), r.dV.min())
r = fem.RegionLagrange(fem.mesh.CubeArbitraryOrderHexahedron(order=3), order=3, dim=3); print(r.dV.sum(), r.dV.min())
