import numpy as np, felupe as fem, itertools
exec(open("e19.py").read().split("for el, lo, hi, D in")[0])
E = fem.element
els = [("Line",E.Line(),-1,1,1),("Quad",E.Quad(),-1,1,1),("ConstantQuad",E.ConstantQuad(),-1,1,0),("QuadraticQuad",E.QuadraticQuad(),-1,1,2),("BiQuadraticQuad",E.BiQuadraticQuad(),-1,1,2),
 ("Hexahedron",E.Hexahedron(),-1,1,1),("ConstantHexahedron",E.ConstantHexahedron(),-1,1,0),("QuadraticHexahedron",E.QuadraticHexahedron(),-1,1,2),("TriQuadraticHexahedron",E.TriQuadraticHexahedron(),-1,1,2),
 ("Triangle",E.Triangle(),0,1,1),("QuadraticTriangle",E.QuadraticTriangle(),0,1,2),("TriangleMINI",E.TriangleMINI(bubble_multiplier=0.7),0,1,1),
 ("Tetra",E.Tetra(),0,1,1),("QuadraticTetra",E.QuadraticTetra(),0,1,2),("TetraMINI",E.TetraMINI(bubble_multiplier=0.7),0,1,1),("Vertex",E.Vertex(),-1,1,0)]
for o in range(1,5):
    for d in (1,2,3):
        for p in (True, False):
            els.append((f"Lagrange{o}d{d}p{int(p)}", E.ArbitraryOrderLagrange(order=o,dim=d,permute=p),-1,1,o))
for name, el, lo, hi, order in els:
    dim = el.points.shape[1]; D = max(order,1)*dim + 2 if "MINI" not in name else 6
    D = min(D, 8)
    g, hs = check(el, lo, hi, D)
    # nodal
    Hn = np.array([el.function(p) for p in el.points]); n = len(Hn)
    nb = n - (1 if "MINI" in name else 0)
    if "Constant" in name or name=="Vertex": kron = 0.0
    else: kron = np.abs(Hn[:nb,:nb]-np.eye(nb)).max()
    # completeness P_k on random points
    rng = np.random.default_rng(0); pts = rng.uniform(lo,hi,(20,dim)); comp = 0
    for e_ in itertools.product(range(order+1), repeat=dim):
        if sum(e_)>order: continue
        mono = lambda X: np.prod(X**np.array(e_), axis=-1)
        for p in pts:
            hh = el.function(p)
            if "Constant" in name or name=="Vertex": 
                comp = max(comp, abs(hh.sum()-1) if sum(e_)==0 else 0); continue
            comp = max(comp, abs((mono(el.points[:nb])*hh[:nb]).sum()-mono(p)))
    flag = "  <<<<<<" if (g>1e-9 or (hs is not None and hs>1e-9) or kron>1e-12 or comp>1e-10) else ""
    print(f"{name:24s} grad={g:.1e} hess={'-' if hs is None else '%.1e'%hs} kron={kron:.1e} complete={comp:.1e}{flag}")
