import numpy as np, felupe as fem, warnings, os, tempfile, meshio
os.environ["FELUPE_VERBOSE"]="false"
warnings.simplefilter("ignore")
np.set_printoptions(precision=6, suppress=True, linewidth=150)
rng = np.random.default_rng(20)
from scipy.sparse.linalg import eigsh
# C18 mixed + rigid motion
def spectrum(mesh, mask, k=6, mixed=False):
    r = fem.RegionHexahedron(mesh)
    if mixed:
        f = fem.FieldsMixed(r, n=3); um = fem.ThreeFieldVariation(fem.NeoHooke(mu=1.0, bulk=10.0))
    else:
        f = fem.FieldContainer([fem.Field(r, dim=3)]); um = fem.NeoHooke(mu=1.0, bulk=10.0)
    s = fem.SolidBody(um, f, density=1.2)
    b = {"fix": fem.Boundary(f[0], mask=mask)}
    job = fem.FreeVibration([s], b).evaluate(k=k)
    return job, s, f
m = fem.Cube(b=(2,1,1), n=(4,3,3)); mask = np.isclose(m.x, 0)
j1, s1, f1 = spectrum(m, mask)
m2 = m.rotate(37, 0).rotate(-21, 2).translate(5.0, 1)
j2, _, _ = spectrum(m2, mask)
print("rigid motion invariance:", np.abs(j1.eigenvalues-j2.eigenvalues).max()/j1.eigenvalues.max())
j3, s3, f3 = spectrum(m, mask, mixed=True)
K = s3.assemble.matrix(f3); M = s3.assemble.mass(); M.resize(*K.shape); d1 = j3.dof1
for i in range(3):
    v = j3.eigenvectors[:,i]; lam = j3.eigenvalues[i]
    print("mixed eig", lam, np.linalg.norm(K[d1][:,d1]@v - lam*M[d1][:,d1]@v)/np.linalg.norm(K[d1][:,d1]@v))
# unconstrained 2D
mq = fem.Rectangle(n=4); rq = fem.RegionQuad(mq); fq = fem.FieldContainer([fem.FieldPlaneStrain(rq, dim=2)])
sq = fem.SolidBody(fem.LinearElastic(E=1,nu=.3), fq, density=1.0)
jq = fem.FreeVibration([sq], {}).evaluate(solver=lambda A, M, sigma, **kw: eigsh(A, M=M, sigma=-1e-2, **kw), k=6); print("2D free eigenvalues", jq.eigenvalues)
# C20 job with early stop
tmp = tempfile.mkdtemp(); os.chdir(tmp)
m = fem.Cube(n=3); r = fem.RegionHexahedron(m); f = fem.FieldContainer([fem.Field(r, dim=3)])
b, lc = fem.dof.uniaxial(f, clamped=True, move=0.0)
s = fem.SolidBody(fem.NeoHooke(mu=1.0, bulk=50.0), f)
step1 = fem.Step([s], ramp={b["move"]: np.array([0.1, 0.2])}, boundaries=b)
step2 = fem.Step([s], ramp={b["move"]: np.array([0.3, -0.95, 0.1])}, boundaries=b)   # second substep should fail
seen = []
job = fem.Job([step1, step2], callback=lambda i,j,res: seen.append((i,j,res.x[0].values.copy())))
try:
    job.evaluate(filename="job.xdmf", verbose=0, maxiter=6)
    print("job finished without raising; frames seen", len(seen))
except Exception as e:
    print("job raised", type(e).__name__, "after", len(seen), "substeps")
with meshio.xdmf.TimeSeriesReader("job.xdmf") as rd:
    rd.read_points_cells(); print("frames in file", rd.num_steps)
    for k in range(rd.num_steps):
        t, pd, cd = rd.read_data(k); print(k, t, np.abs(pd["Displacement"]-seen[k][2]).max())
