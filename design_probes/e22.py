import numpy as np, felupe as fem, warnings
import felupe.constitution.tensortrax as tt
warnings.simplefilter("ignore")
np.set_printoptions(precision=5, suppress=True, linewidth=150)
rng = np.random.default_rng(11)
E, nu = 3.7, 0.31
F = np.eye(3).reshape(3,3,1,1) + 0.01*rng.uniform(-1,1,(3,3,1,4))
a = fem.LinearElastic(E, nu); b = fem.constitution.LinearElasticTensorNotation(E, nu)
lam, mu = fem.constitution.lame_converter(E, nu)
c = fem.MaterialStrain(fem.linear_elastic, λ=lam, μ=mu)
Pa = a.gradient([F,None])[0]; Pb = b.gradient([F,None])[0]; sv = np.zeros((18,1,4)); Pc = c.gradient([F, sv])[0]
print("lin el grad diffs", np.abs(Pa-Pb).max(), np.abs(Pa-Pc).max())
Aa = a.hessian([F,None])[0]; Ab = b.hessian([F,None])[0]; Ac = c.hessian([F,sv])[0]
print("lin el hess diffs", np.abs(Aa-Ab).max(), np.abs(Aa-Ac).max())
d = fem.LinearElasticLargeStrain(E, nu); I = np.eye(3).reshape(3,3,1,1)
print("large strain tangent at I vs linear:", np.abs(d.hessian([I,None])[0] - Aa).max())
# note: A for NeoHookeComp at I: mu(ik) + mu(il) + lam(ij kl): vs linear elastic minor-symmetric  2mu sym + lam -> equal? 
# plane strain / stress
ps = fem.constitution.LinearElasticPlaneStrain(E, nu); pst = fem.LinearElasticPlaneStress(E, nu)
F2 = F[:2,:2]
P3 = Pa  # 3D with F33 etc nonzero; build constrained F
Fc = np.eye(3).reshape(3,3,1,1)*np.ones((1,1,1,4)); Fc[:2,:2] = F2
print("plane strain vs 3D:", np.abs(ps.gradient([F2,None])[0] - a.gradient([Fc,None])[0][:2,:2]).max(), np.abs(ps.hessian([F2,None])[0][...,0,0] - Aa[:2,:2,:2,:2,0,0]).max())
Fs = Fc.copy(); Fs[2,2] = 1 - nu/(1-nu)*((F2[0,0]-1)+(F2[1,1]-1))
P3s = a.gradient([Fs,None])[0]; print("plane stress vs 3D:", np.abs(pst.gradient([F2,None])[0]-P3s[:2,:2]).max(), "s33", np.abs(P3s[2,2]).max())
# plane stress tangent: condensed 3D tangent
C = Aa[...,0,0]; 
Cps = C[:2,:2,:2,:2] - np.einsum("ij,kl->ijkl", C[:2,:2,2,2], C[2,2,:2,:2])/C[2,2,2,2]
print("plane stress hessian vs condensed:", np.abs(pst.hessian([F2,None])[0][...,0,0]-Cps).max())
# orthotropic
Eo=[6.,5.,4.]; nuo=[.3,.25,.2]; Go=[1.5,2.,2.5]
o = fem.LinearElasticOrthotropic(Eo, nuo, Go)
lmb, muo = fem.constitution.lame_converter_orthotropic(Eo, nuo, Go)
svk = tt.Hyperelastic(tt.models.hyperelastic.saint_venant_kirchhoff_orthotropic, mu=muo, lmbda=lmb, r1=[1,0,0], r2=[0,1,0])
Ao = o.hessian([I,None])[0][...,0,0]; As = svk.hessian([I,None])[0][...,0,0]
print("ortho vs SVK-ortho at I:", np.abs(Ao-As).max(), " | iso check: ortho(E,nu,G iso) vs LinearElastic", np.abs(fem.LinearElasticOrthotropic([E]*3,[nu]*3,[mu]*3).hessian([I,None])[0]-Aa).max())
