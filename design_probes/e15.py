import numpy as np, felupe as fem, warnings, os, tempfile
os.environ["FELUPE_VERBOSE"]="false"
np.set_printoptions(precision=6, suppress=True, linewidth=160)
warnings.simplefilter("ignore")
tmp = tempfile.mkdtemp(); os.chdir(tmp)
meshes = {
 "vertex": fem.mesh.Point(a=0.3),
 "line": fem.mesh.Line(n=4),
 "quad": fem.Rectangle(n=3), "quad8": fem.Rectangle(n=3).add_midpoints_edges(), "quad9": fem.Rectangle(n=3).add_midpoints_edges().add_midpoints_faces(),
 "triangle": fem.Rectangle(n=3).triangulate(), "triangle6": fem.Rectangle(n=3).triangulate().add_midpoints_edges(),
 "hexahedron": fem.Cube(n=3), "hexahedron20": fem.Cube(n=3).add_midpoints_edges(), "hexahedron27": fem.Cube(n=3).add_midpoints_edges().add_midpoints_faces().add_midpoints_volumes(),
 "tetra": fem.Cube(n=3).triangulate(), "tetra10": fem.Cube(n=3).triangulate().add_midpoints_edges(),
 "lagrange_quad3": fem.mesh.RectangleArbitraryOrderQuad(order=3), "lagrange_hex3": fem.mesh.CubeArbitraryOrderHexahedron(order=3),
}
for name, m in meshes.items():
    for ext in ["vtk","vtu","xdmf"]:
        fn = f"{name}.{ext}"
        try:
            m.write(fn)
            c = fem.mesh.read(fn, dim=m.dim)
            mm = c.meshes[0]
            ok = (mm.cell_type==m.cell_type, np.array_equal(mm.cells, m.cells), np.abs(mm.points-m.points).max() if mm.points.shape==m.points.shape else "shape"+str(mm.points.shape), len(c.meshes))
            print(f"{name:15s} {ext:5s}", ok)
        except Exception as e:
            print(f"{name:15s} {ext:5s} EXC {type(e).__name__}: {str(e)[:90]}")
# container merge shared points
a = fem.Rectangle(n=3); b = fem.Rectangle(a=(1,0), b=(2,1), n=3).triangulate()
cont = fem.MeshContainer([a,b]); 
import meshio
cont.as_meshio(combined=False).write("cont.vtu")
c2 = fem.mesh.read("cont.vtu", dim=2, merge=True)
print("container read merge:", [ (mm.cell_type, mm.ncells) for mm in c2.meshes], c2.points.shape, all(mm.points is c2.points for mm in c2.meshes))
