import numpy as np, felupe as fem, warnings, time
np.set_printoptions(precision=6, suppress=True, linewidth=150)
warnings.simplefilter("ignore")
rng = np.random.default_rng(0)

def fd_check(item, field, h=1e-6, settle=False, name=""):
    """central FD of assembled vector wrt all unknowns vs assembled matrix."""
    n = sum(field.fieldsizes)
    x0 = np.concatenate([f.values.ravel() for f in field.fields]).copy()
    def setx(x):
        for f, v in zip(field.fields, np.split(x, field.offsets)):
            f.values[:] = v.reshape(f.values.shape)
    def vec(x):
        setx(x)
        r = item.assemble.vector(field)
        if settle: r = item.assemble.vector(field)
        r = r.toarray().ravel()
        if r.size < n: r = np.pad(r, (0, n-r.size))
        return r.copy()
    r0 = vec(x0)
    K = item.assemble.matrix(field).toarray()
    if K.shape[0] < n: K = np.pad(K, ((0,n-K.shape[0]),(0,n-K.shape[0])))
    Kfd = np.zeros((n,n))
    for j in range(n):
        e = np.zeros(n); e[j]=h
        Kfd[:,j] = (vec(x0+e)-vec(x0-e))/(2*h)
    setx(x0)
    scale = np.abs(K).max()
    print(f"{name:40s} n={n:4d} |K|max={scale:.3e} relerr={np.abs(K-Kfd).max()/scale:.2e} asym={np.abs(K-K.T).max()/scale:.2e}")

def perturb(field, amp=0.05):
    for f in field.fields[:1]:
        f.values[:] += amp*rng.standard_normal(f.values.shape)

# 3D hex NeoHooke
m = fem.Cube(n=3); m.points[:] += 0.03*rng.standard_normal(m.points.shape)
r = fem.RegionHexahedron(m); f = fem.FieldContainer([fem.Field(r, dim=3)]); perturb(f)
fd_check(fem.SolidBody(fem.NeoHooke(mu=1.3,bulk=7.0), f), f, name="SolidBody hex NeoHooke")
fd_check(fem.SolidBodyNearlyIncompressible(fem.NeoHooke(mu=1.3), f, bulk=50.0), f, settle=True, name="NearlyIncompr hex (settled)")
fd_check(fem.SolidBodyNearlyIncompressible(fem.NeoHooke(mu=1.3), f, bulk=50.0), f, settle=False, name="NearlyIncompr hex (unsettled)")
# mixed
fm = fem.FieldsMixed(r, n=3); perturb(fm); fm[1].values[:] += 0.1*rng.standard_normal(fm[1].values.shape); fm[2].values[:] += 0.05*rng.standard_normal(fm[2].values.shape)
fd_check(fem.SolidBody(fem.ThreeFieldVariation(fem.NeoHooke(mu=1.3,bulk=7.0)), fm), fm, name="SolidBody hex ThreeField")
fd_check(fem.SolidBody(fem.NearlyIncompressible(fem.NeoHooke(mu=1.3),bulk=7.0), fm), fm, name="SolidBody hex NearlyIncompressible umat")
# plane strain / axi
m2 = fem.Rectangle(a=(0,1),b=(1,2),n=3); m2.points[:] += 0.03*rng.standard_normal(m2.points.shape)
r2 = fem.RegionQuad(m2)
fp = fem.FieldContainer([fem.FieldPlaneStrain(r2, dim=2)]); perturb(fp)
fd_check(fem.SolidBody(fem.NeoHooke(mu=1.3,bulk=7.0), fp), fp, name="SolidBody planestrain")
fa = fem.FieldContainer([fem.FieldAxisymmetric(r2, dim=2)]); perturb(fa)
fd_check(fem.SolidBody(fem.NeoHooke(mu=1.3,bulk=7.0), fa), fa, name="SolidBody axi")
fam = fem.FieldsMixed(r2, n=3, axisymmetric=True); perturb(fam); fam[1].values[:] += 0.1; fam[2].values[:] += 0.05
fd_check(fem.SolidBody(fem.ThreeFieldVariation(fem.NeoHooke(mu=1.3,bulk=7.0)), fam), fam, name="SolidBody axi ThreeField")
fd_check(fem.SolidBodyNearlyIncompressible(fem.NeoHooke(mu=1.3), fa, bulk=50.0), fa, settle=True, name="NearlyIncompr axi (settled)")
# pressure 3D
rb = fem.RegionHexahedronBoundary(m)
fb = fem.FieldContainer([fem.Field(rb, dim=3)]); fb.link(f)
fd_check(fem.SolidBodyPressure(fb, pressure=0.7), fb, name="Pressure hex")
fd_check(fem.SolidBodyCauchyStress(fb, cauchy_stress=rng.standard_normal((3,3))), fb, name="CauchyStress hex")
rb2 = fem.RegionQuadBoundary(m2, ensure_3d=True)
fba = fem.FieldContainer([fem.FieldAxisymmetric(rb2, dim=2)]); fba.link(fa)
fd_check(fem.SolidBodyPressure(fba, pressure=0.7), fba, name="Pressure axi")
fbp = fem.FieldContainer([fem.FieldPlaneStrain(rb2, dim=2)]); fbp.link(fp)
fd_check(fem.SolidBodyPressure(fbp, pressure=0.7), fbp, name="Pressure planestrain")
# MPC
fd_check(fem.MultiPointConstraint(f, points=[1,2,5], centerpoint=0, skip=(0,1,0), multiplier=10.), f, name="MPC")
fd_check(fem.MultiPointContact(f, points=[1,2,5,20,26], centerpoint=0, skip=(0,1,0), multiplier=10.), f, name="Contact")
