import numpy as np, felupe as fem, warnings, time
import felupe.constitution.tensortrax as tt
warnings.simplefilter("ignore")
np.set_printoptions(precision=5, suppress=True, linewidth=150)
rng = np.random.default_rng(13)
def randF(n, amp=0.2): return (np.eye(3)[:,:,None] + amp*rng.uniform(-1,1,(3,3,n))).reshape(3,3,1,n)
def fdA(g, F, h=1e-6):
    A = None
    for k in range(3):
        for l in range(3):
            d = np.zeros_like(F); d[k,l]=h
            col = (np.array(g(F+d)) - np.array(g(F-d)))/(2*h)
            if A is None: A = np.zeros((*col.shape[:-2],3,3,*col.shape[-2:]))
            A[...,k,l,:,:] = col
    return A
n=3
F = randF(n); p = 0.3*rng.standard_normal((1,1,n)); J = 1+0.1*rng.standard_normal((1,1,n))
for name, um in [("ThreeField(NH)", fem.ThreeFieldVariation(fem.NeoHooke(mu=1.2,bulk=4.0))), ("NearlyInc(NH)", fem.NearlyIncompressible(fem.NeoHooke(mu=1.2), bulk=4.0)),
                 ("ThreeField(tt yeoh)", fem.ThreeFieldVariation(tt.Hyperelastic(tt.models.hyperelastic.yeoh, C10=.5,C20=.1,C30=.05)))]:
    sv = np.zeros((0,1,n))
    G = lambda F_, p_, J_: [np.array(x, dtype=float).copy() for x in um.gradient([F_.copy(), p_.copy(), J_.copy(), sv])[:3]]
    H = um.hessian([F.copy(),p.copy(),J.copy(),sv])
    Auu, Aup, AuJ, App, ApJ, AJJ = H
    h=1e-6
    fd = {}
    fd["uu"] = fdA(lambda F_: G(F_,p,J)[0], F); fd["pu"] = fdA(lambda F_: G(F_,p,J)[1], F); fd["Ju"] = fdA(lambda F_: G(F_,p,J)[2], F)
    for nm, idx in (("p",1),("J",2)):
        lo = [p,J]; 
        def gg(s, which=idx):
            pp, JJ = (p+s, J) if which==1 else (p, J+s)
            return G(F,pp,JJ)
        gp = gg(h); gm = gg(-h)
        fd["u"+nm] = (gp[0]-gm[0])/(2*h); fd["p"+nm] = (gp[1]-gm[1])/(2*h); fd["J"+nm] = (gp[2]-gm[2])/(2*h)
    z = lambda a: 0 if a is None else a
    sc = np.abs(Auu).max()
    errs = {"uu": np.abs(Auu-fd["uu"]).max(), "up": np.abs(z(Aup)-fd["up"]).max(), "uJ": np.abs(z(AuJ)-fd["uJ"]).max(), "pp": np.abs(z(App)-fd["pp"]).max(), "pJ": np.abs(z(ApJ)-fd["pJ"]).max(), "JJ": np.abs(z(AJJ)-fd["JJ"]).max(),
            "pu(sym)": np.abs(z(Aup)-fd["pu"].reshape(np.shape(fd["up"]))).max() if np.size(fd["pu"])==np.size(fd["up"]) else -1, "Ju(sym)": np.abs(z(AuJ)-fd["Ju"].reshape(np.shape(fd["uJ"]))).max(), "Jp(sym)": np.abs(z(ApJ)-fd["Jp"]).max()}
    print(name, {k: "%.1e"%(v/sc) for k,v in errs.items()})
# Ogden-Roxburgh hand-coded: history
um = fem.OgdenRoxburgh(fem.NeoHooke(mu=1.0,bulk=5.0), r=3.0, m=1.0, beta=0.2)
F1 = randF(n, 0.35); sv = np.zeros((1,1,n))
P1, sv1 = um.gradient([F1, sv])
F2 = np.eye(3).reshape(3,3,1,1) + 0.5*(F1-np.eye(3).reshape(3,3,1,1))   # unloading
A = um.hessian([F2, sv1])[0]; Afd = fdA(lambda F_: um.gradient([F_, sv1])[0], F2)
print("OR unloading tangent", np.abs(A-Afd).max()/np.abs(A).max(), "primary:", np.abs(um.hessian([F1*1.0, sv])[0]-fdA(lambda F_: um.gradient([F_, sv])[0], F1)).max())
# plasticity
pl = fem.LinearElasticPlasticIsotropicHardening(E=100., nu=.3, sy=1., K=10.)
sv = np.zeros((28,1,n)); Fa = np.eye(3).reshape(3,3,1,1) + 0.03*rng.uniform(-1,1,(3,3,1,n))
Pa, sva = pl.gradient([Fa, sv]); print("alpha after step1", sva[0].ravel())
Fb = Fa + 0.01*rng.uniform(-1,1,(3,3,1,n))
A = pl.hessian([Fb, sva])[0]; Afd = fdA(lambda F_: pl.gradient([F_, sva])[0], Fb)
print("plastic tangent err", np.abs(A-Afd).max()/np.abs(A).max(), "alpha2", pl.gradient([Fb, sva])[1][0].ravel())
# viscoelastic (tensortrax)
ve = tt.Hyperelastic(tt.models.hyperelastic.finite_strain_viscoelastic, mu=1.0, eta=2.0, dtime=0.5, nstatevars=6)
svv = np.zeros((6,1,n)); svv[[0,3,5]] = 1.0
Pv, sv1 = ve.gradient([F1, svv]); A = ve.hessian([F2, sv1])[0]; Afd = fdA(lambda F_: ve.gradient([F_, sv1])[0], F2)
print("visco tangent err", np.abs(A-Afd).max()/np.abs(A).max())
# morph
p=[0.011, 0.408, 0.421, 6.85, 0.0056, 5.54, 5.84, 0.117]
mo = tt.Material(tt.models.lagrange.morph, p=p, nstatevars=13)
svm = np.zeros((13,1,n)); svm[[1,4,6]] = 1.0   # Cn = I
Pm, sm1 = mo.gradient([F1, svm]); A = mo.hessian([F2, sm1])[0]; Afd = fdA(lambda F_: mo.gradient([F_, sm1])[0], F2)
print("morph tangent err", np.abs(A-Afd).max()/np.abs(A).max())
