"""Mesh specifications (JSON-serialisable) -> felupe meshes, plus independent geometry helpers.

A spec is a dict:
  kind   : target cell family (see KINDS)
  n      : points per axis of the base grid (2..)
  a, b   : bounds of the base box
  ratio  : per-axis grading exponent list (1.0 = uniform) -> non-uniform Grid
  jitter : fraction of the shortest base edge by which interior vertices are moved (0 = none)
  jseed  : seed of the jitter directions
  affine : None or {"angles": [..], "stretch": [..], "shear": s, "t": [..]}   X -> R U X + t
  curve  : fraction of the shortest edge by which non-vertex (mid) points are moved (order >= 2 kinds)
  cseed  : seed
The boundary of the box is kept fixed by jitter/curve (only interior points move), so the covered volume is the
closed form |det(R U)| * prod(b - a) for every spec.
"""
import numpy as np
from hypothesis import strategies as st

from vf.core import import_felupe

# kind -> (dim, base, steps, region template name, element order, simplex?)
KINDS = {
    "line": (1, "Line", [], "RegionLine", 1, False),
    "quad": (2, "Rectangle", [], "RegionQuad", 1, False),
    "quad8": (2, "Rectangle", ["edges"], "RegionQuadraticQuad", 2, False),
    "quad9": (2, "Rectangle", ["edges", "faces"], "RegionBiQuadraticQuad", 2, False),
    "hexahedron": (3, "Cube", [], "RegionHexahedron", 1, False),
    "hexahedron20": (3, "Cube", ["edges"], "RegionQuadraticHexahedron", 2, False),
    "hexahedron27": (3, "Cube", ["edges", "faces", "volumes"], "RegionTriQuadraticHexahedron", 2, False),
    "triangle": (2, "Rectangle", ["tri"], "RegionTriangle", 1, True),
    "triangle6": (2, "Rectangle", ["tri", "edges"], "RegionQuadraticTriangle", 2, True),
    "triangle-mini": (2, "Rectangle", ["tri", "faces"], "RegionTriangleMINI", 1, True),
    "tetra": (3, "Cube", ["tri"], "RegionTetra", 1, True),
    "tetra10": (3, "Cube", ["tri", "edges"], "RegionQuadraticTetra", 2, True),
    "tetra-mini": (3, "Cube", ["tri", "volumes"], "RegionTetraMINI", 1, True),
    "lagrange-quad-2": (2, "LagrangeQuad", [], "RegionLagrange", 2, False),
    "lagrange-quad-3": (2, "LagrangeQuad", [], "RegionLagrange", 3, False),
    "lagrange-quad-4": (2, "LagrangeQuad", [], "RegionLagrange", 4, False),
    "lagrange-hex-2": (3, "LagrangeHex", [], "RegionLagrange", 2, False),
    "lagrange-hex-3": (3, "LagrangeHex", [], "RegionLagrange", 3, False),
}


def kind_dim(kind):
    return KINDS[kind][0]


def st_affine(dim, big_translation=True):
    nang = {1: 0, 2: 1, 3: 3}[dim]
    return st.one_of(
        st.none(),
        st.fixed_dictionaries(
            {
                "angles": st.lists(st.floats(-180, 180).map(lambda v: round(v, 2)), min_size=nang, max_size=nang),
                "stretch": st.lists(st.floats(0.5, 2.0).map(lambda v: round(v, 3)), min_size=dim, max_size=dim),
                "shear": st.floats(-0.4, 0.4).map(lambda v: round(v, 3)),
                "t": st.lists(
                    st.one_of(st.just(0.0), st.floats(-3, 3), st.floats(-100, 100) if big_translation else st.floats(-3, 3)).map(lambda v: round(v, 2)),
                    min_size=dim, max_size=dim,
                ),
            }
        ),
    )


def st_mesh(kind, tier="quick", max_n=None, distort=True, curved=True, affine=True, min_n=2):
    dim, base, steps, tmpl, order, simplex = KINDS[kind]
    if max_n is None:
        max_n = {1: 6, 2: 4, 3: 3}[dim] + (1 if tier == "thorough" else 0)
    if base.startswith("Lagrange"):
        nstrat = st.just([2] * dim)
    else:
        nstrat = st.lists(st.integers(min_n, max_n), min_size=dim, max_size=dim)
    d = {
        "kind": st.just(kind),
        "n": nstrat,
        "a": st.lists(st.floats(-1, 1).map(lambda v: round(v, 2)), min_size=dim, max_size=dim),
        "size": st.lists(st.floats(0.5, 2.5).map(lambda v: round(v, 2)), min_size=dim, max_size=dim),
        "ratio": st.one_of(st.none(), st.lists(st.sampled_from([1.0, 0.7, 1.5]), min_size=dim, max_size=dim)),
        "jitter": st.sampled_from([0.0, 0.05, 0.1, 0.15]) if distort else st.just(0.0),
        "jseed": st.integers(0, 2**16),
        "affine": st_affine(dim) if affine else st.none(),
        "curve": (st.sampled_from([0.0, 0.0, 0.03, 0.07]) if (curved and order >= 2) else st.just(0.0)),
        "cseed": st.integers(0, 2**16),
    }
    return st.fixed_dictionaries(d)


def rotation(dim, angles):
    if dim == 1:
        return np.eye(1)
    if dim == 2:
        a = np.deg2rad(angles[0])
        return np.array([[np.cos(a), -np.sin(a)], [np.sin(a), np.cos(a)]])
    R = np.eye(3)
    for k, ang in enumerate(angles):
        a = np.deg2rad(ang)
        c, s = np.cos(a), np.sin(a)
        i, j = [(1, 2), (2, 0), (0, 1)][k]
        Q = np.eye(3)
        Q[i, i] = c
        Q[j, j] = c
        Q[i, j] = -s
        Q[j, i] = s
        R = Q @ R
    return R


def affine_matrix(dim, aff):
    if aff is None:
        return np.eye(dim), np.zeros(dim)
    U = np.diag(aff["stretch"])
    if dim > 1:
        U = U.copy()
        U[0, 1] = aff["shear"]
        U[1, 0] = 0.0
    R = rotation(dim, aff["angles"])
    return R @ U, np.array(aff["t"], float)


def base_axes(spec):
    dim = kind_dim(spec["kind"])
    axes = []
    for k in range(dim):
        n = spec["n"][k]
        s = np.linspace(0, 1, n)
        if spec.get("ratio"):
            s = s ** spec["ratio"][k]
        axes.append(spec["a"][k] + spec["size"][k] * s)
    return axes


def build(spec):
    """returns (mesh, info); info: dict(vertex mask, A, t, volume, h, boundary mask, order)"""
    fem = import_felupe()
    kind = spec["kind"]
    dim, base, steps, tmpl, order, simplex = KINDS[kind]
    axes = base_axes(spec)
    lo = np.array([ax[0] for ax in axes])
    hi = np.array([ax[-1] for ax in axes])
    if base == "Line":
        mesh = fem.mesh.Line(a=lo[0], b=hi[0], n=spec["n"][0])
        mesh.update(points=axes[0].reshape(-1, 1))
    elif base in ("Rectangle", "Cube"):
        mesh = fem.Grid(*axes)
    elif base == "LagrangeQuad":
        mesh = fem.mesh.RectangleArbitraryOrderQuad(a=tuple(lo), b=tuple(hi), order=order)
    elif base == "LagrangeHex":
        mesh = fem.mesh.CubeArbitraryOrderHexahedron(a=tuple(lo), b=tuple(hi), order=order)
    h = min(float(np.diff(ax).min()) for ax in axes)
    if base.startswith("Lagrange"):
        h = h / order
    if "tri" in steps:
        mesh = mesh.triangulate()
    pts = np.array(mesh.points, float)
    nvert = len(pts)

    def onb(p):
        return np.any((np.abs(p - lo) < 1e-12) | (np.abs(p - hi) < 1e-12), axis=1)

    if spec["jitter"] > 0:
        rng = np.random.default_rng(spec["jseed"])
        amp = spec["jitter"] * h / np.sqrt(dim)
        d = rng.uniform(-amp, amp, pts.shape)
        d[onb(pts)] = 0
        pts = pts + d
        mesh = mesh.copy()
        mesh.update(points=pts)
    for s in steps:
        if s == "edges":
            mesh = mesh.add_midpoints_edges()
        elif s == "faces":
            mesh = mesh.add_midpoints_faces()
        elif s == "volumes":
            mesh = mesh.add_midpoints_volumes()
    pts = np.array(mesh.points, float)
    vertex = np.zeros(len(pts), bool)
    if base.startswith("Lagrange"):
        vertex[mesh.cells[:, : 2**dim].ravel()] = True
    else:
        vertex[:nvert] = True
    bubble = np.zeros(len(pts), bool)
    if kind.endswith("mini"):
        bubble[nvert:] = True
    if spec["curve"] > 0 and order >= 2:
        rng = np.random.default_rng(spec["cseed"])
        amp = spec["curve"] * h / np.sqrt(dim)
        d = rng.uniform(-amp, amp, pts.shape)
        d[vertex | onb(pts)] = 0
        pts = pts + d
    A, t = affine_matrix(dim, spec["affine"])
    boundary = onb(pts)
    pts = pts @ A.T + t
    mesh = mesh.copy()
    mesh.update(points=pts)
    # the connectivity in column-major memory order (e.g. a transposed array read from a file): the layout is irrelevant to every result
    fortran_cells = (spec["jseed"] * 7 + spec["cseed"]) % 4 == 3
    if fortran_cells:
        mesh.update(cells=np.asfortranarray(mesh.cells))
    info = dict(fortran_cells=fortran_cells, A=A, t=t, vertex=vertex, bubble=bubble, boundary=boundary, h=h, dim=dim, order=order, simplex=simplex,
                volume=abs(np.linalg.det(A)) * float(np.prod(hi - lo)), template=tmpl, lo=lo, hi=hi,
                affine_cells=(spec["jitter"] == 0 or simplex) and spec["curve"] == 0, nvert=nvert)
    return mesh, info


def region(mesh, info, **kw):
    fem = import_felupe()
    tmpl = info["template"]
    if tmpl == "RegionLine":
        kw = dict(kw)
        return fem.Region(mesh, fem.Line(), kw.pop("quadrature", fem.GaussLegendre(order=1, dim=1)), **kw)
    if tmpl == "RegionLagrange":
        return fem.RegionLagrange(mesh, order=info["order"], dim=info["dim"], **kw)
    return getattr(fem, tmpl)(mesh, **kw)


# ---- independent geometry --------------------------------------------------------------------------------------
def simplex_volume(P):
    """signed volume of a straight simplex given its dim+1 vertices (rows)."""
    P = np.asarray(P, float)
    d = P.shape[1]
    M = P[1:] - P[0]
    fact = {1: 1, 2: 2, 3: 6}[d]
    return float(np.linalg.det(M)) / fact


def shoelace(P):
    P = np.asarray(P, float)
    x, y = P[:, 0], P[:, 1]
    return 0.5 * float(np.sum(x * np.roll(y, -1) - np.roll(x, -1) * y))


HEX_FACES = [(0, 3, 2, 1), (4, 5, 6, 7), (0, 1, 5, 4), (1, 2, 6, 5), (2, 3, 7, 6), (3, 0, 4, 7)]  # outward, vtk ordering


def hex_volume(P):
    """exact signed volume of a trilinear hexahedron (vtk vertex ordering), by the divergence theorem with each
    bilinear face integrated exactly: V = 1/3 sum_faces int x . n dA; for a bilinear patch x(u,v) the integrand
    x . (x_u x x_v) is integrated exactly by a 2x2 Gauss rule (degree <= (2,2))... we use 3x3 for margin."""
    P = np.asarray(P, float)
    g, w = np.polynomial.legendre.leggauss(3)
    V = 0.0
    for f in HEX_FACES:
        a, b, c, d = P[list(f)]
        for u, wu in zip(g, w):
            for v, wv in zip(g, w):
                N = 0.25 * np.array([(1 - u) * (1 - v), (1 + u) * (1 - v), (1 + u) * (1 + v), (1 - u) * (1 + v)])
                x = N @ np.array([a, b, c, d])
                xu = 0.25 * (-(1 - v) * a + (1 - v) * b + (1 + v) * c - (1 + v) * d)
                xv = 0.25 * (-(1 - u) * a - (1 + u) * b + (1 + u) * c + (1 - u) * d)
                V += wu * wv * float(x @ np.cross(xu, xv)) / 3.0
    return V


def cell_volumes_straight(points, cells, kind):
    """signed volumes of straight-sided (vertex-defined) cells."""
    dim = points.shape[1]
    out = []
    for c in cells:
        if kind.startswith(("tri", "tet")):
            out.append(simplex_volume(points[c[: dim + 1]]))
        elif dim == 1:
            out.append(float(points[c[1], 0] - points[c[0], 0]))
        elif dim == 2:
            out.append(shoelace(points[c[:4]]))
        else:
            out.append(hex_volume(points[c[:8]]))
    return np.array(out)
