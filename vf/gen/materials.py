"""Material registry: one entry per built-in constitutive model with an admissible-parameter strategy, flags and a
virgin-state constructor.  Parameters are JSON-serialisable dicts; `build(name, params)` returns the felupe object.
"""
import numpy as np
from hypothesis import strategies as st

from vf.core import import_felupe


def fl(lo, hi, nd=3):
    return st.floats(lo, hi, allow_nan=False, allow_infinity=False).map(lambda v: round(v, nd))


def lst(n, lo, hi):
    return st.lists(fl(lo, hi), min_size=n, max_size=n)


MORPH_P = [0.011, 0.408, 0.421, 6.85, 0.0056, 5.54, 5.84, 0.117]

# name -> dict(backend, kind, params strategy, flags)
#   flags: hyper (derives from a potential: major symmetry), iso (isotropic in invariants/stretches), energy (energy
#          exposed), spectral (uses eigen-decomposition with backend regularisation), micro (micro-sphere), nstate,
#          finite (finite-strain model), lam (stretch range), mu0 / K0: closed-form initial moduli from the docstring
REG = {}


def reg(name, backend, params, **flags):
    d = dict(backend=backend, params=params, hyper=True, iso=True, energy=False, spectral=False, micro=False, nstate=0,
             finite=True, lam=(0.7, 1.5), reg=0.0, tol_fd=1e-6)
    d.update(flags)
    REG[name] = d


# the representative-directions MORPH models document an optional stabilisation parameter (Greek epsilon); None = default
MORPH_RD_PARAMS = st.fixed_dictionaries({"scale": fl(0.8, 1.2), "eps": st.sampled_from([None, None, 1e-4, 1e-3])})


def _eps_kw(p, default=None):
    e_ = p.get("eps", None)
    e_ = default if e_ is None else e_
    return {} if e_ is None else {"\u03b5": e_}


# ---- hand-coded -----------------------------------------------------------------------------------------------
reg("NeoHooke", "hand", st.fixed_dictionaries({"mu": fl(0.2, 5), "bulk": fl(0.5, 50)}), energy=True,
    mu0=lambda p: p["mu"], K0=lambda p: p["bulk"])
reg("NeoHooke(bulk=None)", "hand", st.fixed_dictionaries({"mu": fl(0.2, 5)}), energy=True, mu0=lambda p: p["mu"], K0=lambda p: 0.0)
reg("NeoHooke(mu=None)", "hand", st.fixed_dictionaries({"bulk": fl(0.5, 50)}), energy=True, mu0=lambda p: 0.0, K0=lambda p: p["bulk"])
reg("NeoHookeCompressible", "hand", st.fixed_dictionaries({"mu": fl(0.2, 5), "lmbda": fl(0.2, 20)}), energy=True,
    mu0=lambda p: p["mu"], K0=lambda p: p["lmbda"] + 2 / 3 * p["mu"])
reg("NeoHookeCompressible(lmbda=None)", "hand", st.fixed_dictionaries({"mu": fl(0.2, 5)}), energy=True,
    mu0=lambda p: p["mu"], K0=lambda p: 2 / 3 * p["mu"])
reg("Volumetric", "hand", st.fixed_dictionaries({"bulk": fl(0.5, 50)}), energy=True, mu0=lambda p: 0.0, K0=lambda p: p["bulk"])
reg("LinearElasticLargeStrain", "hand", st.fixed_dictionaries({"E": fl(0.5, 10), "nu": fl(-0.3, 0.45)}), energy=True,
    mu0=lambda p: p["E"] / (2 * (1 + p["nu"])), K0=lambda p: p["E"] / (3 * (1 - 2 * p["nu"])))
reg("OgdenRoxburgh(NeoHooke)", "hand",
    st.fixed_dictionaries({"mu": fl(0.5, 3), "bulk": fl(2, 20), "r": fl(1.5, 5), "m": fl(0.3, 2), "beta": fl(0.0, 0.5)}), nstate=1)
# ---- tensortrax hyperelastic --------------------------------------------------------------------------------------
TT = {
    "neo_hooke": (st.fixed_dictionaries({"mu": fl(0.2, 5)}), dict(mu0=lambda p: p["mu"], K0=lambda p: 0.0)),
    "mooney_rivlin": (st.fixed_dictionaries({"C10": fl(0.1, 2), "C01": fl(0.0, 1)}), dict(mu0=lambda p: 2 * (p["C10"] + p["C01"]), K0=lambda p: 0.0)),
    "yeoh": (st.fixed_dictionaries({"C10": fl(0.2, 2), "C20": fl(-0.05, 0.2), "C30": fl(0.0, 0.1)}), dict(mu0=lambda p: 2 * p["C10"], K0=lambda p: 0.0)),
    "third_order_deformation": (
        st.fixed_dictionaries({"C10": fl(0.2, 2), "C01": fl(0.0, 0.5), "C11": fl(0.0, 0.1), "C20": fl(-0.02, 0.1), "C30": fl(0.0, 0.05)}),
        dict(mu0=lambda p: 2 * (p["C10"] + p["C01"]), K0=lambda p: 0.0)),
    "ogden": (st.fixed_dictionaries({"mu": st.tuples(fl(0.3, 2), fl(0.05, 0.5)).map(list), "alpha": st.tuples(fl(1.2, 3), fl(-3, -1.2)).map(list)}),
              dict(spectral=True, mu0=lambda p: sum(p["mu"]), K0=lambda p: 0.0)),
    "arruda_boyce": (st.fixed_dictionaries({"C1": fl(0.3, 3), "limit": fl(3, 10)}),
                     dict(mu0=lambda p: p["C1"] * (1 + 3 / 5 / p["limit"] ** 2 + 99 / 175 / p["limit"] ** 4 + 513 / 875 / p["limit"] ** 6 + 42039 / 67375 / p["limit"] ** 8),
                          K0=lambda p: 0.0)),
    "extended_tube": (st.fixed_dictionaries({"Gc": fl(0.1, 1), "delta": fl(0.0, 0.15), "Ge": fl(0.1, 1), "beta": fl(0.1, 0.5)}), dict(spectral=True)),
    "van_der_waals": (st.fixed_dictionaries({"mu": fl(0.5, 3), "limit": fl(4, 10), "a": fl(0.0, 0.5), "beta": fl(0.0, 0.4)}), dict(reg=1e-4)),
    "alexander": (st.fixed_dictionaries({"C1": fl(0.3, 2), "C2": fl(0.1, 1), "C3": fl(0.0, 0.5), "gamma": fl(0.5, 3), "k": fl(0.0, 0.2)}),
                  dict(mu0=lambda p: 2 * (p["C1"] + p["C2"] / p["gamma"] + p["C3"]), K0=lambda p: 0.0)),
    "anssari_benam_bucchi": (st.fixed_dictionaries({"mu": fl(0.3, 3), "N": fl(4, 50)}),
                             dict(mu0=lambda p: p["mu"] * (1 - 3 * p["N"]) / (3 - 3 * p["N"]), K0=lambda p: 0.0)),
    "lopez_pamies": (st.fixed_dictionaries({"mu": st.tuples(fl(0.3, 2), fl(0.05, 0.5)).map(list), "alpha": st.tuples(fl(0.6, 2), fl(-2, -0.5)).map(list)}),
                     dict(mu0=lambda p: sum(p["mu"]), K0=lambda p: 0.0)),
    "miehe_goektepe_lulei": (st.fixed_dictionaries({"mu": fl(0.1, 1), "N": fl(8, 50), "U": fl(0.0, 10), "p": fl(1.1, 2.5), "q": fl(0.1, 2)}),
                             dict(iso=False, micro=True)),
    "blatz_ko": (st.fixed_dictionaries({"mu": fl(0.3, 3)}), dict(mu0=lambda p: p["mu"], K0=lambda p: 5 / 3 * p["mu"])),
    "storakers": (st.fixed_dictionaries({"mu": st.tuples(fl(0.3, 2), fl(0.05, 0.5)).map(list), "alpha": st.tuples(fl(1.2, 3), fl(-3, -1.2)).map(list),
                                         "beta": st.tuples(fl(0.1, 1), fl(0.1, 1)).map(list)}),
                  dict(spectral=True, mu0=lambda p: sum(p["mu"]),
                       K0=lambda p: sum(2 * m * (1 / 3 + b) for m, b in zip(p["mu"], p["beta"])))),
    "saint_venant_kirchhoff": (st.fixed_dictionaries({"mu": fl(0.3, 3), "lmbda": fl(0.0, 5)}),
                               dict(lam=(0.85, 1.3), mu0=lambda p: p["mu"], K0=lambda p: p["lmbda"] + 2 / 3 * p["mu"])),
}
for _n, (_p, _f) in TT.items():
    reg("tt:" + _n, "tensortrax", _p, energy=(_n != "alexander"), fun=_n, **_f)  # alexander: only derivatives are implemented (docstring)
reg("tt:saint_venant_kirchhoff(k=0)", "tensortrax", st.fixed_dictionaries({"mu": fl(0.3, 3), "lmbda": fl(0.0, 5), "k": st.just(0)}),
    energy=True, fun="saint_venant_kirchhoff", spectral=True, mu0=lambda p: p["mu"], K0=lambda p: p["lmbda"] + 2 / 3 * p["mu"])
for _k in (1, -1):
    reg(f"tt:saint_venant_kirchhoff(k={_k})", "tensortrax", st.fixed_dictionaries({"mu": fl(0.3, 3), "lmbda": fl(0.0, 5), "k": st.just(_k)}),
        energy=True, fun="saint_venant_kirchhoff", spectral=True, mu0=lambda p: p["mu"], K0=lambda p: p["lmbda"] + 2 / 3 * p["mu"])
reg("tt:saint_venant_kirchhoff_orthotropic", "tensortrax",
    st.fixed_dictionaries({"mu": lst(3, 0.3, 2), "lmbda": st.lists(fl(0.1, 1.5), min_size=6, max_size=6), "rseed": st.integers(0, 10**6)}),
    energy=True, fun="saint_venant_kirchhoff_orthotropic", iso=False, lam=(0.85, 1.3))
# orthotropic law with another Seth-Hill exponent (spectral branch) and an explicit third axis
for _k in (0, 1):
    reg(f"tt:saint_venant_kirchhoff_orthotropic(k={_k},r3)", "tensortrax",
        st.fixed_dictionaries({"mu": lst(3, 0.3, 2), "lmbda": st.lists(fl(0.1, 1.5), min_size=6, max_size=6), "rseed": st.integers(0, 10**6), "k": st.just(_k)}),
        energy=True, fun="saint_venant_kirchhoff_orthotropic", iso=False, spectral=True, lam=(0.85, 1.3))
reg("tt:ogden_roxburgh(neo_hooke)", "tensortrax", st.fixed_dictionaries({"mu": fl(0.5, 3), "r": fl(1.5, 5), "m": fl(0.3, 2), "beta": fl(0.0, 0.5)}),
    fun="ogden_roxburgh", nstate=1)
reg("tt:finite_strain_viscoelastic", "tensortrax", st.fixed_dictionaries({"mu": fl(0.3, 3), "eta": fl(0.2, 5), "dtime": fl(0.1, 2)}),
    fun="finite_strain_viscoelastic", nstate=6, hyper=False)
reg("tt:morph", "tensortrax", st.fixed_dictionaries({"scale": fl(0.8, 1.2)}), fun="morph", nstate=13, hyper=False, tol_fd=2e-5)
# user-assembled micro-sphere energies from the public building blocks (frameworks x chain functions)
for _fw in ("affine_stretch", "affine_tube", "nonaffine_stretch", "nonaffine_tube"):
    for _ch in ("linear", "langevin"):
        reg(f"tt:microsphere({_fw}+{_ch})", "tensortrax", st.fixed_dictionaries({"mu": fl(0.3, 3), "N": fl(6, 30), "pq": fl(1.2, 3)}),
            energy=True, fun=f"microsphere:{_fw}:{_ch}", micro=True, iso=False, lam=(0.8, 1.35))
# MORPH without the exponential term (p[6] = 0): the symmetric-only expm() of tensortrax (finding F10) then has nothing to act
# on in the stress, so that e.g. the symmetry of the Kirchhoff stress can be decided on non-coaxial histories as well
reg("tt:morph(p6=0)", "tensortrax", st.fixed_dictionaries({"scale": fl(0.8, 1.2)}), fun="morph_p6", nstate=13, hyper=False, tol_fd=2e-5)
reg("tt:morph_representative_directions", "tensortrax", MORPH_RD_PARAMS, fun="morph_representative_directions",
    nstate=84, hyper=False, iso=False, micro=True, tol_fd=2e-5)
# the strain-energy variant of the representative-directions MORPH model (hyperelastic namespace, handed to Hyperelastic)
reg("tt:hyperelastic.morph_representative_directions", "tensortrax", MORPH_RD_PARAMS, fun="morph_rd_energy",
    nstate=84, hyper=False, iso=False, micro=True, tol_fd=2e-5)
# a user-defined Cauchy-stress law WITH a state variable behind the updated-Lagrange decorator (the old state scales the modulus)
reg("tt:updated_lagrange(neo_hooke with state)", "tensortrax", st.fixed_dictionaries({"mu": fl(0.2, 5)}), fun="updated_lagrange_state", nstate=1, hyper=False)
reg("tt:total_lagrange(neo_hooke)", "tensortrax", st.fixed_dictionaries({"mu": fl(0.2, 5)}), fun="total_lagrange")
reg("tt:updated_lagrange(neo_hooke)", "tensortrax", st.fixed_dictionaries({"mu": fl(0.2, 5)}), fun="updated_lagrange")
# ---- jax ----------------------------------------------------------------------------------------------------------
for _n in ["neo_hooke", "mooney_rivlin", "yeoh", "third_order_deformation", "extended_tube", "van_der_waals", "miehe_goektepe_lulei",
           "blatz_ko", "storakers"]:
    _p, _f = TT[_n]
    _f = dict(_f)
    if _n in ("extended_tube", "storakers"):
        _f["reg"] = 1e-4  # jax eigenvalue regularisation diag(0, +-1e-4)
    reg("jax:" + _n, "jax", _p, energy=True, fun=_n, **_f)
reg("jax:morph", "jax", st.fixed_dictionaries({"scale": fl(0.8, 1.2)}), fun="morph", nstate=13, hyper=False, tol_fd=2e-5, reg=1e-4)
reg("jax:morph_representative_directions", "jax", MORPH_RD_PARAMS, fun="morph_representative_directions",
    nstate=84, hyper=False, iso=False, micro=True, tol_fd=2e-5)
# a user-defined energy with state variables handed to jax.Hyperelastic (documented nstatevars argument): the OLD state enters
# the energy as a parameter, the new state is a function of C
reg("jax:hyperelastic(user energy with state)", "jax", st.fixed_dictionaries({"mu": fl(0.2, 5)}), fun="user_state", nstate=2, energy=True, tol_fd=2e-6)
# a user-defined ANISOTROPIC energy (one fibre family along e1: invariant C_11) handed to jax.Hyperelastic: "a function of the right
# Cauchy-Green deformation tensor" - an energy that tells F^T F from F F^T; its value is known to the oracle in closed form
reg("jax:hyperelastic(user fibre energy)", "jax", st.fixed_dictionaries({"mu": fl(0.2, 5), "kf": fl(0.1, 3)}), fun="user_fibre", energy=True, iso=False, tol_fd=2e-6)
reg("jax:total_lagrange(neo_hooke)", "jax", st.fixed_dictionaries({"mu": fl(0.2, 5)}), fun="total_lagrange")
reg("jax:updated_lagrange(neo_hooke)", "jax", st.fixed_dictionaries({"mu": fl(0.2, 5)}), fun="updated_lagrange")

NAMES = list(REG)


def reg_scale(name, params):
    """stress scale that the documented eigenvalue regularisation (delta = 1e-4) of a jax model acts on, where it is not the
    stiffness: the extended tube model adds principal terms -2 Ge / beta * lambda^(-beta - 1) that cancel only for exactly
    isochoric principal stretches, and the perturbed eigenvalues are isochoric only up to delta"""
    if name.endswith("extended_tube"):
        return 2.0 * params["Ge"] / params["beta"]
    return 0.0


def _jax64():
    import jax

    jax.config.update("jax_enable_x64", True)


_CACHE = {}


def build(name, params):
    """felupe material object (cached per (name, params) because AD back-ends compile per object)."""
    from vf.core import jdump

    key = (name, jdump(params))
    if key in _CACHE:
        return _CACHE[key]
    if len(_CACHE) > 64:
        _CACHE.clear()
    um = _build(name, params)
    _CACHE[key] = um
    return um


def _build(name, params):
    fem = import_felupe()
    e = REG[name]
    p = dict(params)
    if e["backend"] == "hand":
        if name.startswith("NeoHooke("):
            return fem.NeoHooke(**p)
        if name == "NeoHookeCompressible(lmbda=None)":
            return fem.NeoHookeCompressible(mu=p["mu"])
        if name == "OgdenRoxburgh(NeoHooke)":
            return fem.OgdenRoxburgh(fem.NeoHooke(mu=p["mu"], bulk=p["bulk"]), r=p["r"], m=p["m"], beta=p["beta"])
        return getattr(fem, name)(**p)
    if e["backend"] == "tensortrax":
        import felupe.constitution.tensortrax as tt
        import tensortrax.math as tm

        M, L = tt.models.hyperelastic, tt.models.lagrange
        f = e["fun"]
        if f == "ogden_roxburgh":
            return tt.Hyperelastic(M.ogden_roxburgh, material=M.neo_hooke, nstatevars=1, **p)
        if f == "finite_strain_viscoelastic":
            return tt.Hyperelastic(M.finite_strain_viscoelastic, nstatevars=6, **p)
        if f.startswith("microsphere:"):
            import felupe.constitution.tensortrax.models.hyperelastic.microsphere as ms

            _, fw, ch = f.split(":")
            chain = getattr(ms, ch)
            ckw = {"mu": p["mu"]} if ch == "linear" else {"mu": p["mu"], "N": p["N"]}
            frame = getattr(ms, fw)
            if fw.startswith("nonaffine"):
                def psi(C, frame=frame, chain=chain, ckw=ckw, e_=p["pq"]):
                    return frame(C, e_, f=chain, kwargs=ckw)
            else:
                def psi(C, frame=frame, chain=chain, ckw=ckw):
                    return frame(C, f=chain, kwargs=ckw)
            return tt.Hyperelastic(psi)
        if f == "morph_p6":
            return tt.Material(L.morph, p=[0.0 if i == 6 else (v * p["scale"] if i in (0, 1, 2) else v) for i, v in enumerate(MORPH_P)], nstatevars=13)
        if f == "morph":
            return tt.Material(L.morph, p=[v * p["scale"] if i in (0, 1, 2) else v for i, v in enumerate(MORPH_P)], nstatevars=13)
        if f == "morph_representative_directions":
            return tt.Material(L.morph_representative_directions, p=[v * p["scale"] if i in (0, 1, 2) else v for i, v in enumerate(MORPH_P)], nstatevars=84, **_eps_kw(p))
        if f == "total_lagrange":
            @tt.total_lagrange
            def nh_tl(F, mu=1):
                C = F.T @ F
                return mu * tm.special.dev(tm.linalg.det(C) ** (-1 / 3) * C) @ tm.linalg.inv(C)

            return tt.Material(nh_tl, **p)
        if f == "updated_lagrange":
            @tt.updated_lagrange
            def nh_ul(F, mu=1):
                J = tm.linalg.det(F)
                b = F @ F.T
                return mu * tm.special.dev(J ** (-2 / 3) * b) / J

            return tt.Material(nh_ul, **p)
        if f == "morph_rd_energy":
            # same stabilisation parameter as the default of the stress form (the two forms document different defaults)
            return tt.Hyperelastic(M.morph_representative_directions, p=[v * p["scale"] if i in (0, 1, 2) else v for i, v in enumerate(MORPH_P)], nstatevars=84,
                                   **_eps_kw(p, 1e-6))
        if f == "updated_lagrange_state":
            @tt.updated_lagrange
            def nh_ul_state(F, statevars, mu=1):
                J = tm.linalg.det(F)
                b = F @ F.T
                g = 1.0 + 0.3 * np.tanh(statevars[0])
                return mu * g * tm.special.dev(J ** (-2 / 3) * b) / J, tm.special.try_stack([[tm.trace(b) - 3]], fallback=statevars)

            return tt.Material(nh_ul_state, nstatevars=1, **p)
        if f == "saint_venant_kirchhoff_orthotropic":
            from scipy.spatial.transform import Rotation

            R = Rotation.random(random_state=p.pop("rseed")).as_matrix()
            if "k" in p:
                return tt.Hyperelastic(M.saint_venant_kirchhoff_orthotropic, mu=p["mu"], lmbda=p["lmbda"], r1=R[:, 0], r2=R[:, 1], r3=R[:, 2], k=p["k"])
            return tt.Hyperelastic(M.saint_venant_kirchhoff_orthotropic, mu=p["mu"], lmbda=p["lmbda"], r1=R[:, 0], r2=R[:, 1])
        return tt.Hyperelastic(getattr(M, f), **p)
    if e["backend"] == "jax":
        _jax64()
        import felupe.constitution.jax as jx
        import jax.numpy as jnp

        M, L = jx.models.hyperelastic, jx.models.lagrange
        f = e["fun"]
        if f == "morph":
            return jx.Material(L.morph, p=[v * p["scale"] if i in (0, 1, 2) else v for i, v in enumerate(MORPH_P)], nstatevars=13)
        if f == "morph_representative_directions":
            return jx.Material(L.morph_representative_directions, p=[v * p["scale"] if i in (0, 1, 2) else v for i, v in enumerate(MORPH_P)], nstatevars=84, **_eps_kw(p))
        if f == "user_state":
            def w_state(C, statevars, mu=1.0):
                J = jnp.sqrt(jnp.linalg.det(C))
                I1 = J ** (-2 / 3) * jnp.trace(C)
                g = 1.0 + 0.3 * jnp.tanh(statevars[0]) + 0.1 * jnp.sin(statevars[1])
                W = mu / 2 * g * (I1 - 3) + 2.0 * mu * (J - 1) ** 2
                return W, jnp.array([I1 - 3, jnp.trace(C) - 3])

            return jx.Hyperelastic(w_state, nstatevars=2, **p)
        if f == "user_fibre":
            def w_fibre(C, mu=1.0, kf=1.0):
                J = jnp.sqrt(jnp.linalg.det(C))
                return mu / 2 * (jnp.trace(C) - 3 - 2 * jnp.log(J)) + 2.0 * mu * (J - 1) ** 2 + kf * (C[0, 0] - 1) ** 2 + 0.5 * kf * C[0, 1] ** 2

            return jx.Hyperelastic(w_fibre, **p)
        if f == "total_lagrange":
            @jx.total_lagrange
            def nh_tl(F, mu=1):
                C = F.T @ F
                Cu = jnp.linalg.det(C) ** (-1 / 3) * C
                return mu * (Cu - jnp.trace(Cu) / 3 * jnp.eye(3)) @ jnp.linalg.inv(C)

            return jx.Material(nh_tl, **p)
        if f == "updated_lagrange":
            @jx.updated_lagrange
            def nh_ul(F, mu=1):
                J = jnp.linalg.det(F)
                b = J ** (-2 / 3) * F @ F.T
                return mu * (b - jnp.trace(b) / 3 * jnp.eye(3)) / J

            return jx.Material(nh_ul, **p)
        return jx.Hyperelastic(getattr(M, f), **p)
    raise KeyError(name)


def virgin_state(name, batch):
    """state-variable array of the undeformed, virgin material (shape (nstate, *batch))."""
    e = REG[name]
    n = e["nstate"]
    sv = np.zeros((n,) + tuple(batch))
    f = e.get("fun")
    if f == "finite_strain_viscoelastic":
        sv[[0, 3, 5]] = 1.0  # Cin = I (upper triangle storage)
    elif f == "morph":
        sv[[1, 4, 6]] = 1.0  # Cn = I
    return sv


def energy(name, params, F, sv=None):
    """strain energy density per batch item (only for entries with energy=True)."""
    e = REG[name]
    um = build(name, params)
    if e["backend"] == "hand":
        return np.asarray(um.function([F, sv])[0])
    C = np.einsum("ki...,kj...->ij...", F, F)
    p = {k: v for k, v in params.items() if k != "rseed"}
    if e["backend"] == "tensortrax":
        import tensortrax as tr

        kw = dict(um.kwargs)
        return np.asarray(tr.function(um.fun, wrt=0, ntrax=len(F.shape) - 2)(C, **kw))
    if e.get("fun") == "user_fibre":
        # closed form, independent of the library's wrapper around the user function
        J = np.linalg.det(np.moveaxis(F, (0, 1), (-2, -1)))
        return p["mu"] / 2 * (C[0, 0] + C[1, 1] + C[2, 2] - 3 - 2 * np.log(J)) + 2.0 * p["mu"] * (J - 1) ** 2 + p["kf"] * (C[0, 0] - 1) ** 2 + 0.5 * p["kf"] * C[0, 1] ** 2
    import jax.numpy as jnp

    out = np.zeros(F.shape[2:])
    for idx in np.ndindex(*F.shape[2:]):
        Fi = F[(slice(None), slice(None)) + idx]
        if e["nstate"]:
            out[idx] = float(um.fun(jnp.asarray(Fi), jnp.asarray(sv[(slice(None),) + idx]), **um.kwargs)[0])
        else:
            out[idx] = float(um.fun(jnp.asarray(Fi), **um.kwargs))
    return out


# ---- deformation gradients ------------------------------------------------------------------------------------------
def rotations(rng, n):
    from scipy.spatial.transform import Rotation

    return Rotation.random(n, random_state=int(rng.integers(0, 2**31))).as_matrix()


def make_F(rng, batch, lam=(0.7, 1.5), sep=True, Q=None):
    """F = R U, U = Q diag(lambda) Q^T, principal stretches in `lam`, pairwise separated by >= 0.4 * (range / 6).

    `Q` fixes the principal axes (one rotation per batch item): states built with the same Q are coaxial."""
    n = int(np.prod(batch))
    lo, hi = lam
    grid = np.linspace(lo, hi, 7)
    step = grid[1] - grid[0]
    F = np.zeros((3, 3, n))
    R = rotations(rng, n)
    Qr = rotations(rng, n)
    Q = Qr if Q is None else Q
    for i in range(n):
        if sep:
            l = rng.choice(grid, 3, replace=False) + rng.uniform(-0.3, 0.3, 3) * step
        else:
            l = rng.uniform(lo, hi, 3)
        U = Q[i] @ np.diag(l) @ Q[i].T
        F[:, :, i] = R[i] @ U
    return np.ascontiguousarray(F.reshape((3, 3) + tuple(batch)))


def st_Fcase(batches=((1, 1), (2, 3), (1, 4), (3, 1))):
    return st.fixed_dictionaries({"fseed": st.integers(0, 2**32 - 1), "batch": st.sampled_from([list(b) for b in batches]),
                                  "hist": st.lists(st.fixed_dictionaries({"seed": st.integers(0, 2**16), "scale": fl(0.3, 1.3)}), min_size=0, max_size=3),
                                  "coaxial": st.booleans()})


def coaxial_Q(Fcase, batch):
    """fixed principal axes of a coaxial history (all right Cauchy-Green tensors of the history commute), else None"""
    if not Fcase.get("coaxial"):
        return None
    return rotations(np.random.default_rng([int(Fcase["fseed"]), 77]), int(np.prod(batch)))


def stretch_scaled(Fx, Q, s):
    """rotation-free state Q diag(1 + s (l - 1)) Q^T with the principal stretches l of Fx = R Q diag(l) Q^T"""
    C = np.einsum("ji...,jk...->ik...", Fx, Fx).reshape(3, 3, -1)
    out = np.zeros_like(C)
    for i in range(C.shape[-1]):
        l = np.sqrt(np.diag(Q[i].T @ C[:, :, i] @ Q[i]))
        out[:, :, i] = Q[i] @ np.diag(1 + s * (l - 1)) @ Q[i].T
    return np.ascontiguousarray(out.reshape(Fx.shape))


def drive_history(name, um, sv, F_end, hist, rng_batch, lam, Q=None):
    """drive a history-dependent model through generated admissible states; returns the committed state.

    With `Q` (see coaxial_Q; F_end built with the same Q) every state of the history shares the principal axes of C."""
    I = np.eye(3).reshape((3, 3) + (1,) * (F_end.ndim - 2))
    for h in hist:
        r = np.random.default_rng(h["seed"])
        if h["seed"] % 2 == 0:
            # same direction, larger amplitude: the final state is then an unloading state (pseudo-elastic models)
            Fh = I + (1.15 + 0.5 * h["scale"]) * (F_end - I) if Q is None else stretch_scaled(F_end, Q, 1.15 + 0.5 * h["scale"])
        else:
            Fh = make_F(r, F_end.shape[2:], lam, Q=Q)
            Fh = I + h["scale"] * (Fh - I) if Q is None else stretch_scaled(Fh, Q, h["scale"])
        # keep det > 0 by construction (convex combination towards I for scale <= 1; scale up to 1.3 of amplitudes <= 0.5)
        if np.linalg.det(np.moveaxis(Fh, (0, 1), (-2, -1))).min() < 0.2:
            continue
        if np.abs(Fh - (F_end if Q is None else stretch_scaled(F_end, Q, 1.0))).reshape(9, -1).max(0).min() < 0.02:
            continue  # rate-type models: a zero increment is a documented non-smooth point (0/0)
        out = um.gradient([Fh.copy(), sv])
        sv = np.array(out[-1], dtype=float).copy()
    return sv
