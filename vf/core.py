"""Shared machinery: environment pinning, sharded Hypothesis driver, survey -> bucket -> shrink,
known-findings protocol, evidence writer.

A property module (vf/props/cNN.py) exposes

    PROPERTY = "C05"
    FAMILIES = [Family(...), ...]
    RULE     = "how cases are generated and what makes one non-trivial"
    ASSUMPTIONS = [...]

Each Family has a finite `axis` (enumerated completely), and for every axis value either a Hypothesis
`strategy(axis_value, tier)` producing JSON-serialisable case dicts, or `cases(axis_value, tier)` that
enumerates them (exhaustive families).  `check(axis_value, case, rec)` is a pure function of the case and
of the code under test; it records measurements through `rec`.
"""
from __future__ import annotations

import hashlib
import json
import os
import signal
import sys
import time
import traceback
import warnings
from dataclasses import dataclass, field
from typing import Callable, Optional

VERIF_DIR = os.path.dirname(os.path.dirname(os.path.abspath(__file__)))
VF_REPO = os.path.abspath(os.environ.get("VF_REPO", "/repo"))


# ------------------------------------------------------------------------------------------------
# environment
# ------------------------------------------------------------------------------------------------
_PINNED = False


def pin_environment():
    """Must run before numpy / felupe are imported (done by vf.run and by every worker)."""
    global _PINNED
    if _PINNED:
        return
    _PINNED = True
    os.environ.setdefault("PYTHONHASHSEED", "0")
    os.environ["FELUPE_VERBOSE"] = "false"
    os.environ.setdefault("FELUPE_VERIF", "1")
    for k in ("OMP_NUM_THREADS", "MKL_NUM_THREADS", "OPENBLAS_NUM_THREADS", "NUMEXPR_NUM_THREADS"):
        os.environ[k] = "1"
    os.environ.setdefault("XLA_FLAGS", "--xla_cpu_multi_thread_eigen=false intra_op_parallelism_threads=1")
    os.environ.setdefault("JAX_PLATFORMS", "cpu")
    os.environ.setdefault("MPLBACKEND", "Agg")
    os.environ.setdefault("PYVISTA_OFF_SCREEN", "true")
    src = os.path.join(VF_REPO, "src")
    if src not in sys.path:
        sys.path.insert(0, src)
    if VERIF_DIR not in sys.path:
        sys.path.insert(0, VERIF_DIR)
    warnings.simplefilter("ignore")


def import_felupe():
    pin_environment()
    import felupe  # noqa

    f = os.path.abspath(felupe.__file__)
    if not f.startswith(os.path.join(VF_REPO, "src")):
        raise HarnessError(f"felupe imported from {f}, expected under {VF_REPO}/src")
    return felupe


class HarnessError(Exception):
    pass


class _Budget(BaseException):
    pass


# ------------------------------------------------------------------------------------------------
# recording
# ------------------------------------------------------------------------------------------------
class Rec:
    """Collects what one case showed."""

    def __init__(self):
        self.devs = []  # (name, value, tol, info)
        self.meas = {}  # name -> (max value, tol)
        self.labels = []
        self.nontrivial = False
        self.rejected = None

    def close(self, name, value, tol, info=None):
        """value must be <= tol; NaN counts as a deviation."""
        try:
            value = float(value)
        except Exception:
            value = float("nan")
        old = self.meas.get(name)
        if old is None or not (value <= old[0]):
            self.meas[name] = (value, float(tol))
        if not (value <= tol):
            self.devs.append((name, value, float(tol), info))
            return False
        return True

    def require(self, name, cond, info=None):
        ok = bool(cond)
        old = self.meas.get(name)
        if old is None or not ok:
            self.meas[name] = (0.0 if ok else 1.0, 0.5)
        if not ok:
            self.devs.append((name, 1.0, 0.5, info))
        return ok

    def label(self, s):
        self.labels.append(str(s))

    def reject(self, why):
        self.rejected = str(why)


@dataclass
class Family:
    name: str
    axis: list
    check: Callable
    strategy: Optional[Callable] = None
    cases: Optional[Callable] = None
    n: dict = field(default_factory=lambda: {"quick": 5, "thorough": 50})
    chunk: int = 40  # max examples per work unit
    axis_key: Callable = staticmethod(lambda a: a if isinstance(a, str) else json.dumps(a, separators=(",", ":")))
    weight: float = 1.0  # relative cost, only used for ordering units (heavy first)


def jdump(o):
    return json.dumps(o, sort_keys=True, separators=(",", ":"), default=_jdefault)


def _jdefault(o):
    import numpy as np

    if isinstance(o, np.ndarray):
        return o.tolist()
    if isinstance(o, (np.integer,)):
        return int(o)
    if isinstance(o, (np.floating,)):
        return float(o)
    if isinstance(o, (np.bool_,)):
        return bool(o)
    if isinstance(o, (set, frozenset, tuple)):
        return list(o)
    return repr(o)


def digest(o):
    return hashlib.sha1(jdump(o).encode()).hexdigest()[:16]


def unit_seed(*parts):
    h = hashlib.sha256("|".join(str(p) for p in parts).encode()).digest()
    return int.from_bytes(h[:8], "big")


def _felupe_frame(tb):
    """innermost traceback frame that lies in the code under test, or None."""
    src = os.path.join(VF_REPO, "src")
    hit = None
    for fs in traceback.extract_tb(tb):
        if os.path.abspath(fs.filename).startswith(src):
            hit = fs
    return hit


def safe_check(fam: Family, ax, case):
    """run the check; exceptions coming out of the code under test become a deviation bucket,
    exceptions of the harness itself are re-raised as HarnessError."""
    rec = Rec()
    try:
        with warnings.catch_warnings():
            warnings.simplefilter("ignore")
            fam.check(ax, case, rec)
    except _Budget:
        raise
    except HarnessError:
        raise
    except Exception as e:  # noqa
        fs = _felupe_frame(e.__traceback__)
        if fs is None and rec.devs:
            # the case has already recorded a deviation and a later oracle (which assumed the violated relation, e.g. a
            # shape) failed inside the harness: a consequence, the recorded deviation stands
            rec.label("oracle-aborted-after-a-deviation")
            return rec
        if fs is None:
            raise HarnessError(
                f"harness exception in {fam.name} axis={fam.axis_key(ax)} case={jdump(case)[:2000]}\n"
                + traceback.format_exc()
            )
        rel = os.path.relpath(fs.filename, os.path.join(VF_REPO, "src"))
        rec.devs.append((f"exception:{type(e).__name__}@{rel}:{fs.name}", 1.0, 0.5, repr(e)[:300]))
    return rec


# ------------------------------------------------------------------------------------------------
# worker side
# ------------------------------------------------------------------------------------------------
def _load(prop):
    import importlib

    pin_environment()
    return importlib.import_module(f"vf.props.{prop.lower()}")


def _hyp_settings(n, phases):
    from hypothesis import HealthCheck, settings

    return settings(
        max_examples=n,
        database=None,
        deadline=None,
        derandomize=False,
        report_multiple_bugs=False,
        phases=phases,
        suppress_health_check=[HealthCheck.too_slow, HealthCheck.data_too_large, HealthCheck.large_base_example],
    )


CRASH = "worker-process-died"


def replay_unit(args):
    """re-run one committed replay file in a worker process (the code under test may crash the interpreter): list of
    (bucket, value) pairs that deviate"""
    prop, path = args
    pin_environment()
    import_felupe()
    try:
        return replay_file(_load(prop), path, with_values=True)
    except HarnessError as e:
        # reported as a harness error of the run (exit code 2 unless violations are found elsewhere), the run itself goes on
        return [("__harness__", str(e)[:1500])]


def crashed_unit(args):
    """result of a unit whose worker process died (interpreter crash inside the code under test, e.g. a segfault in a
    compiled solver fed by it): reported as a deviation of its own, the run goes on"""
    prop, fi, ai, shard, n, tier, seedint, deadline = args
    out = dict(fi=fi, ai=ai, shard=shard, evaluations=0, nontrivial=[], labels={}, meas={}, devs={},
               rejected=0, skipped=False, error=None, samples=[], wall=0.0, budget_hit=False)
    out["devs"][CRASH] = [dict(case={"unit": [prop, fi, ai, shard, n, tier, seedint]}, value=1.0, tol=0.5,
                               info="the worker process running this unit died twice (alone in a fresh process the second time)")]
    return out


def safe_map(fn, items, jobs, ctx, on_crash, ordered=False):
    """map over a process pool that survives dying workers: items whose future breaks are re-run one by one in fresh
    single-worker pools; an item that kills its worker again yields on_crash(item). (multiprocessing.Pool hangs forever
    when a worker dies while it holds a task.)"""
    from concurrent.futures import ProcessPoolExecutor, as_completed
    from concurrent.futures.process import BrokenProcessPool

    items = list(items)
    res = [None] * len(items)
    done = [False] * len(items)
    try:
        with ProcessPoolExecutor(max(1, min(jobs, len(items) or 1)), mp_context=ctx) as ex:
            futs = {ex.submit(fn, it): i for i, it in enumerate(items)}
            for f in as_completed(futs):
                i = futs[f]
                try:
                    res[i] = f.result()
                    done[i] = True
                except BrokenProcessPool:
                    pass
    except BrokenProcessPool:
        pass
    for i, it in enumerate(items):
        if done[i]:
            continue
        try:
            with ProcessPoolExecutor(1, mp_context=ctx) as ex:
                res[i] = ex.submit(fn, it).result()
        except BrokenProcessPool:
            res[i] = on_crash(it)
    return res if ordered else [r for r in res]


def run_unit(args):
    """one work unit = (family, axis value, shard): survey mode, never raises on deviations."""
    prop, fi, ai, shard, n, tier, seedint, deadline = args
    t0 = time.time()
    out = dict(fi=fi, ai=ai, shard=shard, evaluations=0, nontrivial=set(), labels={}, meas={}, devs={},
               rejected=0, skipped=False, error=None, samples=[], wall=0.0, budget_hit=False)
    if time.time() > deadline:
        out["skipped"] = True
        out["budget_hit"] = True
        return out
    try:
        mod = _load(prop)
        import_felupe()
        fam = mod.FAMILIES[fi]
        ax = fam.axis[ai]

        def body(case):
            if time.time() > deadline:
                raise _Budget()
            rec = safe_check(fam, ax, case)
            out["evaluations"] += 1
            if rec.rejected is not None:
                out["rejected"] += 1
                return
            d = digest(case)
            if rec.nontrivial:
                out["nontrivial"].add(d)
            for l in rec.labels:
                out["labels"][l] = out["labels"].get(l, 0) + 1
            for k, (v, tol) in rec.meas.items():
                o = out["meas"].get(k)
                if o is None or not (v <= o[0]):
                    out["meas"][k] = (v, tol)
            for name, v, tol, info in rec.devs:
                lst = out["devs"].setdefault(name, [])
                if len(lst) < 3:
                    lst.append(dict(case=case, value=v, tol=tol, info=info))
                else:
                    # always keep the largest deviation of the bucket (known findings are bounded in magnitude)
                    j = min(range(len(lst)), key=lambda i: (lst[i]["value"] != lst[i]["value"], lst[i]["value"]))
                    if v != v or v > lst[j]["value"]:
                        lst[j] = dict(case=case, value=v, tol=tol, info=info)
            if len(out["samples"]) < 2 or (rec.nontrivial and len(out["samples"]) < 3):
                out["samples"].append(case)

        try:
            if fam.cases is not None:
                for c in fam.cases(ax, tier):
                    body(c)
            else:
                from hypothesis import Phase, given, seed

                f = seed(seedint)(_hyp_settings(n, [Phase.generate])(given(fam.strategy(ax, tier))(body)))
                f()
        except _Budget:
            out["budget_hit"] = True
    except HarnessError as e:
        out["error"] = str(e)
    except BaseException:  # noqa
        out["error"] = traceback.format_exc()
    out["nontrivial"] = sorted(out["nontrivial"])
    out["wall"] = time.time() - t0
    return out


def shrink_unit(args):
    """re-run one unit with the assertion restricted to one bucket name; return the minimal failing case."""
    prop, fi, ai, n, tier, seedint, name, budget_s, first_case = args
    best = {"case": first_case, "info": None, "last": None}
    try:
        mod = _load(prop)
        import_felupe()
        fam = mod.FAMILIES[fi]
        ax = fam.axis[ai]
        if fam.cases is not None:
            # enumerated family: smallest failing case by serialised size
            for c in fam.cases(ax, tier):
                rec = safe_check(fam, ax, c)
                hits = [d for d in rec.devs if d[0] == name]
                if hits and (best["last"] is None or len(jdump(c)) < len(jdump(best["last"]))):
                    best["last"] = c
                    best["info"] = hits[0]
            return dict(case=best["last"] or first_case, info=best["info"], shrunk=best["last"] is not None)

        from hypothesis import Phase, given, seed

        def body(case):
            rec = safe_check(fam, ax, case)
            hits = [d for d in rec.devs if d[0] == name]
            if hits:
                best["last"] = case
                best["info"] = hits[0]
                raise AssertionError(name)

        def on_alarm(signum, frame):
            raise _Budget()

        signal.signal(signal.SIGALRM, on_alarm)
        signal.alarm(int(budget_s))
        try:
            f = seed(seedint)(_hyp_settings(n, [Phase.generate, Phase.shrink])(given(fam.strategy(ax, tier))(body)))
            f()
        except _Budget:
            pass
        except AssertionError:
            pass
        except BaseException:  # flaky etc.: keep what we have
            pass
        finally:
            signal.alarm(0)
    except BaseException:  # noqa
        return dict(case=first_case, info=None, shrunk=False, error=traceback.format_exc())
    return dict(case=best["last"] or first_case, info=best["info"], shrunk=best["last"] is not None)


# ------------------------------------------------------------------------------------------------
# known findings
# ------------------------------------------------------------------------------------------------
def load_known(prop):
    p = os.path.join(VERIF_DIR, "known_findings.json")
    if not os.path.exists(p):
        return []
    with open(p) as fh:
        data = json.load(fh)
    return [e for e in data.get("findings", []) if e.get("property") == prop and e.get("status") == "known"]


def match_known(known, bucket, value=None):
    """a listed finding covers a bucket only up to its recorded magnitude (`max_value`): a larger deviation in the same
    bucket is a different violation and is reported."""
    import re

    for e in known:
        for k in e.get("keys", [e.get("key")]):
            # only '*' is a wildcard (bucket names contain brackets and quotes)
            if k and re.fullmatch(".*".join(re.escape(p) for p in k.split("*")), bucket):
                lim = e.get("max_value")
                if lim is not None and value is not None and not (value <= lim):
                    continue
                return e
    return None


# ------------------------------------------------------------------------------------------------
# driver
# ------------------------------------------------------------------------------------------------
TIER_BUDGET = {"quick": 240.0, "thorough": 3300.0}


def run_property(prop, tier, seed, jobs=None, only_family=None):
    import multiprocessing as mp

    t0 = time.time()
    pin_environment()
    mod = _load(prop)
    budget = float(os.environ.get("VF_BUDGET_S", getattr(mod, "BUDGET", TIER_BUDGET)[tier]))
    deadline = t0 + budget
    units = []
    for fi, fam in enumerate(mod.FAMILIES):
        if only_family and fam.name not in only_family:
            continue
        n = fam.n[tier]
        for ai, ax in enumerate(fam.axis):
            if fam.cases is not None:
                units.append((fam.weight, (prop, fi, ai, 0, 0, tier, 0, deadline)))
                continue
            nsh = max(1, -(-n // fam.chunk))
            per = -(-n // nsh)
            for sh in range(nsh):
                s = unit_seed(seed, prop, fam.name, fam.axis_key(ax), sh)
                units.append((fam.weight, (prop, fi, ai, sh, per, tier, s, deadline)))
    units.sort(key=lambda u: -u[0])
    units = [u[1] for u in units]
    jobs = jobs or int(os.environ.get("VF_JOBS", "16"))
    jobs = max(1, min(jobs, len(units)))
    ctx = mp.get_context("spawn")
    results = []
    if jobs == 1:
        for u in units:
            results.append(run_unit(u))
    else:
        results = safe_map(run_unit, units, jobs, ctx, crashed_unit)

    errors = [r["error"] for r in results if r["error"]]
    evaluations = sum(r["evaluations"] for r in results)
    rejected = sum(r["rejected"] for r in results)
    nontrivial = set()
    per_class, labels, meas, buckets = {}, {}, {}, {}
    samples = []
    budget_hit = any(r["budget_hit"] for r in results)
    for r in results:
        fam = mod.FAMILIES[r["fi"]]
        ax = fam.axis[r["ai"]]
        cls = f"{fam.name}/{fam.axis_key(ax)}"
        per_class[cls] = per_class.get(cls, 0) + r["evaluations"]
        nontrivial.update(f"{r['fi']}:{r['ai']}:{d}" for d in r["nontrivial"])
        for l, c in r["labels"].items():
            labels[f"{fam.name}:{l}"] = labels.get(f"{fam.name}:{l}", 0) + c
        for k, (v, tol) in r["meas"].items():
            kk = f"{fam.name}/{k}"
            o = meas.get(kk)
            if o is None or not (v <= o[0]):
                meas[kk] = (v, tol)
        for name, lst in r["devs"].items():
            b = f"{cls}/{name}"
            e = buckets.setdefault(b, dict(fi=r["fi"], ai=r["ai"], name=name, cases=[], unit=None))
            e["cases"].extend(lst)
            if e["unit"] is None:
                e["unit"] = (r["shard"],)
        for c in r["samples"]:
            if len(samples) < 400:
                samples.append(dict(family=fam.name, axis=ax, case=c))

    known = load_known(prop)
    new_buckets, known_hits = {}, {}
    for b, e in sorted(buckets.items()):
        worst = max((c["value"] for c in e["cases"]), default=None, key=lambda v: (v != v, v))
        k = match_known(known, b, worst)
        if k is not None:
            known_hits.setdefault(k["id"], (k, []))[1].append(b)
        else:
            new_buckets[b] = e

    # replay tier: committed replay files are always re-run
    replay_dir = os.path.join(VERIF_DIR, "replays", prop)
    replayed = 0
    if os.path.isdir(replay_dir) and not only_family:
        rps = [os.path.join(replay_dir, fn) for fn in sorted(os.listdir(replay_dir)) if fn.endswith(".json") and not fn.startswith("new-")]
        # (in worker processes like everything else that runs the code under test: a crash of the interpreter inside a compiled
        # solver must not take the reporting process with it)
        all_devs = safe_map(replay_unit, [(prop, rp) for rp in rps], min(jobs, 8), ctx, lambda a_: [(os.path.basename(a_[1]) + "/" + CRASH, 1.0)], ordered=True) if rps else []
        for rp, devs in zip(rps, all_devs):
            replayed += 1
            for b, val in devs:
                if b == "__harness__":
                    errors.append(f"replay {os.path.basename(rp)}: {val}")
                    continue
                k = match_known(known, b, val)
                if k is not None:
                    known_hits.setdefault(k["id"], (k, []))[1].append(b)
                elif b not in new_buckets:
                    new_buckets[b] = dict(replay=rp, cases=[], name=b)

    violations = []
    if new_buckets:
        todo = []
        for b, e in list(new_buckets.items()):
            if "replay" in e:
                violations.append((b, e["replay"], None))
                continue
            fam = mod.FAMILIES[e["fi"]]
            ax = fam.axis[e["ai"]]
            first = min(e["cases"], key=lambda c: len(jdump(c["case"])))
            n = fam.n[tier]
            nsh = max(1, -(-n // fam.chunk))
            per = -(-n // nsh)
            s = unit_seed(seed, prop, fam.name, fam.axis_key(ax), e["unit"][0])
            todo.append((b, e, first, (prop, e["fi"], e["ai"], per, tier, s, e["name"],
                                      45 if tier == "quick" else 240, first["case"])))
        shr = {}
        lim = 8 if tier == "quick" else 24
        if todo:
            sel = [t for t in todo[:lim] if not t[1]["name"].startswith(CRASH)]
            for (b, e, first, a), r in zip(sel, safe_map(shrink_unit, [t[3] for t in sel], min(16, max(1, len(sel))), ctx, lambda a_: None, ordered=True)):
                if r is not None:
                    shr[b] = r
        new_dir = os.path.join(os.environ["VF_REPLAY_DIR"], prop) if os.environ.get("VF_REPLAY_DIR") else replay_dir
        os.makedirs(new_dir, exist_ok=True)
        for b, e, first, a in todo:
            r = shr.get(b) or dict(case=first["case"], info=None, shrunk=False)
            fam = mod.FAMILIES[e["fi"]]
            info = r.get("info") or (e["name"], first["value"], first["tol"], first["info"])
            rp = os.path.join(new_dir, "new-" + hashlib.sha1(b.encode()).hexdigest()[:12] + ".json")
            with open(rp, "w") as fh:
                json.dump(dict(property=prop, family=fam.name, axis=fam.axis[e["ai"]], bucket=b, case=r["case"],
                               shrunk=bool(r.get("shrunk")), value=info[1], tol=info[2], info=info[3],
                               seed=seed, tier=tier), fh, indent=1, default=_jdefault)
            violations.append((b, rp, info))

    for kid, (k, bs) in sorted(known_hits.items()):
        print(f"KNOWN-FINDING: property={prop} {k['id']}: {k['what']} [buckets: {', '.join(sorted(bs)[:4])}{' ...' if len(bs) > 4 else ''}]")
    for b, rp, info in violations:
        extra = f" value={info[1]:.3g} tol={info[2]:.3g}" if info else ""
        print(f"VIOLATION property={prop} replay={os.path.relpath(rp, VERIF_DIR)} bucket={b}{extra}")
    wall = time.time() - t0

    # evidence -----------------------------------------------------------------------------------
    samples.sort(key=lambda s: digest(s))
    pick = samples[:: max(1, len(samples) // 5)][:5]
    exhaustive = all(f.cases is not None for f in mod.FAMILIES)
    ev = dict(
        property_id=prop, tier=tier, seed=int(seed), level="exploration",
        coverage=dict(
            evaluations=int(evaluations), distinct_nontrivial=len(nontrivial),
            rule=mod.RULE, samples=pick, exhaustive=bool(exhaustive and not budget_hit),
            exhaustive_families=[f.name for f in mod.FAMILIES if f.cases is not None],
            per_class=per_class, labels=labels, rejected=int(rejected),
            max_deviation={k: dict(value=v, tol=t) for k, (v, t) in sorted(meas.items())},
            known_findings_hit={kid: sorted(bs) for kid, (k, bs) in known_hits.items()},
            replays_rerun=replayed, budget_s=budget, budget_hit=bool(budget_hit),
            work_units=len(units), harness_errors=len(errors),
        ),
        assumptions=list(getattr(mod, "ASSUMPTIONS", [])),
        wall_s=round(wall, 2), violations=len(violations),
    )
    if not only_family and not os.environ.get("VF_NO_EVIDENCE"):
        os.makedirs(os.path.join(VERIF_DIR, "evidence"), exist_ok=True)
        with open(os.path.join(VERIF_DIR, "evidence", f"{prop}.json"), "w") as fh:
            json.dump(ev, fh, indent=1, default=_jdefault)
    print(f"[{prop}] tier={tier} seed={seed} evaluations={evaluations} nontrivial={len(nontrivial)} rejected={rejected} "
          f"units={len(units)} known={len(known_hits)} violations={len(violations)} errors={len(errors)} "
          f"budget_hit={budget_hit} wall={wall:.1f}s")
    if errors:
        for e in errors[:3]:
            print("HARNESS-ERROR:", e, file=sys.stderr)
        return 1 if violations else 2
    if rejected > 0.5 * max(1, evaluations):
        print("HARNESS-ERROR: generator rejects more than half of its cases", file=sys.stderr)
        return 2
    return 1 if violations else 0


def replay_file(mod, path, with_values=False):
    """returns the list of deviating bucket names of a stored case."""
    with open(path) as fh:
        r = json.load(fh)
    fam = next(f for f in mod.FAMILIES if f.name == r["family"])
    ax = r["axis"]
    # map the stored axis value onto the live one (tuples become lists in JSON)
    live = next((a for a in fam.axis if jdump(a) == jdump(ax)), ax)
    rec = safe_check(fam, live, r["case"])
    cls = f"{fam.name}/{fam.axis_key(live)}"
    for name, v, tol, info in rec.devs:
        print(f"  replay {os.path.basename(path)}: {cls}/{name} value={v:.3g} tol={tol:.3g} {info if info else ''}")
    if with_values:
        return [(f"{cls}/{name}", v) for name, v, tol, info in rec.devs]
    return [f"{cls}/{name}" for name, v, tol, info in rec.devs]


def replay_main(prop, path):
    pin_environment()
    mod = _load(prop)
    import_felupe()
    known = load_known(prop)
    pairs = replay_file(mod, path, with_values=True)
    devs = [b for b, v in pairs]
    vals = dict(pairs)
    bad = [b for b in devs if match_known(known, b, vals[b]) is None]
    for b in devs:
        k = match_known(known, b, vals[b])
        if k:
            print(f"KNOWN-FINDING: property={prop} {k['id']}: {k['what']}")
    for b in bad:
        print(f"VIOLATION property={prop} replay={path} bucket={b}")
    return 1 if bad else 0
