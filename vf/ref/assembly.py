"""Reference assembler written from the definition of the integral forms.

For every (cell c, quadrature point q) a dense generalised B-operator maps each global unknown of a field to its
contribution to the test tensor:  value space -> vector of length D (D = 3 for plane-strain / axisymmetric fields, zero
padded for plane strain, hoop entry h_a / R on the radial unknown for axisymmetric fields), gradient space -> D x D tensor (zero padded for plane strain; hoop entry dF33 = h_a / R on the radial unknown for
axisymmetric fields).  Then

    L  += B_v . f(q,c) * w           K += B_v . f(q,c) . B_u * w

with w = dV (Cartesian, plane strain) or 2 pi R dV (axisymmetric container).  Nothing is shared with felupe's assembly
code except the region arrays h, dhdX (decided by C06) and the cell connectivity.
"""
import numpy as np


def kind_of(field):
    n = type(field).__name__
    if n == "FieldAxisymmetric":
        return "axi"
    if n == "FieldPlaneStrain":
        return "ps"
    return "cart"


def ndof(field):
    return field.values.size


def tdim(field):
    return 3 if kind_of(field) in ("axi", "ps") else field.dim


def B_operator(field, grad, q, c, R=None):
    """(ndof, D) for value spaces, (ndof, D, Dx) for gradient spaces."""
    reg = field.region
    cells = reg.mesh.cells
    dim = field.dim
    D = tdim(field)
    k = kind_of(field)
    h = reg.h[:, q, 0] if reg.h.shape[-1] == 1 else reg.h[:, q, c]
    if not grad:
        B = np.zeros((ndof(field), D))
        for a, pt in enumerate(cells[c]):
            for i in range(dim):
                B[dim * pt + i, i] += h[a]
            if k == "axi" and R is not None:
                # felupe gives the third component of an axisymmetric VALUE test / trial space the same meaning as the
                # (3, 3) component of the gradient space: it acts on the radial unknown as h_a / R
                B[dim * pt + 1, 2] += h[a] / R
        return B
    cc = 0 if reg.dhdX.shape[-1] == 1 else c  # uniform regions store one cell
    dh = reg.dhdX[:, :, q, cc]
    nx = dh.shape[1]
    Dx = 3 if k in ("axi", "ps") else nx
    B = np.zeros((ndof(field), D, Dx))
    for a, pt in enumerate(cells[c]):
        for i in range(dim):
            B[dim * pt + i, i, :nx] += dh[a]
        if k == "axi":
            B[dim * pt + 1, 2, 2] += h[a] / R
    return B


def weights(fields, dV, q, c):
    w = np.broadcast_to(dV, (dV.shape[0], fields[0].region.mesh.ncells))[q, c]
    R = None
    if kind_of(fields[0]) == "axi":
        R = fields[0].radius[q, c]
        w = w * 2 * np.pi * R
    return w, R


def pad_to(f, shape):
    """bring the integrand at one (q, c) to the tensor shape of the B operators: singleton component axes of scalar
    fields may be omitted (appended here), lower-dimensional integrands are zero padded (plane strain)."""
    f = np.asarray(f, float)
    while f.ndim > len(shape):
        ax = [k for k in range(f.ndim) if f.shape[k] == 1][-1]
        f = np.squeeze(f, axis=ax)
    if f.ndim < len(shape):
        # omitted singleton component axes are re-inserted where the target has size one (leading axis of a scalar test
        # field, trailing axis of a scalar trial field)
        missing = len(shape) - f.ndim
        dims, k = [], 0
        for pos, t in enumerate(shape):
            rest_target = len(shape) - pos
            rest_f = f.ndim - k
            if t == 1 and missing > 0 and (rest_f < rest_target) and (k >= f.ndim or f.shape[k] != 1 or rest_f < rest_target):
                dims.append(1)
                missing -= 1
            else:
                dims.append(f.shape[k])
                k += 1
        f = f.reshape(dims)
    out = np.zeros(shape)
    out[tuple(slice(0, s) for s in f.shape)] = f
    return out


def linear(fun, field, dV, grad, first=None):
    """dense reference vector of one linear form."""
    first = first or field
    nq = dV.shape[0]
    nc = field.region.mesh.ncells
    L = np.zeros(ndof(field))
    for c in range(nc):
        for q in range(nq):
            w, R = weights([first], dV, q, c)
            B = B_operator(field, grad, q, c, R)
            f = pad_to(bc(fun, q, c), B.shape[1:])
            L += np.tensordot(B, f, axes=f.ndim) * w
    return L


def bilinear(fun, v, u, dV, grad_v, grad_u, first=None):
    first = first or v
    nq = dV.shape[0]
    nc = v.region.mesh.ncells
    K = np.zeros((ndof(v), ndof(u)))
    for c in range(nc):
        for q in range(nq):
            w, R = weights([first], dV, q, c)
            Bv = B_operator(v, grad_v, q, c, R)
            Bu = B_operator(u, grad_u, q, c, R)
            f = pad_to(bc(fun, q, c), Bv.shape[1:] + Bu.shape[1:])
            t = np.tensordot(Bv, f, axes=Bv.ndim - 1)  # (ndof_v, *tu)
            K += np.tensordot(t, Bu, axes=(list(range(1, t.ndim)), list(range(1, Bu.ndim)))) * w
    return K


def bc(fun, q, c):
    """integrand at (q, c), honouring size-one (broadcast) trailing axes."""
    fun = np.asarray(fun)
    qq = 0 if fun.shape[-2] == 1 else q
    cc = 0 if fun.shape[-1] == 1 else c
    return fun[..., qq, cc]
