"""C14 - forces balance and load resultants equal the applied loads."""
import numpy as np
from hypothesis import strategies as st

from vf.core import Family, import_felupe
from vf.gen import materials as gmat
from vf.gen import meshes as gm
from vf.props import c01

PROPERTY = "C14"
RULE = (
    "finite axis = balance law x field kind: internal forces of SolidBody / SolidBodyNearlyIncompressible on 3-D, plane "
    "strain, axisymmetric and mixed containers (sum of nodal forces = 0, total moment about a drawn point = 0; axial "
    "sum only for axisymmetric bodies), body force and gravity resultants, point loads, follower-pressure resultant "
    "against an independently integrated current area vector (closed and masked surfaces), mass matrix (symmetric, "
    "positive semi-definite, total mass per direction), multi-point constraint / contact forces. Hypothesis draws the "
    "mesh (all cell families, distorted / curved), the displacement state (det F >= 0.3), objective materials from "
    "the registry, load values, densities, scales and selections. Oracle: closed-form resultants and explicit sums. "
    "Non-trivial: max|f| >= 1e-3 of the stiffness scale (a stress-free state is trivial) and >= 2 cells."
    ' Added later: mass of axisymmetric bodies, density argument vs stored density, pressure through the keyword of assemble.vector and states handed over in foreign containers, point loads on the second field (apply_on=1).'
)
ASSUMPTIONS = [
    "MINI containers are excluded from the moment clause (the bubble unknown has no position)",
    "body-force values on plane-strain / axisymmetric fields: one per field component or three with a zero circumferential one",
    "tolerance 1e-10 relative to max|f| * number of points",
]

MATS = ["NeoHooke", "NeoHookeCompressible", "tt:yeoh", "tt:ogden", "jax:mooney_rivlin", "OgdenRoxburgh(NeoHooke)", "tt:saint_venant_kirchhoff",
        "tt:miehe_goektepe_lulei", "LinearElasticLargeStrain"]
AXIS = ["internal/3d", "internal/planestrain", "internal/axi", "internal/mixed", "internal/mixed-axi", "internal/nearlyinc", "internal/nearlyinc-axi",
        "internal/mini", "bodyforce/3d", "bodyforce/planestrain", "bodyforce/axi", "bodyforce/mixed", "gravity", "pointload", "pointload/axi", "pressure/3d",
        "pressure/planestrain", "pressure/axi", "mass", "mass/mixed", "mass/axi", "mass/nearlyinc", "mpc", "contact", "bodyforce/uniform", "mass/uniform"]


def kinds_for(ax):
    if ax in ("bodyforce/uniform", "mass/uniform"):
        return ["quad", "hexahedron", "quad8", "hexahedron20"]
    if ax in ("internal/3d", "gravity", "pointload", "mass", "mpc", "contact", "bodyforce/3d"):
        return c01.K3 + c01.K2
    if ax == "mass/nearlyinc":
        return c01.K3
    if ax in ("internal/mixed", "bodyforce/mixed", "mass/mixed"):
        return ["hexahedron", "hexahedron20", "tetra10", "quad", "triangle6"]
    if ax == "internal/mini":
        return ["triangle-mini", "tetra-mini"]
    if ax == "internal/nearlyinc":
        return c01.K3
    if ax == "pressure/3d":
        return c01.KB3
    if ax in ("pressure/planestrain", "pressure/axi"):
        return c01.KB2
    if ax == "internal/mixed-axi":
        return ["quad", "quad8", "triangle6"]
    return c01.K2


def strategy(ax, tier):
    axi = ax.endswith("axi")
    base = c01.strategy("SolidBody/axi" if axi else "SolidBody/3d", tier)
    return st.fixed_dictionaries(
        {
            "mesh": st.sampled_from(kinds_for(ax)).flatmap(lambda k: gm.st_mesh(k, tier, max_n=3 if gm.kind_dim(k) == 2 else 2, affine=not (axi or ax == "contact"))),
            "c": base,
            "center": st.lists(st.floats(-3, 3).map(lambda v: round(v, 2)), min_size=3, max_size=3),
            "density": st.floats(0.1, 5).map(lambda v: round(v, 3)),
        }
    )


def volume_of(region, axi_field=None):
    if axi_field is not None:
        return float((2 * np.pi * axi_field.radius * region.dV).sum())
    dV = np.asarray(region.dV)
    if dV.shape[-1] == 1 and region.mesh.ncells > 1:
        return float(dV.sum()) * region.mesh.ncells  # uniform region: one stored cell stands for all
    return float(dV.sum())


def check(ax, case, rec):
    fem = import_felupe()
    spec = dict(case["mesh"])
    c = dict(case["c"])
    c["mesh"] = spec
    axi = ax.endswith("axi")
    if axi:
        spec["a"] = [spec["a"][0], abs(spec["a"][1]) + 0.4]
    uniform = ax.endswith("/uniform")
    if uniform:
        # equidistant axis-parallel grid with the compressed storage of a uniform region: values that are constant over the cells
        # (a body force, the density) are broadcast from one cell to all
        spec.update(jitter=0.0, affine=None, ratio=None, curve=0.0)
        ax = ax.replace("/uniform", "/3d") if ax.startswith("bodyforce") else "mass"
        rec.label("uniform-region")
    mesh, info = gm.build(spec)
    dim = info["dim"]
    region = gm.region(mesh, info, uniform=True) if uniform else gm.region(mesh, info)
    X = np.array(mesh.points)
    rng = np.random.default_rng(c["lseed"])
    mname, mpar = c["mat"]["name"], c["mat"]["params"]
    if mname not in MATS:
        mname, mpar = "NeoHooke", {"mu": 1.0, "bulk": 5.0}
    kind = ax.split("/")[1] if "/" in ax else "3d"

    def vfield(reg=region):
        if kind == "planestrain":
            return fem.FieldPlaneStrain(reg, dim=2)
        if kind in ("axi", "mixed-axi", "nearlyinc-axi"):
            return fem.FieldAxisymmetric(reg, dim=2)
        return fem.Field(reg, dim=dim)

    def valid_state(fc):
        F = np.asarray(fc.extract()[0])
        Fm = np.moveaxis(F, (0, 1), (-2, -1))
        return np.linalg.det(Fm).min() >= 0.3, float(np.abs(Fm - np.eye(Fm.shape[-1])).max())

    def moments(x, f):
        """sum_a x_a x f_a  (3-D vector / 2-D scalar)"""
        if x.shape[1] == 3:
            return np.cross(x, f).sum(0)
        return np.array([(x[:, 0] * f[:, 1] - x[:, 1] * f[:, 0]).sum()])

    if ax.startswith("internal"):
        plain2d = dim == 2 and kind in ("3d", "mini", "mixed")
        if kind in ("mixed", "mixed-axi"):
            fc = fem.FieldsMixed(region, n=3, axisymmetric=True) if kind == "mixed-axi" else fem.FieldsMixed(region, n=3)
            if plain2d:
                fc = fem.FieldsMixed(region, n=3, planestrain=True)
            um = fem.ThreeFieldVariation(fem.NeoHooke(mu=1.0, bulk=c["bulk"])) if c["mask"] else fem.NearlyIncompressible(fem.NeoHooke(mu=1.0), bulk=c["bulk"])
            body = fem.SolidBody(um, fc)
        elif kind in ("nearlyinc", "nearlyinc-axi"):
            fc = fem.FieldContainer([vfield()])
            body = fem.SolidBodyNearlyIncompressible(fem.NeoHooke(mu=1.0), fc, bulk=c["bulk"])
        else:
            fld = vfield()
            if plain2d:
                fld = fem.FieldPlaneStrain(region, dim=2)
            fc = fem.FieldContainer([fld])
            body = fem.SolidBody(gmat.build(mname, mpar), fc)
            if gmat.REG[mname].get("fun") == "finite_strain_viscoelastic":
                body.results.statevars[[0, 3, 5]] = 1.0
        c01.set_state(fc, X, c, dim)
        if kind == "mini":
            fc.fields[0].values[info["bubble"]] = 0.03 * rng.uniform(-1, 1, (int(info["bubble"].sum()), fc.fields[0].dim))
        ok, amp = valid_state(fc)
        if not ok:
            rec.reject("det F < 0.3")
            return
        if not kind.startswith("nearlyinc") and (c["lseed"] + c["useed"]) % 3 == 1:
            # the body has seen another state before; the final state arrives with the matrix (field handed over), the vector is
            # asked for afterwards without a field: it belongs to the state seen last
            final = [np.array(f_.values).copy() for f_ in fc.fields]
            fc.fields[0].values[...] = 0.6 * final[0][::-1]
            body.assemble.vector(fc)
            for f_, v_ in zip(fc.fields, final):
                f_.values[...] = v_
            body.assemble.matrix(fc)
            r = body.assemble.vector()
            rec.label("state-handed-over-with-the-matrix,-vector-without-field")
        else:
            r = body.assemble.vector(fc)
        if kind.startswith("nearlyinc"):
            r = body.assemble.vector(fc)
        r = np.asarray(r.toarray()).ravel()
        nu = fc.fields[0].values.size
        f = r[:nu].reshape(-1, fc.fields[0].dim)
        if kind == "mini":
            f = f[~info["bubble"]]  # the nodal functions form the partition of unity; the bubble unknown is hierarchical
        K = np.asarray(body.assemble.matrix(fc).toarray())
        fscale = float(np.abs(K[:nu, :nu]).max()) * info["h"]
        rec.nontrivial = bool(np.abs(f).max() >= 1e-3 * fscale and mesh.ncells >= 2)
        sc = max(float(np.abs(f).max()), 1e-6 * fscale) * len(f)
        is_axi = kind in ("axi", "mixed-axi", "nearlyinc-axi")
        if is_axi:
            rec.close("axial-force-sum=0", abs(f[:, 0].sum()) / sc, 1e-10)
        else:
            rec.close("force-sum=0", float(np.abs(f.sum(0)).max()) / sc, 1e-10)
            if kind != "mini":
                x = X + fc.fields[0].values[:, : X.shape[1]]
                x0 = np.array(case["center"][: X.shape[1]])
                L = max(1.0, float(np.abs(x - x0).max()))
                rec.close("moment-sum=0", float(np.abs(moments(x - x0, f[:, : X.shape[1]])).max()) / (sc * L), 1e-10, {"material": mname})
        return
    if ax.startswith(("bodyforce", "gravity")):
        if kind == "mixed":
            fc = fem.FieldsMixed(region, n=2) if dim == 3 or spec["kind"] == "quad" else fem.FieldsMixed(region, n=3)
        else:
            fc = fem.FieldContainer([vfield()])
        c01.set_state(fc, X, c, dim)
        # plane-strain and axisymmetric fields take the in-plane components (one per field component - the item's own
        # default) or three components with a zero circumferential one
        ncomp = 3 if (kind in ("axi", "planestrain") and c["mask"]) else fc.fields[0].dim
        vals = rng.uniform(-1, 1, ncomp)
        if axi and ncomp == 3:
            vals[2] = 0.0
        rec.label(f"components={ncomp}")
        scale = c["load"] + 2.5
        if c["lseed"] % 5 == 0:
            scale = 0.0  # edge of the documented domain: a switched-off load (e.g. the first value of a density / scale ramp)
            rec.label("scale=0")
        elif (c["lseed"] // 5 + len(X)) % 4 == 1:
            scale *= 1e-10  # a density in a small-number unit system (t / mm^3): the load is small, not absent
            rec.label("density-of-the-order-1e-10")
        first = vals if not c["preload"] else rng.uniform(-1, 1, ncomp) * np.array([1, 1, 0 if axi else 1])[:ncomp]
        if ax == "gravity":
            g0 = first.tolist()
            if c["preload"] and (c["lseed"] // 5 + ncomp) % 2:
                # whole-number start values as Python integers (gravity=[0, 0, -10]); the values that follow by update() are not whole
                g0 = [int(round(4 * v_)) for v_ in first]
                rec.label("integer-typed-start-values")
            it = fem.SolidBodyGravity(fc, gravity=g0, density=scale)
        elif c["preload"] and c["lseed"] % 2 and ncomp == fc.fields[0].dim:
            # created with the default values (zeros, one per field component): assembles to zero, values follow by update()
            it = fem.SolidBodyForce(fc, scale=scale)
            r_def = np.asarray(it.assemble.vector(fc).toarray()).ravel()
            rec.close("default-values-assemble-to-zero", float(np.abs(r_def).max()), 0.0)
        else:
            f0 = first.tolist()
            if c["preload"] and (c["lseed"] // 5 + ncomp) % 2:
                f0 = [int(round(4 * v_)) for v_ in first]
                rec.label("integer-typed-start-values")
            it = fem.SolidBodyForce(fc, values=f0, scale=scale)
        if c["preload"]:
            # values changed through update() (what a Step does for ramped items): density / scale must be kept
            it.assemble.vector(fc)
            it.update(vals.tolist())
            rec.label("updated-values")
        r = np.asarray(it.assemble.vector(fc).toarray()).ravel()
        # a load item is assembled in every Newton iteration: repeated assembly returns the same vector
        for rep in range(2):
            r_again = np.asarray(it.assemble.vector(fc).toarray()).ravel()
            rec.close("repeated-assembly-same-vector", float(np.abs(r_again - r).max()) / max(float(np.abs(r).max()), 1e-300), 0.0, {"call": rep + 2})
        n0 = fc.fields[0].values.size
        f = r[:n0].reshape(-1, fc.fields[0].dim)
        V = volume_of(region, fc.fields[0] if axi else None)
        ref = scale * vals[: fc.fields[0].dim] * V
        rec.nontrivial = mesh.ncells >= 2
        rec.close("resultant=scale*values*V", float(np.abs(f.sum(0) - ref).max()) / max(float(np.abs(ref).max()), 1e-12 if scale else float(np.abs(vals).max()) * V), 1e-11)
        rec.close("other-fields-zero", float(np.abs(r[n0:]).max()) if r.size > n0 else 0.0, 0.0)
        rec.require("vector-length", r.size == sum(fc.fieldsizes), [r.size, sum(fc.fieldsizes)])
        if kind != "mixed":
            # the same item asked for the vector of ANOTHER body's container (same kind of field on a stretched copy of the mesh,
            # handed over as field=): density x acceleration x the volume of that body
            far = mesh.copy()
            far.update(points=np.asarray(mesh.points) * 1.3)
            reg2 = gm.region(far, info)
            fc2 = fem.FieldContainer([vfield(reg2)])
            r2 = np.asarray(it.assemble.vector(fc2).toarray()).ravel()
            V2 = volume_of(reg2, fc2.fields[0] if axi else None)
            ref2 = scale * vals[: fc2.fields[0].dim] * V2
            f2 = r2[: fc2.fields[0].values.size].reshape(-1, fc2.fields[0].dim)
            rec.close("resultant-follows-the-container-handed-over", float(np.abs(f2.sum(0) - ref2).max()) / max(float(np.abs(ref2).max()), 1e-12 if scale else float(np.abs(vals).max()) * V2), 1e-11)
        return
    if ax.startswith("pointload"):
        fc = fem.FieldContainer([vfield()]) if not c["mask"] or axi or spec["kind"] not in ("hexahedron", "quad") else fem.FieldsMixed(region, n=2)
        c01.set_state(fc, X, c, dim)
        pts = np.unique(rng.choice(len(X), size=min(4, len(X)), replace=False))
        apply_on = 0
        if c["lseed"] % 3 == 0:
            # a load on the second field of a two-field container (e.g. a ring source on a scalar field)
            fc = fem.FieldContainer([vfield(), fem.Field(region, dim=1)])
            c01.set_state(fc, X, c, dim)
            apply_on = 1
            rec.label("apply_on=1")
        d = fc.fields[apply_on].dim
        if c["lseed"] % 2 == 0:
            # field values in Fortran order (e.g. values = np.array([ux, uy, uz]).T): the layout of the state is irrelevant
            for f_ in fc.fields:
                f_.values = np.asfortranarray(f_.values)
            rec.label("fortran-ordered-field-values")
        vals = rng.uniform(-1, 1, (len(pts), d))
        one_d = False
        if (c["lseed"] // 3 + len(X)) % 3 == 0 and d >= 2 and len(X) > d:
            # one load vector for all loaded points, given as a 1-d sequence with one entry per component - and exactly as many points
            # are loaded as the field has components (the shapes (points,) and (components,) coincide)
            pts = np.sort(rng.choice(len(X), size=d, replace=False))
            one_d = True
            vals = np.tile(rng.uniform(-1, 1, d), (d, 1))
            rec.label("one-load-vector-for-as-many-points-as-components")
        kw = {"apply_on": apply_on} if apply_on else {}
        ids = pts
        # the selection of points in the styles numpy indexing accepts: ids as array / list / from the end, or a boolean point mask
        style = (c["lseed"] // 6 + len(X) + len(pts)) % 5
        listed = ids
        if style == 4 and not one_d:
            # ids listed in descending order: row i of the values belongs to the i-th LISTED point
            listed = ids[::-1].copy()
            pts = listed
            rec.label("points-listed-in-descending-order")
        if style == 1:
            pts = [int(p_) for p_ in ids]
        elif style == 2:
            pts = ids - len(X)
            rec.label("points-counted-from-the-end")
        elif style == 3:
            pts = np.zeros(len(X), bool)
            pts[ids] = True
            rec.label("points-as-boolean-mask")
        vgiven = vals[0].tolist() if one_d else vals
        if c["preload"]:
            it = fem.PointLoad(fc, points=pts, values=rng.uniform(-1, 1, (len(ids), d)), axisymmetric=axi, **kw)
            it.assemble.vector(fc)
            it.update(vgiven)
            rec.label("updated-values")
        else:
            it = fem.PointLoad(fc, points=pts, values=vgiven, axisymmetric=axi, **kw)
        r = np.asarray(it.assemble.vector(fc).toarray()).ravel()
        ref = np.zeros((len(X), d))
        pts = listed
        ref[pts] = vals * (2 * np.pi * X[pts, 1:2] if axi else 1.0)
        off = int(sum(fc.fieldsizes[:apply_on]))
        n0 = ref.size
        rec.nontrivial = True
        rec.require("vector-length", r.size == sum(fc.fieldsizes), [r.size, int(sum(fc.fieldsizes))])
        rec.close("pointload=values", float(np.abs(r[off : off + n0].reshape(-1, d) - ref).max()), 1e-14, {"apply_on": apply_on})
        rest = np.concatenate([r[:off], r[off + n0 :]])
        rec.close("other-fields-zero", float(np.abs(rest).max()) if rest.size else 0.0, 0.0)
        return
    if ax.startswith("pressure"):
        btmpl = {"hexahedron": "RegionHexahedronBoundary", "hexahedron20": "RegionQuadraticHexahedronBoundary", "hexahedron27": "RegionTriQuadraticHexahedronBoundary",
                 "quad": "RegionQuadBoundary", "quad8": "RegionQuadraticQuadBoundary", "quad9": "RegionBiQuadraticQuadBoundary"}[spec["kind"]]
        kw = {}
        if c["mask"]:
            kw["mask"] = X[:, 0] >= np.median(X[:, 0])
        rb = getattr(fem, btmpl)(mesh, ensure_3d=(dim == 2), **kw)
        if rb.mesh.ncells == 0:
            rec.reject("empty selection")
            return
        fb = fem.FieldPlaneStrain(rb, dim=2) if kind == "planestrain" else (fem.FieldAxisymmetric(rb, dim=2) if axi else fem.Field(rb, dim=dim))
        fc = fem.FieldContainer([fb])
        c01.set_state(fc, X, c, dim)
        # validity of the deformed volume mesh
        fvol = fem.FieldContainer([fem.Field(region, dim=dim, values=fb.values.copy())])
        Fm = np.moveaxis(np.asarray(fvol.extract()[0]), (0, 1), (-2, -1))
        if np.linalg.det(Fm).min() < 0.3:
            rec.reject("det F < 0.3")
            return
        p = c["load"] + 2.5
        if c["preload"]:
            # the load lives on its own (undeformed) boundary container; the current state comes with the solid's container
            # handed to assemble.vector(field)
            fb0 = fem.FieldPlaneStrain(rb, dim=2) if kind == "planestrain" else (fem.FieldAxisymmetric(rb, dim=2) if axi else fem.Field(rb, dim=dim))
            it = fem.SolidBodyPressure(fem.FieldContainer([fb0]), pressure=p)
            it.assemble.vector()
            fstate = fem.FieldContainer([vfield()])
            fstate[0].values[...] = fb.values
            r = np.asarray(it.assemble.vector(fstate).toarray()).ravel().reshape(-1, fb.dim)
            rec.label("state-from-foreign-container")
        elif c["lseed"] % 2:
            # the pressure is handed over with the call (what a ramped step does through update() / the keyword)
            it = fem.SolidBodyPressure(fc, pressure=0.37 * p - 1.0)
            it.assemble.vector(fc)
            r = np.asarray(it.assemble.vector(fc, pressure=p).toarray()).ravel().reshape(-1, fb.dim)
            rec.label("pressure-keyword")
        elif c["lseed"] % 4 == 0:
            # a ramped item on its own container: created at the undeformed state with another pressure; the state then changes in
            # place and the new pressure arrives through update() (a re-initialisation on the item's container), followed by an
            # assembly without arguments
            target = fb.values.copy()
            fb.values[...] = 0
            it = fem.SolidBodyPressure(fc, pressure=0.37 * p - 1.0)
            it.assemble.vector()
            fb.values[...] = target
            it.update(p)
            r = np.asarray(it.assemble.vector().toarray()).ravel().reshape(-1, fb.dim)
            rec.label("state-changed-in-place,-pressure-through-update()")
        else:
            it = fem.SolidBodyPressure(fc, pressure=p)
            r = np.asarray(it.assemble.vector(fc).toarray()).ravel().reshape(-1, fb.dim)
        # independent current area vectors: boundary region of the deformed mesh copy
        md = mesh.copy()
        md.update(points=X + fb.values[:, :dim])
        rbd = getattr(fem, btmpl)(md, **kw)
        da = np.asarray(rbd.dA)
        rec.nontrivial = mesh.ncells >= 2
        if axi:
            # per unit revolution: integral of 2 pi r n da ; only the axial resultant is meaningful
            Rq = fem.Field(rbd, dim=dim, values=np.array(md.points)).interpolate()[1]
            ref = -p * (2 * np.pi * Rq * da[0]).sum()
            tot = float(np.abs(2 * np.pi * Rq * np.abs(da).sum(0)).sum())
            rec.close("axial-pressure-resultant", abs(r[:, 0].sum() - ref) / max(abs(p) * tot, 1e-12), 1e-10)
        else:
            ref = -p * da.sum(axis=(1, 2))
            tot = float(np.linalg.norm(da, axis=0).sum())
            rec.close("pressure-resultant=-p*sum(da)", float(np.abs(r.sum(0) - ref[: r.shape[1]]).max()) / (abs(p) * tot), 1e-10)
            if not c["mask"]:
                rec.close("closed-surface-resultant=0", float(np.abs(r.sum(0)).max()) / (abs(p) * tot), 1e-10)
        # the load switched off with the call (pressure=0.0 handed over after a non-zero level): nothing is assembled
        r_off = np.asarray(it.assemble.vector(fc, pressure=0.0).toarray()).ravel()
        rec.close("vector(pressure=0.0)=0-after-a-non-zero-level", float(np.abs(r_off).max()) / max(abs(p) * float(np.abs(da).sum()), 1e-300), 0.0)
        return
    if ax.startswith("mass"):
        if kind == "mixed":
            fc = fem.FieldsMixed(region, n=2) if spec["kind"] in ("hexahedron", "quad") else fem.FieldsMixed(region, n=3)
        elif axi:
            fc = fem.FieldContainer([fem.FieldAxisymmetric(region, dim=2)])
        else:
            fc = fem.FieldContainer([fem.Field(region, dim=dim)])
        rho = case["density"]
        um = fem.NeoHooke(mu=1.0, bulk=2.0) if dim == 3 or axi else fem.constitution.LinearElasticPlaneStrain(E=1.0, nu=0.3)
        if kind == "mixed":
            um = fem.ThreeFieldVariation(fem.NeoHooke(mu=1.0, bulk=2.0)) if len(fc.fields) == 3 else None
        if um is None:
            rec.reject("no two-field material")
            return
        variant = c["lseed"] % 3
        if kind == "nearlyinc":
            # the condensed nearly-incompressible body carries its own mass method
            mk = lambda **kw: fem.SolidBodyNearlyIncompressible(fem.NeoHooke(mu=1.0) if dim == 3 else um, fc, bulk=20.0, **kw)  # noqa
            if dim != 3:
                rec.reject("condensed body: 3-d only here")
                return
        else:
            mk = lambda **kw: fem.SolidBody(um, fc, **kw)  # noqa
        if variant == 0:
            body = mk(density=rho)
            M = body.assemble.mass()
        elif variant == 1:
            body = mk()
            M = body.assemble.mass(density=rho)
        else:
            # a density handed to mass() takes precedence over the one stored in the body
            body = mk(density=2.5 * rho + 0.3)
            M = body.assemble.mass(density=rho)
        rec.label(("stored-density", "density-argument", "argument-overrides-stored-density")[variant])
        if c["lseed"] % 2:
            # asked a second time with another density: the matrix is that of the density of this call
            M_first = np.asarray(M.toarray()).copy()
            rho = 0.5 * rho + 0.7
            M = body.assemble.mass(density=rho)
            rec.label("second-call-with-another-density")
        M = np.asarray(M.toarray())
        n0 = fc.fields[0].values.size
        rec.require("mass-shape", M.shape == (n0, n0), M.shape)
        V = volume_of(region, fc.fields[0] if axi else None)  # axisymmetric: mass of the revolved body
        rec.nontrivial = mesh.ncells >= 2
        rec.close("mass-symmetric", float(np.abs(M - M.T).max()) / float(np.abs(M).max()), 1e-14)
        w = np.linalg.eigvalsh(0.5 * (M + M.T))
        rec.close("mass-positive-semidefinite", max(0.0, float(-w.min())) / float(w.max()), 1e-12)
        for i in range(dim):
            e = np.zeros((len(X), dim))
            e[:, i] = 1
            rec.close("total-mass=rho*V", abs(e.ravel() @ M @ e.ravel() - rho * V) / (rho * V), 1e-11)
            j = (i + 1) % dim
            e2 = np.zeros((len(X), dim))
            e2[:, j] = 1
            rec.close("no-coupling-between-directions", abs(e.ravel() @ M @ e2.ravel()) / (rho * V), 1e-12)
        return
    if ax in ("mpc", "contact"):
        cc = dict(c)
        cc["mesh"] = spec
        fc = fem.FieldContainer([fem.Field(region, dim=dim)])
        c01.set_state(fc, X, c, dim)
        npts = len(X)
        pts = rng.choice(np.arange(1, npts), size=min(4, npts - 1), replace=False)
        if c["lseed"] % 3 == 0:
            # the reference (centre) point is an ordinary mesh point that is also in the list of coupled points, e.g. a
            # whole face selected by a mask with one of its points as the reference
            pts = np.append(pts[:-1], 0)
            rec.label("centre-point-among-the-points")
        skip = tuple(c["skip"][:dim]) if not all(c["skip"][:dim]) else (False,) * dim
        skip = skip + (False,) * (3 - len(skip))
        if ax == "mpc":
            it = fem.MultiPointConstraint(fc, points=pts, centerpoint=0, skip=skip, multiplier=c["mult"])
        else:
            it = fem.MultiPointContact(fc, points=pts, centerpoint=0, skip=skip, multiplier=c["mult"])
            u = fc.fields[0].values
            u[pts] += (X[0] - X[pts]) * rng.uniform(0.5, 1.5, (len(pts), 1))  # push some points through the wall
        r = np.asarray(it.assemble.vector(fc).toarray()).ravel().reshape(-1, dim)
        rec.nontrivial = float(np.abs(r).max()) > 0
        sc = max(float(np.abs(r).max()), 1e-12) * len(pts)
        rec.close("constraint-forces-self-equilibrated", float(np.abs(r.sum(0)).max()) / sc, 1e-12)
        other = np.ones(npts, bool)
        other[pts] = False
        other[0] = False
        rec.close("forces-only-on-connected-points", float(np.abs(r[other]).max()) if other.any() else 0.0, 0.0)
        act = ~np.array(skip[:dim], bool)
        rec.close("skipped-axes-force-free", float(np.abs(r[:, ~act]).max()) if (~act).any() else 0.0, 0.0)
        if ax == "mpc":
            u = fc.fields[0].values
            ref = np.zeros_like(r)
            N = c["mult"] * (u[0] - u[pts])
            N[:, ~act] = 0
            ref[pts] = -N
            ref[0] = N.sum(0)
            rec.close("mpc-forces=multiplier*relative-displacement", float(np.abs(r - ref).max()) / sc, 1e-12)
        return
    raise KeyError(ax)


FAMILIES = [Family("balance", AXIS, check, strategy=strategy, n={"quick": 10, "thorough": 1000}, chunk=10, weight=2)]

LEVEL_TEXT = (
    "All balance clauses x field kinds enumerated; Hypothesis draws meshes, deformed states, objective materials and "
    "load data; resultants are compared with closed forms / explicit sums and with an independently integrated "
    "current area vector."
)
LEVEL_NOTE = "volume and boundary regions (C06, C13) provide V and the current area vectors; tolerance 1e-10 relative"
TECHNIQUE = "property-based testing (Hypothesis) with conservation-law oracles (force / moment balance, load resultants)"
