"""C11 - finite-strain material models obey frame indifference and basic balance laws."""
import itertools

import numpy as np
from hypothesis import strategies as st

from vf.core import Family
from vf.gen import materials as gmat

PROPERTY = "C11"
RULE = (
    "finite axis = every finite-strain registry model (hand-coded Neo-Hookean family, volumetric, pseudo-elastic, all "
    "tensortrax / jax energies, total / updated Lagrange wrappers, MORPH, micro-sphere, orthotropic SVK); Hypothesis "
    "draws parameters, F = R U, a pre-history for the stored state, and two rotations (axis-angle with angle >= 10 deg "
    "or one of the 24 cube rotations). Oracle: P(RF) = R P(F), P F^T symmetric, P(I, virgin) = 0, major symmetry of A "
    "(hyperelastic), P(FQ) = P(F) Q for invariant / stretch based models (micro-sphere and orthotropic models "
    "excluded from this clause). Non-trivial: rotation angle >= 10 deg and F neither symmetric nor diagonal."
)
ASSUMPTIONS = [
    "tolerance 1e-9 relative (spectral models 1e-5: backend eigenvalue perturbation; regularised models: stress at I below 5e-4 of the initial stiffness)",
    "isotropy of history models is tested with scalar / virgin states only (tensor-valued states would have to be rotated as well)",
]

CUBE = []
for perm in itertools.permutations(range(3)):
    for signs in itertools.product([1, -1], repeat=3):
        M = np.zeros((3, 3))
        for i, (p, s) in enumerate(zip(perm, signs)):
            M[i, p] = s
        if np.linalg.det(M) > 0:
            CUBE.append(M)


def st_rot():
    return st.one_of(
        st.fixed_dictionaries({"kind": st.just("cube"), "i": st.integers(1, 23)}),
        st.fixed_dictionaries({"kind": st.just("aa"), "axis": st.lists(st.floats(-1, 1).map(lambda v: round(v, 3)), min_size=3, max_size=3),
                               "angle": st.floats(10, 350).map(lambda v: round(v, 2))}),
    )


def rot(r):
    if r["kind"] == "cube":
        return CUBE[r["i"]]
    a = np.array(r["axis"], float)
    if np.linalg.norm(a) < 0.1:
        a = np.array([1.0, 2.0, 3.0])
    k = a / np.linalg.norm(a)
    K = np.array([[0, -k[2], k[1]], [k[2], 0, -k[0]], [-k[1], k[0], 0]])
    t = np.deg2rad(r["angle"])
    return np.eye(3) + np.sin(t) * K + (1 - np.cos(t)) * K @ K


def strategy(name, tier):
    e = gmat.REG[name]
    batches = ((2, 2),) if e["backend"] == "jax" else ((1, 1), (2, 3), (1, 4))
    return st.fixed_dictionaries({"params": e["params"], "F": gmat.st_Fcase(batches), "R": st_rot(), "Q": st_rot()})


def check(name, case, rec):
    e = gmat.REG[name]
    um = gmat.build(name, case["params"])
    rng = np.random.default_rng(case["F"]["fseed"])
    batch = tuple(case["F"]["batch"])
    Qc = gmat.coaxial_Q(case["F"], batch) if e["nstate"] else None
    F = gmat.make_F(rng, batch, e["lam"], sep=True, Q=Qc)
    sv0 = gmat.virgin_state(name, batch)
    sv = sv0
    if e["nstate"]:
        sv = gmat.drive_history(name, um, sv0, F, case["F"]["hist"], batch, e["lam"], Q=Qc)
    noarg = e["nstate"] == 0 and e["backend"] != "hand"

    # hand-coded laws take out=: every second case evaluates them the way SolidBody does, handing the arrays of the
    # previous evaluation back as output buffers
    import inspect

    reuse = e["backend"] == "hand" and case["F"]["fseed"] % 2 == 1 and "out" in inspect.signature(um.gradient).parameters
    bufs = {}
    if reuse:
        rec.label("reused-out-buffers")

    def P_of(F_, s=None):
        s = sv if s is None else s
        kw = {}
        if reuse:
            kw["out"] = bufs.setdefault("P", np.full((3, 3) + batch, 0.7))
        return np.array(um.gradient([np.ascontiguousarray(F_), None if noarg else s.copy()], **kw)[0], dtype=float).copy()

    def A_of(F_, s=None):
        s = sv if s is None else s
        kw = {}
        if reuse:
            kw["out"] = bufs.setdefault("A", np.full((3, 3, 3, 3) + batch, 0.7))
        return np.array(um.hessian([np.ascontiguousarray(F_), None if noarg else s.copy()], **kw)[0], dtype=float).copy()

    R, Q = rot(case["R"]), rot(case["Q"])
    sym_off = float(np.abs(F - np.swapaxes(F, 0, 1)).max())
    rec.nontrivial = sym_off > 1e-3
    P = P_of(F)
    A = A_of(F)
    sc = max(float(np.abs(P).max()), 1e-3 * float(np.abs(A).max()))
    tol = 1e-5 if (e["spectral"] or e["micro"]) else 1e-9
    morph = "morph" in name
    if morph:
        tol = 1e-6
    if e["reg"]:
        # documented backend regularisation (eigenvalues perturbed by delta = 1e-4): deviations up to 20 delta of the stiffness
        # ... or of the un-projected principal stress scale where the model cancels large principal terms (gmat.reg_scale)
        tol = 20 * e["reg"] * max(float(np.abs(A).max()), gmat.reg_scale(name, case["params"])) / sc
    tag = ""
    if e["nstate"]:
        tag = ("@history-coaxial" if Qc is not None else "@history") if not np.array_equal(sv, sv0) else "@virgin"
    # objectivity
    PR = P_of(np.einsum("ij,jk...->ik...", R, F))
    rec.close("objectivity P(RF)=R P(F)" + tag, float(np.abs(PR - np.einsum("ij,jk...->ik...", R, P)).max()) / sc, tol, {"params": case["params"]})
    if e["nstate"] and "lagrange" not in name:
        # the state variables of the C-based model classes live in the reference configuration: the new state of a step does not
        # see a superposed rotation either (otherwise the NEXT step would break objectivity although every single call keeps it)
        s_new = np.asarray(um.gradient([np.ascontiguousarray(F), sv.copy()])[-1], float)
        s_rot = np.asarray(um.gradient([np.ascontiguousarray(np.einsum("ij,jk...->ik...", R, F)), sv.copy()])[-1], float)
        rec.close("objectivity new-state(RF)=new-state(F)" + tag, float(np.abs(s_rot - s_new).max()) / max(float(np.abs(s_new).max()), 1e-3), 100 * tol, {"params": case["params"]})
    # symmetric Kirchhoff stress
    tau = np.einsum("ij...,kj...->ik...", P, F)
    rec.close("kirchhoff-symmetric" + tag, float(np.abs(tau - np.swapaxes(tau, 0, 1)).max()) / max(float(np.abs(tau).max()), sc), tol)
    # stress free reference state
    I = np.eye(3).reshape(3, 3, 1, 1) * np.ones((1, 1) + batch)
    P0 = P_of(I, sv0)
    A0 = A_of(I, sv0)
    # measured against the stiffness - that of the reference state, but not more than ten times that of the deformed state of this
    # case (a tangent that blows up at F = 1, e.g. a non-symmetric function of regularised equal eigenvalues, is no yardstick)
    den0 = min(float(np.abs(A0).max()), 10.0 * float(np.abs(A).max()))
    rec.close("stress-free-at-I", float(np.abs(P0).max()) / den0, 20 * e["reg"] if e["reg"] else (1e-6 if (e["spectral"] or morph) else 1e-9), {"params": case["params"]})
    # major symmetry
    if e["hyper"]:
        Ab = np.broadcast_to(A, (3, 3, 3, 3) + batch)
        rec.close("A-major-symmetry", float(np.abs(Ab - np.transpose(Ab, (2, 3, 0, 1, 4, 5))).max()) / float(np.abs(A).max()),
                  1e-6 if (e["spectral"] or e["reg"]) else 1e-9)
    # isotropy
    if e["iso"]:
        s_iso = sv if e["nstate"] <= 1 else sv0
        PQ = P_of(np.einsum("ij...,jk->ik...", F, Q), s_iso)
        Pb = P_of(F, s_iso)
        rec.close("isotropy P(FQ)=P(F)Q", float(np.abs(PQ - np.einsum("ij...,jk->ik...", Pb, Q)).max()) / max(float(np.abs(Pb).max()), sc), tol, {"params": case["params"]})
    rec.label("rot=" + case["R"]["kind"])
    if e["nstate"]:
        rec.label("non-virgin" if not np.array_equal(sv, sv0) else "virgin")


FAMILIES = [Family("frame", [n for n in gmat.NAMES if gmat.REG[n]["finite"]], check, strategy=strategy, n={"quick": 6, "thorough": 150}, chunk=75, weight=2)]

LEVEL_TEXT = (
    "Every finite-strain model enumerated; Hypothesis draws parameters, deformation gradients, stored states and "
    "rotations (incl. the 24 cube rotations); objectivity, symmetric Kirchhoff stress, stress-free reference state, "
    "major symmetry and isotropy are metamorphic / algebraic relations checked to round-off."
)
LEVEL_NOTE = "no reference implementation needed: relations between outputs of the same model under transformed inputs; jax in x64 mode"
TECHNIQUE = "property-based testing (Hypothesis) with metamorphic relations (rotation of the current / reference configuration)"
