"""C19 - projection and post-processing return the quantities they name."""
import numpy as np
from hypothesis import strategies as st

from vf.core import Family, import_felupe
from vf.gen import materials as gmat
from vf.gen import meshes as gm

PROPERTY = "C19"
RULE = (
    "finite axis = operation x region template: project (all templates with a sufficient rule: hexahedron 8/20/27, "
    "quad 4/8/9, triangle / tetra with order-2 rules, quadratic simplices and MINI with order-5 rules, Lagrange), "
    "extrapolate (Gauss-Legendre quad / hexahedron regions), topoints (average / mean flags, regions with as many and with more quadrature points than cell points), stress evaluation "
    "(Kirchhoff, Cauchy on 3-D / plane-strain / axisymmetric bodies), ViewSolid / ViewField cell data, boundary force "
    "and moment. Hypothesis draws the mesh (distorted, graded, affine-mapped), nodal field values, arbitrary "
    "quadrature-point data of tensor order 0-2, deformation states and materials. Oracle: nodal values of the "
    "region's own space, preserved volume integral, explicit loops over attached (cell, local-node) pairs, P F^T and "
    "P F^T / det F recomputed from the field, quadrature means in Voigt order, explicit sums over boundary points. "
    "Non-trivial: non-constant field, >= 2 cells sharing points, tensor order >= 1."
    " family 'saved-stress': the Cauchy stress written by tools.save; stresses are requested after an in-place field change in a drawn order; moments of plane problems."
    ' Family view-2d (bodies on plain two-component fields: Voigt means, von Mises stress of the tensor embedded in 3-d); cell means on the disconnected mesh; force of fields with another number of components; Fortran-ordered values; a point without cells.'
)
ASSUMPTIONS = [
    "projection is generated only for regions whose rule makes the mass matrix regular (documented: triangle / tetra need order 2, quadratic simplices and MINI order 5)",
    "extrapolation reproduces multilinear fields on affine cells and linear fields on distorted cells",
    "tools.moment is exercised on 3-D fields (the 2-D cross product raises under NumPy >= 2)",
]

PROJ = ["hexahedron", "hexahedron20", "hexahedron27", "quad", "quad8", "quad9", "triangle", "tetra", "triangle6", "tetra10", "triangle-mini", "tetra-mini",
        "lagrange-quad-2", "lagrange-quad-3", "lagrange-hex-2"]


def fl(lo, hi, nd=3):
    return st.floats(lo, hi, allow_nan=False).map(lambda v: round(v, nd))


def region_for(fem, kind, mesh, info):
    q = None
    if kind == "triangle":
        q = fem.TriangleQuadrature(order=2)
    elif kind == "tetra":
        q = fem.TetrahedronQuadrature(order=2)
    elif kind in ("triangle6", "triangle-mini"):
        q = fem.TriangleQuadrature(order=5)
    elif kind in ("tetra10", "tetra-mini"):
        q = fem.TetrahedronQuadrature(order=5)
    return gm.region(mesh, info, quadrature=q) if q is not None else gm.region(mesh, info)


def proj_strategy(kind, tier):
    return st.fixed_dictionaries({"mesh": gm.st_mesh(kind, tier, max_n=3, curved=kind not in ("tetra10", "lagrange-hex-2", "hexahedron20", "hexahedron27")),
                                  "seed": st.integers(0, 2**32 - 1), "order": st.integers(0, 2), "dim": st.integers(1, 3)})


def tshape(order, d):
    return {0: (), 1: (d,), 2: (d, d)}[order]


def proj_check(kind, case, rec):
    fem = import_felupe()
    mesh, info = gm.build(case["mesh"])
    if (case["seed"] + case["dim"]) % 3 == 1:
        # the same part in another length unit (a millimetre-sized part described in metres): projection does not depend on it
        mesh = mesh.copy()
        mesh.update(points=np.asarray(mesh.points) * 2e-3)
        rec.label("length-unit=2e-3")
    region = region_for(fem, kind, mesh, info)
    rng = np.random.default_rng(case["seed"])
    d = case["dim"]
    ts = tshape(case["order"], d)
    size = int(np.prod(ts)) if ts else 1
    npts = mesh.npoints
    rec.nontrivial = mesh.ncells >= 2 and case["order"] >= 1
    used = np.zeros(npts, bool)
    used[np.unique(mesh.cells)] = True
    vals = rng.standard_normal((npts, size))
    if kind.endswith("mini"):
        pass  # the bubble unknown is part of the region's own space as well
    f = fem.Field(region, dim=size, values=vals)
    vq = f.interpolate()  # (size, q, c)
    vq_t = vq.reshape(ts + vq.shape[1:])
    proj = np.asarray(fem.project(vq_t, region))
    rec.require("project-shape", proj.shape == (npts,) + ts, [proj.shape, (npts,) + ts])
    if proj.shape == (npts,) + ts:
        rec.close("project-own-space=nodal-values", float(np.abs(proj.reshape(npts, size) - vals)[used].max()), 1e-8, {"kind": kind, "order": case["order"]})
        # the same values in column-major memory order (a transposed view, data read from a Fortran-ordered file): same result
        proj_f = np.asarray(fem.project(np.asfortranarray(vq_t), region))
        rec.close("project(Fortran-ordered values)=project(values)", float(np.abs(proj_f - proj).max()) if proj_f.shape == proj.shape else float("inf"), 1e-12)
    # caller-supplied differential volumes (e.g. 2 pi R dA or J dV): both sides of the projection use them, own-space values
    # are reproduced for any positive weights and the weighted integral is preserved
    wdv = np.asarray(region.dV) * rng.uniform(0.5, 2.0, np.asarray(region.dV).shape)
    pw_ = np.asarray(fem.project(vq_t, region, dV=wdv))
    if pw_.shape == (npts,) + ts:
        rec.close("project(dV=w)-own-space=nodal-values", float(np.abs(pw_.reshape(npts, size) - vals)[used].max()), 1e-8, {"kind": kind})
    # average=False: values on the disconnected mesh (one set of nodal values per cell, no averaging across cells)
    if not kind.endswith("mini"):
        pd_ = np.asarray(fem.project(vq_t, region, average=False))
        cells = np.asarray(mesh.cells)
        ref = vals[cells].reshape((cells.size,) + ts)
        rec.require("project(average=False)-shape", pd_.shape == ref.shape, [pd_.shape, ref.shape])
        if pd_.shape == ref.shape:
            rec.close("project(average=False)=per-cell-nodal-values", float(np.abs(pd_ - ref).max()), 1e-8, {"kind": kind})
    # arbitrary data: the volume integral is preserved
    w = rng.standard_normal(ts + region.dV.shape)
    pw = np.asarray(fem.project(w, region)).reshape(npts, size)
    i1 = (w.reshape((size,) + region.dV.shape) * region.dV).sum(axis=(1, 2))
    i2 = (fem.Field(region, dim=size, values=pw).interpolate() * region.dV).sum(axis=(1, 2))
    rec.close("project-preserves-integral", float(np.abs(i1 - i2).max()) / max(float(np.abs(w).max() * region.dV.sum()), 1e-12), 1e-10)
    # mean=True: cell means (quadrature-weight averages), averaged over the attached cells at each point
    pm = np.asarray(fem.project(w, region, mean=True)).reshape(npts, size)
    wq = np.asarray(region.quadrature.weights)
    cm = (w.reshape((size,) + region.dV.shape) * wq[None, :, None]).sum(1) / wq.sum()  # (size, c)
    acc = np.zeros((npts, size))
    cnt = np.zeros(npts)
    for c, cell in enumerate(np.asarray(mesh.cells)):
        for p in cell:
            acc[p] += cm[:, c]
            cnt[p] += 1
    ref = acc[used] / cnt[used][:, None]
    rec.close("project-mean=cell-means", float(np.abs(pm[used] - ref).max()), 1e-12)
    # mean=True without averaging: every point of a cell carries the mean of that cell, in the order of the disconnected mesh
    pmd = np.asarray(fem.project(w, region, average=False, mean=True))
    cells_ = np.asarray(mesh.cells)
    refd = np.repeat(cm.T, cells_.shape[1], axis=0)  # (cells * points per cell, size)
    ok_ = rec.require("project(mean=True, average=False)-shape", pmd.size == refd.size and pmd.shape[0] == cells_.size, [pmd.shape, refd.shape])
    if ok_:
        rec.close("project(mean=True, average=False)=cell-mean-at-every-point-of-the-cell", float(np.abs(pmd.reshape(refd.shape) - refd).max()), 1e-12)
    # simplex regions with their DEFAULT rule: a one-point rule is replaced by a sufficient one (cell-wise constant data), a
    # rule with several but too few points is refused (documented ValueError)
    if kind in ("triangle", "tetra", "triangle6", "tetra10", "triangle-mini", "tetra-mini"):
        rdef = gm.region(mesh, info)
        nqd = rdef.quadrature.npoints
        wd = rng.standard_normal(ts + (nqd, mesh.ncells))
        if nqd == 1:
            rec.label("one-point-default-rule")
            pd1 = np.asarray(fem.project(wd, rdef)).reshape(npts, size)
            pint = fem.Field(region, dim=size, values=pd1).interpolate()  # (size, q, c) on the sufficient rule
            res = pint - wd.reshape(size, 1, mesh.ncells)
            # L2 projection: the residual is orthogonal to every shape function
            hq = np.asarray(region.h)
            hq = np.broadcast_to(hq, hq.shape[:2] + (mesh.ncells,))
            orth = np.zeros((npts, size))
            cells_ = np.asarray(mesh.cells)
            loc = np.einsum("aqc,sqc,qc->sac", hq, res, np.asarray(region.dV))
            for a_ in range(cells_.shape[1]):
                np.add.at(orth, cells_[:, a_], loc[:, a_, :].T)
            rec.close("project(one-point rule)-residual-orthogonal-to-the-basis", float(np.abs(orth).max()) / max(float(np.abs(wd).max() * region.dV.sum()), 1e-12), 1e-10)
        elif nqd < region.quadrature.npoints:
            try:
                fem.project(wd, rdef)
                rec.require("project(too-few-points)-is-refused", False, {"points": nqd})
            except ValueError:
                rec.label("low-order-rule-refused")


# ---------------------------------------------------------------------------------------------------------------
def ext_strategy(kind, tier):
    return st.fixed_dictionaries({"mesh": gm.st_mesh(kind, tier, max_n=3, curved=False), "seed": st.integers(0, 2**32 - 1), "order": st.integers(0, 2),
                                  "average": st.booleans()})


def ext_check(kind, case, rec):
    fem = import_felupe()
    mesh, info = gm.build(case["mesh"])
    rng = np.random.default_rng(case["seed"])
    dim = info["dim"]
    if case["seed"] % 3 == 1:
        # a point without cells somewhere in the numbering (a control point): the averages at the other points do not see it
        P0 = np.asarray(mesh.points)
        k_ = int(rng.integers(0, len(P0)))
        C0 = np.asarray(mesh.cells)
        mesh = fem.Mesh(np.insert(P0, k_, P0.mean(0), axis=0), np.where(C0 >= k_, C0 + 1, C0), mesh.cell_type)
        rec.label("mesh-with-a-point-without-cells")
    region = gm.region(mesh, info)
    X = np.array(mesh.points)
    used = np.zeros(len(X), bool)
    used[np.unique(np.asarray(mesh.cells))] = True
    ts = tshape(case["order"], 2)
    size = int(np.prod(ts)) if ts else 1
    affine = case["mesh"]["jitter"] == 0
    Y = X - X.mean(0)
    # multilinear on affine (axis-parallel or affinely mapped) cells is reproduced only if the cell map is affine and the
    # field is multilinear in the REFERENCE coordinates: use products of the un-mapped coordinates for grids, linear else
    vals = 1 + Y @ rng.standard_normal((dim, size))
    if affine and case["mesh"]["affine"] is None:
        prod = np.prod(Y, axis=1, keepdims=True)
        vals = vals + prod * rng.standard_normal((1, size))
        rec.label("multilinear")
    else:
        rec.label("linear")
    f = fem.Field(region, dim=size, values=vals)
    vq = f.interpolate().reshape(ts + region.dV.shape)
    rec.nontrivial = mesh.ncells >= 2
    if case["average"]:
        ex = np.asarray(fem.tools.extrapolate(vq, region)).reshape(len(X), size)
        rec.close("extrapolate=nodal-values", float(np.abs(ex - vals)[used].max()) / max(1.0, float(np.abs(vals).max())), 1e-10)
    else:
        ex = np.asarray(fem.tools.extrapolate(vq, region, average=False)).reshape(-1, size)
        ref = vals[np.asarray(mesh.cells).ravel()]
        rec.close("extrapolate(average=False)=disconnected-nodal-values", float(np.abs(ex - ref).max()) / max(1.0, float(np.abs(vals).max())) if ex.shape == ref.shape else float("inf"), 1e-10)
    # topoints
    w = rng.standard_normal(ts + region.dV.shape)
    ppc = mesh.cells.shape[1]
    wt = w[..., :ppc, :] if w.shape[-2] > ppc else w
    tp = np.asarray(fem.topoints(w, region)).reshape(len(X), size)
    acc = np.zeros((len(X), size))
    cnt = np.zeros(len(X))
    ww = wt.reshape((size,) + wt.shape[-2:])
    for c, cell in enumerate(np.asarray(mesh.cells)):
        for a, p in enumerate(cell):
            acc[p] += ww[:, a, c]
            cnt[p] += 1
    cnt[~used] = 1.0  # (points without cells: nothing to average, not compared)
    rec.close("topoints=mean-over-attached-cells", float(np.abs(tp - acc / cnt[:, None])[used].max()), 1e-12)
    tpd = np.asarray(fem.topoints(w, region, average=False)).reshape(-1, size)
    refd = np.array([ww[:, a, c] for c in range(mesh.ncells) for a in range(ppc)])
    rec.close("topoints(average=False)=disconnected-order", float(np.abs(tpd - refd).max()) if tpd.shape == refd.shape else float("inf"), 0.0)
    tpm = np.asarray(fem.topoints(w, region, mean=True)).reshape(len(X), size)
    wq = np.asarray(region.quadrature.weights)
    cm = (w.reshape((size,) + region.dV.shape) * wq[None, :, None]).sum(1) / wq.sum()
    acc = np.zeros((len(X), size))
    for c, cell in enumerate(np.asarray(mesh.cells)):
        for p in cell:
            acc[p] += cm[:, c]
    rec.close("topoints(mean=True)=cell-means", float(np.abs(tpm - acc / cnt[:, None])[used].max()), 1e-12)
    # a rule with more points than the cell has nodes (over-integration): documented as "trimmed to the number of points per
    # cell" - the FIRST points-per-cell columns are shifted to the cell's points, in the order of the connectivity
    order_hi = {"quad": 2, "hexahedron": 2, "quad9": 3, "hexahedron27": 3}[kind]
    region_hi = type(region)(mesh, quadrature=fem.GaussLegendre(order=order_hi, dim=dim))
    w_hi = rng.standard_normal(ts + region_hi.dV.shape)
    rec.require("over-integrated-rule-has-more-points", w_hi.shape[-2] > ppc, w_hi.shape[-2])
    wh = w_hi[..., :ppc, :].reshape((size,) + (ppc, mesh.ncells))
    tph = np.asarray(fem.topoints(w_hi, region_hi)).reshape(len(X), size)
    acc = np.zeros((len(X), size))
    for c, cell in enumerate(np.asarray(mesh.cells)):
        for a, p in enumerate(cell):
            acc[p] += wh[:, a, c]
    rec.close("topoints(more-quadrature-points-than-cell-points)=mean-of-the-first-columns", float(np.abs(tph - acc / cnt[:, None])[used].max()), 1e-12)
    tphd = np.asarray(fem.topoints(w_hi, region_hi, average=False)).reshape(-1, size)
    refh = np.array([wh[:, a, c] for c in range(mesh.ncells) for a in range(ppc)])
    rec.close("topoints(more-quadrature-points,average=False)=first-columns", float(np.abs(tphd - refh).max()) if tphd.shape == refh.shape else float("inf"), 0.0)


# ---------------------------------------------------------------------------------------------------------------
STRESS = ["3d", "planestrain", "axisymmetric", "nearlyincompressible"]
SMATS = ["NeoHooke", "NeoHookeCompressible", "tt:yeoh", "tt:storakers", "LinearElasticLargeStrain"]


def stress_strategy(kind, tier):
    kinds = ["hexahedron", "tetra", "hexahedron20"] if kind in ("3d", "nearlyincompressible") else ["quad", "triangle", "quad8"]
    return st.fixed_dictionaries({"mesh": st.sampled_from(kinds).flatmap(lambda k: gm.st_mesh(k, tier, max_n=3, affine=(kind != "axisymmetric"), curved=False)),
                                  "mat": st.sampled_from(SMATS).flatmap(lambda n: st.fixed_dictionaries({"name": st.just(n), "params": gmat.REG[n]["params"]})),
                                  "seed": st.integers(0, 2**32 - 1), "amp": st.sampled_from([0.03, 0.1]), "view": st.sampled_from(["Cauchy", "Kirchhoff", None, "skip", "skip"])})


def stress_check(kind, case, rec):
    fem = import_felupe()
    spec = dict(case["mesh"])
    if kind == "axisymmetric":
        spec["a"] = [spec["a"][0], abs(spec["a"][1]) + 0.4]
    mesh, info = gm.build(spec)
    region = gm.region(mesh, info)
    dim = info["dim"]
    X = np.array(mesh.points)
    rng = np.random.default_rng(case["seed"])
    if kind == "planestrain":
        fld = fem.FieldPlaneStrain(region, dim=2)
    elif kind == "axisymmetric":
        fld = fem.FieldAxisymmetric(region, dim=2)
    else:
        fld = fem.Field(region, dim=dim)
    if dim == 2 and kind in ("3d", "nearlyincompressible"):
        fld = fem.FieldPlaneStrain(region, dim=2)
    fc = fem.FieldContainer([fld])
    H = case["amp"] * rng.uniform(-1, 1, (dim, dim))
    fld.values[...] = (X - X.mean(0)) @ H.T + 0.3 * case["amp"] * info["h"] * rng.uniform(-1, 1, X.shape)
    F = np.asarray(fc.extract()[0]).copy()
    J = np.linalg.det(np.moveaxis(F, (0, 1), (-2, -1)))
    if J.min() < 0.3:
        rec.reject("det F < 0.3")
        return
    if kind in ("3d", "planestrain", "axisymmetric"):
        # the default per-cell quantities a Job writes (helpers of felupe.mechanics._job): quadrature-point means
        import scipy.linalg as sl
        from felupe.mechanics import _job as J_

        Fm = F.mean(-2)  # (3 or dim, ., cells)
        if F.shape[0] == 3:
            got = np.asarray(J_.deformation_gradient(fc)[0])
            rec.close("job:deformation-gradient-cell-means", float(np.abs(got - Fm.transpose(2, 0, 1)).max()) if got.shape == Fm.transpose(2, 0, 1).shape else float("inf"), 1e-14)
            C_ = np.einsum("ki...,kj...->ij...", F, F)
            E_ = np.zeros_like(C_)
            for idx in np.ndindex(*C_.shape[2:]):
                E_[(slice(None), slice(None)) + idx] = 0.5 * sl.logm(C_[(slice(None), slice(None)) + idx]).real
            vs = np.stack([E_[0, 0], E_[1, 1], E_[2, 2], 2 * E_[0, 1], 2 * E_[1, 2], 2 * E_[0, 2]])
            got = np.asarray(J_.log_strain(fc)[0])
            rec.close("job:log-strain-cell-means(voigt)", float(np.abs(got - vs.mean(-2).T).max()) if got.shape == vs.mean(-2).T.shape else float("inf"), 1e-9)
            pe = np.linalg.eigvalsh(E_.transpose(2, 3, 0, 1))[..., ::-1].mean(0)
            got = np.asarray(J_.log_strain_principal(fc)[0])
            rec.close("job:principal-log-strain-cell-means", float(np.abs(got - pe).max()) if got.shape == pe.shape else float("inf"), 1e-9)
    um = gmat.build(case["mat"]["name"], case["mat"]["params"])
    if kind == "nearlyincompressible":
        solid = fem.SolidBodyNearlyIncompressible(fem.NeoHooke(mu=1.0), fc, bulk=20.0)
        solid.assemble.vector(fc)
        solid.assemble.vector(fc)
        P = np.asarray(solid.results.stress[0]).copy()
    else:
        # the solid is created and evaluated at another state first; the field is then changed in place, so that every
        # reported quantity has to be re-evaluated for the field handed over (the order of the three requests is drawn)
        target = fld.values.copy()
        fld.values[...] = -0.4 * target
        solid = fem.SolidBody(um, fc)
        solid.assemble.vector(fc)
        fld.values[...] = target
        P = np.asarray(um.gradient([F.copy(), None])[0], float).copy()
    tau = np.einsum("ij...,kj...->ik...", P, F)
    sig = tau / J
    sc = max(float(np.abs(tau).max()), 1e-9)
    rec.nontrivial = mesh.ncells >= 2
    order = [("kirchhoff", "cauchy", "stress"), ("cauchy", "stress", "kirchhoff"), ("stress", "kirchhoff", "cauchy")][case["seed"] % 3]
    rec.label("first-request=" + order[0])
    for what in order:
        if what == "kirchhoff":
            rec.close("kirchhoff=P F^T", float(np.abs(np.asarray(solid.evaluate.kirchhoff_stress(fc)) - tau).max()) / sc, 1e-11, {"material": case["mat"]["name"], "first": order[0]})
        elif what == "cauchy":
            rec.close("cauchy=P F^T/J", float(np.abs(np.asarray(solid.evaluate.cauchy_stress(fc)) - sig).max()) / sc, 1e-11, {"first": order[0]})
        elif kind != "nearlyincompressible":
            rec.close("stress=P", float(np.abs(np.asarray(solid.evaluate.gradient(fc)[0]) - P).max()) / sc, 1e-12, {"first": order[0]})
    if case["view"] != "skip" and kind != "nearlyincompressible":
        stype = case["view"]
        v = fem.ViewSolid(fc, solid=solid, stress_type=stype)
        cd = v.mesh.cell_data
        ref = {"Cauchy": sig, "Kirchhoff": tau, None: P}[stype]
        lab = f"{stype} Stress" if stype else "Stress"
        voigt = lambda T: np.stack([T[0, 0], T[1, 1], T[2, 2], T[0, 1], T[1, 2], T[0, 2]])  # noqa
        rec.require("view-labels", lab in cd and "Deformation Gradient" in cd and "Logarithmic Strain" in cd, list(cd.keys()))
        if lab in cd:
            rec.close("view:stress-cell-means(voigt)", float(np.abs(np.asarray(cd[lab]) - voigt(ref.mean(-2)).T).max()) / sc, 1e-11)
            pv = np.linalg.eigvalsh(0.5 * (ref + np.swapaxes(ref, 0, 1)).transpose(2, 3, 0, 1)) if stype else None
            if stype:
                rec.close("view:principal-stresses(pointwise-then-mean)", float(np.abs(np.asarray(cd[f"Principal Values of {lab}"]) - pv.mean(0)).max()) / sc, 1e-9)
                s = ref - np.trace(ref) / 3 * np.eye(3).reshape(3, 3, 1, 1)
                vm = np.sqrt(1.5 * (s * s).sum((0, 1)))
                rec.close("view:von-mises", float(np.abs(np.asarray(cd[f"Equivalent of {lab}"]).ravel() - vm.mean(0)).max()) / sc, 1e-9)
        if case["seed"] % 2 and lab in cd:
            # the same view with a projection to the points: point data = the named quantity shifted to the points
            vp = fem.ViewSolid(fc, solid=solid, stress_type=stype, project=fem.topoints)
            pdv = vp.mesh.point_data
            rec.require("view(project):point-labels", lab in pdv and lab not in vp.mesh.cell_data, list(pdv.keys()))
            if lab in pdv:
                refp = np.asarray(fem.topoints(voigt(ref), region))
                gotp = np.asarray(pdv[lab])
                rec.close("view(project):stress-at-points(voigt)", float(np.abs(gotp - refp).max()) / sc if gotp.shape == refp.shape else float("inf"), 1e-11)
        if "Deformation Gradient" in cd:
            Fc = np.asarray(cd["Deformation Gradient"]).reshape(-1, 3, 3)
            # a non-symmetric 3x3 cell tensor handed to pyvista is stored in VTK's column-major matrix convention: reading
            # the 9 components back row-major gives the transpose. Both readings are accepted (consistently for all cells).
            Fm = F.mean(-2).transpose(2, 0, 1)
            dev = min(float(np.abs(Fc - Fm).max()), float(np.abs(Fc - Fm.transpose(0, 2, 1)).max())) if Fc.shape == Fm.shape else float("inf")
            rec.close("view:deformation-gradient-cell-means", dev, 1e-12)
        if "Logarithmic Strain" in cd:
            import scipy.linalg as sl

            C = np.einsum("ki...,kj...->ij...", F, F)
            E = np.zeros_like(C)
            for idx in np.ndindex(*C.shape[2:]):
                E[(slice(None), slice(None)) + idx] = 0.5 * sl.logm(C[(slice(None), slice(None)) + idx]).real
            vs = np.stack([E[0, 0], E[1, 1], E[2, 2], 2 * E[0, 1], 2 * E[1, 2], 2 * E[0, 2]])
            rec.close("view:log-strain-cell-means(voigt)", float(np.abs(np.asarray(cd["Logarithmic Strain"]) - vs.mean(-2).T).max()), 1e-9)
            pe = np.linalg.eigvalsh(E.transpose(2, 3, 0, 1)).mean(0)
            got = np.sort(np.asarray(cd["Principal Values of Logarithmic Strain"]), axis=1)
            # principal values are averaged per position (ascending / descending order is a convention of the writer)
            rec.close("view:principal-log-strains", float(np.abs(got - np.sort(pe, axis=1)).max()), 1e-9)
        rec.label("view")


# ---------------------------------------------------------------------------------------------------------------
def v2_strategy(kind, tier):
    return st.fixed_dictionaries({"mesh": st.sampled_from(["quad", "triangle", "quad8"]).flatmap(lambda k: gm.st_mesh(k, tier, max_n=3, curved=False)),
                                  "E": fl(0.5, 5), "nu": fl(0.0, 0.45), "seed": st.integers(0, 2**32 - 1), "amp": st.sampled_from([0.03, 0.1]),
                                  "view": st.sampled_from(["Kirchhoff", None])})


def v2_check(kind, case, rec):
    """a body on a plain two-component field (2 x 2 stresses, e.g. plane stress): the view's cell data are the quadrature means of
    the 2 x 2 stress (Voigt order xx, yy, xy), its principal values and the von Mises stress of the tensor embedded in 3-d"""
    fem = import_felupe()
    mesh, info = gm.build(case["mesh"])
    region = gm.region(mesh, info)
    X = np.array(mesh.points)
    rng = np.random.default_rng(case["seed"])
    fld = fem.Field(region, dim=2)
    fc = fem.FieldContainer([fld])
    H = case["amp"] * rng.uniform(-1, 1, (2, 2))
    fld.values[...] = (X - X.mean(0)) @ H.T + 0.3 * case["amp"] * info["h"] * rng.uniform(-1, 1, X.shape)
    F = np.asarray(fc.extract()[0]).copy()
    um = fem.LinearElasticPlaneStress(E=case["E"], nu=case["nu"])
    solid = fem.SolidBody(um, fc)
    P = np.asarray(um.gradient([F.copy(), None])[0], float).copy()
    tau = np.einsum("ij...,kj...->ik...", P, F)
    stype = case["view"]
    ref = tau if stype else P
    sc = max(float(np.abs(ref).max()), 1e-9)
    rec.nontrivial = mesh.ncells >= 2
    cd = fem.ViewSolid(fc, solid=solid, stress_type=stype).mesh.cell_data
    lab = f"{stype} Stress" if stype else "Stress"
    if not rec.require("view-labels", lab in cd and f"Equivalent of {lab}" in cd, list(cd.keys())):
        return
    got = np.asarray(cd[lab])
    v3 = np.stack([ref[0, 0], ref[1, 1], ref[0, 1]]).mean(-2).T
    rec.close("view-2d:stress-cell-means(voigt)", float(np.abs(got - v3).max()) / sc if got.shape == v3.shape else float("inf"), 1e-11)
    R3 = np.zeros((3, 3) + ref.shape[2:])
    R3[:2, :2] = ref
    s = R3 - np.trace(R3) / 3 * np.eye(3).reshape(3, 3, 1, 1)
    vm = np.sqrt(1.5 * (s * s).sum((0, 1)))
    got = np.asarray(cd[f"Equivalent of {lab}"]).ravel()
    rec.close("view-2d:von-mises-of-the-embedded-tensor", float(np.abs(got - vm.mean(0)).max()) / sc if got.shape == vm.mean(0).shape else float("inf"), 1e-9, {"trace": float(np.abs(np.trace(ref)).max())})
    if float(np.abs(ref - np.swapaxes(ref, 0, 1)).max()) <= 1e-13 * sc:
        # (the small-strain law is not objective: P F^T is symmetric only without rotation; P itself always is)
        rec.label("symmetric-stress:principal-values-decided")
        pv = np.linalg.eigvalsh(ref.transpose(2, 3, 0, 1)).mean(0)
        got = np.sort(np.asarray(cd[f"Principal Values of {lab}"]), axis=1)
        rec.close("view-2d:principal-stresses", float(np.abs(got - np.sort(pv, axis=1)).max()) / sc if got.shape == pv.shape else float("inf"), 1e-9)


# ---------------------------------------------------------------------------------------------------------------
def fm_strategy(kind, tier):
    return st.fixed_dictionaries({"mesh": gm.st_mesh("hexahedron" if kind == "3d" else "quad", tier, max_n=3, curved=False), "seed": st.integers(0, 2**32 - 1),
                                  "frac": fl(0.2, 0.9), "center": st.lists(fl(-2, 2), min_size=3, max_size=3), "mixed": st.booleans(), "sparse": st.booleans()})


def fm_check(kind, case, rec):
    fem = import_felupe()
    import scipy.sparse as sp

    mesh, info = gm.build(case["mesh"])
    region = gm.region(mesh, info)
    dim = info["dim"]
    X = np.array(mesh.points)
    rng = np.random.default_rng(case["seed"])
    # the first field decides the number of force components per point: the mesh dimension (displacements), or any other number
    # (a scalar field such as a temperature or a potential, a 3-component field on a plane mesh)
    fdim = dim if case["mixed"] or case["seed"] % 3 else (1 if case["seed"] % 2 else dim + 1)
    fc = fem.FieldsMixed(region, n=2) if case["mixed"] else fem.FieldContainer([fem.Field(region, dim=fdim)])
    fc.fields[0].values[...] = 0.1 * rng.uniform(-1, 1, fc.fields[0].values.shape)
    n = int(sum(fc.fieldsizes))
    forces = rng.standard_normal(n)
    thr = X[:, 0].min() + case["frac"] * np.ptp(X[:, 0])
    b = fem.Boundary(fc[0], fx=lambda x: x >= thr)
    fr = forces[: len(X) * fdim].reshape(-1, fdim)
    fv = sp.csr_matrix(forces.reshape(-1, 1)) if case["sparse"] else forces
    rec.nontrivial = len(b.points) >= 2
    got = np.asarray(fem.tools.force(fc, fv, b)).ravel()
    rec.close("force=sum-over-boundary-points", float(np.abs(got - fr[b.points].sum(0)).max()) if got.shape == (fdim,) else float("inf"), 1e-13, {"components": fdim})
    if fdim != dim:
        rec.label("first-field-with-another-number-of-components-than-the-mesh-dimension")
        return
    c = np.array(case["center"])[:dim]
    x = X + fc.fields[0].values
    r_ = x[b.points] - c
    if dim == 3:
        ref = np.cross(r_, fr[b.points]).sum(0)
    else:
        # plane problems: the moment about the out-of-plane axis
        ref = np.array([(r_[:, 0] * fr[b.points][:, 1] - r_[:, 1] * fr[b.points][:, 0]).sum()])
    got = np.asarray(fem.tools.moment(fc, fv, b, centerpoint=np.array(case["center"]) if case["seed"] % 2 else c)).ravel()
    rec.close("moment=sum-of-position-cross-force", float(np.abs(got - ref).max()) / max(1.0, float(np.abs(ref).max())) if got.shape == ref.shape else float("inf"), 1e-12)


def saved_stress_strategy(kind, tier):
    from vf.props import c20

    return c20.save_strategy(kind, tier).map(lambda c: {**c, "gradient": True})


def saved_stress_check(kind, case, rec):
    """the Cauchy stress written by tools.save(..., gradient=[P]) is P F^T / det F shifted to the points (the file oracle
    of C20, here with a stress in every case and states that contain rotations)"""
    from vf.props import c20

    c20.save_check(kind, case, rec)


FAMILIES = [
    Family("saved-stress", ["hexahedron", "tetra"], saved_stress_check, strategy=saved_stress_strategy, n={"quick": 6, "thorough": 200}, chunk=6),
    Family("project", PROJ, proj_check, strategy=proj_strategy, n={"quick": 6, "thorough": 800}, chunk=6, weight=2),
    Family("extrapolate-topoints", ["quad", "hexahedron", "quad9", "hexahedron27"], ext_check, strategy=ext_strategy, n={"quick": 10, "thorough": 1000}, chunk=10),
    Family("stress", STRESS, stress_check, strategy=stress_strategy, n={"quick": 8, "thorough": 600}, chunk=4, weight=4),
    Family("view-2d", ["planestress"], v2_check, strategy=v2_strategy, n={"quick": 8, "thorough": 400}, chunk=8),
    Family("force-moment", ["3d", "2d"], fm_check, strategy=fm_strategy, n={"quick": 10, "thorough": 1000}, chunk=10),
]

LEVEL_TEXT = (
    "Operations x region templates enumerated; Hypothesis draws meshes, nodal fields, quadrature-point data of tensor "
    "order 0-2, deformation states and materials; each routine is compared with the quantity it names, recomputed "
    "independently (nodal values, integrals, explicit averaging loops, P F^T, Voigt means, explicit sums)."
)
LEVEL_NOTE = "Field.interpolate / region.dV provide quadrature data (C06); material stresses from umat.gradient (C03)"
TECHNIQUE = "property-based testing (Hypothesis) with round-trip (interpolate -> project) and reference-implementation oracles"
