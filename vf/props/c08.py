"""C08 - one global numbering of unknowns; boundary conditions partition it exactly."""
import numpy as np
from hypothesis import strategies as st

from vf.core import Family, import_felupe

PROPERTY = "C08"
RULE = (
    "families: 'partition' (containers with 1-3 fields of different dims / sizes incl. dual fields and meshes with "
    "points without cells; dictionaries of 1-4 possibly overlapping boundaries built from coordinate predicates "
    "(float / callable), and/or modes, skip tuples, point and dof masks, scalar / per-component / full-size values), "
    "'history' (operation sequences +=, -=, *=, /=, +, -, copy, link with flat arrays and per-field lists against a "
    "plain numpy vector model, compared after every step), 'alignment' (a one-hot integrand lands at exactly the "
    "global index offset_f + dim_f * point + comp), 'loadcase' (symmetry / uniaxial / biaxial / shear with all "
    "argument combinations drawn, compared with a model written from the docstrings). Oracle: the flat index model "
    "and the selection recomputed from its definition. Non-trivial: >= 2 fields or >= 2 boundaries with an overlap "
    "or a cell-less point."
    ' Per-unknown array values are also handed over as 2-d arrays in C and Fortran layout.'
)
ASSUMPTIONS = [
    "overlapping boundaries with different values admit the value of any owner (validity predicate)",
    "per-component array values have one entry per non-skipped component (documented calling convention)",
    "biaxial: left faces move by -move (code) or -move/2 (docstring wording): both accepted; planes and components are asserted",
]

CONT = ["vec2", "vec3", "scalar", "vec1on3", "mixed2", "mixed3", "twovec", "planestrain", "mixed3-tet10"]


def fl(lo, hi):
    return st.floats(lo, hi, allow_nan=False).map(lambda v: round(v, 3))


def build_container(kind, case):
    fem = import_felupe()
    n = case["n"]
    extra = case["extra"]
    three = kind in ("vec3", "vec1on3", "mixed2", "mixed3", "mixed3-tet10")
    if three:
        mesh = fem.Cube(a=(-0.5, 0, 0), b=(1, 1, 2), n=tuple(n[:3]))
    else:
        mesh = fem.Rectangle(a=(-0.5, 0), b=(1, 2), n=tuple(n[:2]))
    if kind == "mixed3-tet10":
        mesh = mesh.triangulate().add_midpoints_edges()
    if extra:
        pts = np.vstack([mesh.points, 5.0 + np.arange(extra * mesh.dim).reshape(extra, mesh.dim)])
        mesh = mesh.copy()
        mesh.update(points=pts)
    if three:
        region = fem.RegionQuadraticTetra(mesh) if kind == "mixed3-tet10" else fem.RegionHexahedron(mesh)
    else:
        region = fem.RegionQuad(mesh)
    if kind in ("vec2", "vec3"):
        fc = fem.FieldContainer([fem.Field(region, dim=mesh.dim)])
    elif kind == "scalar":
        fc = fem.FieldContainer([fem.Field(region, dim=1)])
    elif kind == "vec1on3":
        fc = fem.FieldContainer([fem.Field(region, dim=2)])
    elif kind == "mixed2":
        fc = fem.FieldsMixed(region, n=2)
    elif kind in ("mixed3", "mixed3-tet10"):
        fc = fem.FieldsMixed(region, n=3)
    elif kind == "twovec":
        fc = fem.FieldContainer([fem.Field(region, dim=2), fem.Field(region, dim=1), fem.Field(region, dim=3)])
    elif kind == "planestrain":
        fc = fem.FieldContainer([fem.FieldPlaneStrain(region, dim=2)])
    return mesh, region, fc


def st_pred():
    return st.one_of(
        st.none(),
        st.fixed_dictionaries({"t": st.just("coord"), "i": st.integers(0, 10)}),
        st.fixed_dictionaries({"t": st.sampled_from(["le", "ge"]), "frac": fl(0.1, 0.9)}),
        st.fixed_dictionaries({"t": st.just("absent")}),  # a coordinate value no point of the mesh has: an empty per-axis selection
    )


def st_boundary():
    return st.fixed_dictionaries(
        {
            "field": st.integers(0, 2),
            "preds": st.lists(st_pred(), min_size=3, max_size=3),
            "mode": st.sampled_from(["or", "and"]),
            "skip": st.one_of(st.none(), st.lists(st.booleans(), min_size=3, max_size=3)),
            "mask": st.one_of(st.none(), st.none(), st.fixed_dictionaries({"kind": st.sampled_from(["point", "dof"]), "seed": st.integers(0, 10**6), "p": st.sampled_from([0.2, 0.5])})),
            "value": st.one_of(st.fixed_dictionaries({"t": st.just("scalar"), "v": fl(-1, 1)}),
                               st.fixed_dictionaries({"t": st.sampled_from(["comp", "full"]), "seed": st.integers(0, 10**6)})),
        }
    )


def part_strategy(kind, tier):
    return st.fixed_dictionaries({"n": st.lists(st.integers(2, 4), min_size=3, max_size=3), "extra": st.sampled_from([0, 0, 1, 3]),
                                  "bounds": st.lists(st_boundary(), min_size=1, max_size=4), "vseed": st.integers(0, 10**6)})


def make_boundary(fem, fc, spec, name):
    """returns (Boundary, model dict(dofmask, values-by-local-dof))"""
    f = fc.fields[spec["field"] % len(fc.fields)]
    X = np.asarray(f.region.mesh.points)
    npts, dim, mdim = X.shape[0], f.dim, X.shape[1]
    kw = {}
    pmask = None
    value_spec = spec["value"]
    if spec["mask"] is None:
        preds = list(spec["preds"][:mdim])
        if all(p is None for p in preds):
            preds[0] = {"t": "coord", "i": 0}
        masks = []
        for k, p in enumerate(preds):
            if p is None:
                continue
            x = X[:, k]
            if p["t"] == "coord":
                vals = np.unique(np.round(x, 9))
                v = float(vals[p["i"] % len(vals)])
                kw["f" + "xyz"[k]] = v
                masks.append(np.isclose(x, v))
            elif p["t"] == "absent":
                v = float(x.max() + 1.25)
                kw["f" + "xyz"[k]] = v
                masks.append(np.zeros(len(x), bool))
            else:
                thr = float(x.min() + p["frac"] * (x.max() - x.min()))
                if p["t"] == "le":
                    kw["f" + "xyz"[k]] = (lambda t: (lambda x_: x_ <= t))(thr)
                    masks.append(x <= thr)
                else:
                    kw["f" + "xyz"[k]] = (lambda t: (lambda x_: x_ >= t))(thr)
                    masks.append(x >= thr)
        comb = np.logical_or if spec["mode"] == "or" else np.logical_and
        pmask = masks[0]
        for m_ in masks[1:]:
            pmask = comb(pmask, m_)
        kw["mode"] = spec["mode"]
        dmask = np.tile(pmask.reshape(-1, 1), (1, dim))
        if spec["skip"] is not None:
            skip = [bool(s) for s in spec["skip"][:dim]]
            kw["skip"] = tuple(int(s) for s in spec["skip"][:max(dim, 1)]) if dim > 0 else None
            dmask[:, np.where(skip)[0]] = False
            kw["skip"] = tuple(int(s) for s in skip)
    else:
        r = np.random.default_rng(spec["mask"]["seed"])
        if spec["mask"]["kind"] == "point":
            pm = r.uniform(size=npts) < spec["mask"]["p"]
            kw["mask"] = pm
            dmask = np.tile(pm.reshape(-1, 1), (1, dim))
            if spec["skip"] is not None:
                skip = [bool(s) for s in spec["skip"][:dim]]
                kw["skip"] = tuple(int(s) for s in skip)
                dmask[:, np.where(skip)[0]] = False
        else:
            dmask = r.uniform(size=(npts, dim)) < spec["mask"]["p"]
            kw["mask"] = dmask.copy()
            if value_spec["t"] == "comp":
                value_spec = {"t": "full", "seed": value_spec["seed"]}
    ndof = int(dmask.sum())
    # values
    if value_spec["t"] == "scalar":
        value = value_spec["v"]
        vals = np.full(ndof, value)
    else:
        r = np.random.default_rng(value_spec["seed"])
        ncomp = int(dmask.any(0).sum())
        rows = int(dmask.any(1).sum())
        regular = ndof == rows * ncomp
        if value_spec["t"] == "comp" and regular and ncomp > 0:
            value = np.round(r.uniform(-1, 1, ncomp), 3)
            vals = np.tile(value, rows)
        else:
            value = np.round(r.uniform(-1, 1, ndof), 3)
            vals = value.copy()
            if ndof == 0:
                value = 0.0
            elif regular and ncomp >= 1 and value_spec["seed"] % 3 != 0:
                # one value per (selected point, component): a 2-d array, C- or Fortran-contiguous (e.g. a transposed view)
                value = value.reshape(rows, ncomp)
                if value_spec["seed"] % 3 == 2:
                    value = np.asfortranarray(value)
    if spec["mask"] is not None and spec["mask"]["seed"] % 2 == 0:
        # documented re-use: the boundary is created with another selection of the same kind, the final one is handed to
        # apply_mask() afterwards (dof, points and mask must follow)
        final = kw["mask"]
        shape = np.shape(final)
        if spec["mask"]["seed"] % 4 == 2 and spec["skip"] is None:
            # ... created with a selection of the OTHER kind (dof-based, then point-based, or the reverse)
            shape = (npts, dim) if np.ndim(final) == 1 else (npts,)
        kw["mask"] = np.random.default_rng(spec["mask"]["seed"] + 1).uniform(size=shape) < 0.5
        b = fem.Boundary(f, name=name, value=value, **kw)
        b.apply_mask(final)
    else:
        b = fem.Boundary(f, name=name, value=value, **kw)
    ldof = np.arange(npts * dim).reshape(npts, dim)[dmask]
    return b, dict(field=spec["field"] % len(fc.fields), ldof=ldof, vals=vals, dmask=dmask)


def part_check(kind, case, rec):
    fem = import_felupe()
    mesh, region, fc = build_container(kind, case)
    r = np.random.default_rng(case["vseed"])
    for f in fc.fields:
        f.values[...] = np.round(r.uniform(-1, 1, f.values.shape), 3)
    if case["vseed"] % 3 == 0:
        # the values of the fields in column-major memory order (e.g. assembled as np.array([ux, uy]).T): the global numbering is
        # (field, point, component) whatever the layout
        for f in fc.fields:
            f.values = np.asfortranarray(f.values)
        rec.label("fortran-ordered-field-values")
    flat_model = np.concatenate([np.array([f.values[p_, c_] for p_ in range(f.values.shape[0]) for c_ in range(f.values.shape[1])]) for f in fc.fields])
    rec.require("math.values=(field, point, component)-order", np.array_equal(np.asarray(fem.math.values(fc)).ravel(), flat_model))
    sizes = [f.values.size for f in fc.fields]
    offs = np.concatenate([[0], np.cumsum(sizes)])
    total = int(offs[-1])
    bounds, models = {}, []
    for k, spec in enumerate(case["bounds"]):
        b, m = make_boundary(fem, fc, spec, f"b{k}")
        bounds[f"b{k}"] = b
        models.append(m)
        # Boundary attributes
        rec.require("boundary.dof", np.array_equal(np.sort(b.dof), np.sort(m["ldof"])), [len(b.dof), len(m["ldof"])])
        rec.require("boundary.points", np.array_equal(b.points, np.where(m["dmask"].any(1))[0]))
        rec.require("boundary.mask", np.array_equal(np.asarray(b.mask, bool), m["dmask"]))
    dof0, dof1 = fem.dof.partition(fc, bounds)
    # model of dof0
    owners = {}
    for m in models:
        for d, v in zip(m["ldof"] + offs[m["field"]], m["vals"]):
            owners.setdefault(int(d), []).append(float(v))
    free_pts = {}
    for fi, f in enumerate(fc.fields):
        msh = f.region.mesh
        used = np.zeros(msh.npoints, bool)
        used[np.unique(msh.cells)] = True
        for p in np.where(~used)[0]:
            for c in range(f.dim):
                free_pts[int(offs[fi] + f.dim * p + c)] = float(f.values[p, c])
    exp0 = np.array(sorted(set(owners) | set(free_pts)), dtype=int)
    rec.require("dof0=union", np.array_equal(dof0, exp0), {"got": len(dof0), "model": len(exp0)})
    rec.require("disjoint", len(np.intersect1d(dof0, dof1)) == 0)
    rec.require("cover", np.array_equal(np.sort(np.concatenate([dof0, dof1])), np.arange(total)), [len(dof0) + len(dof1), total])
    rec.require("sorted", bool(np.all(np.diff(dof0) > 0)) and bool(np.all(np.diff(dof1) > 0)))
    ext0 = fem.dof.apply(fc, bounds, dof0)
    ok, bad = True, None
    if len(ext0) == len(dof0):
        for d, e in zip(dof0, ext0):
            d = int(d)
            if d in owners:
                if not any(abs(e - v) <= 1e-14 for v in owners[d]):
                    ok, bad = False, [d, float(e), owners[d]]
                    break
            elif abs(e - free_pts.get(d, np.nan)) > 0:
                ok, bad = False, [d, float(e), "cell-less point keeps its field value"]
                break
    else:
        ok = False
    rec.require("ext0-values", ok, bad)
    full = fem.dof.apply(fc, bounds)
    flat = np.concatenate([f.values.ravel() for f in fc.fields])
    rec.require("apply-full-leaves-free-unknowns", np.array_equal(np.asarray(full).ravel()[dof1], flat[dof1]))
    rec.require("apply-does-not-modify-field", np.array_equal(flat, np.concatenate([f.values.ravel() for f in fc.fields])))
    # two boundaries created from ONE start array of whole numbers (value=np.zeros(dim, int) for both end faces), then one of them
    # gets new values through update(): the other keeps its zeros, the caller's array is left alone, the new values arrive unrounded
    f0 = fc.fields[0]
    X0 = np.asarray(f0.region.mesh.points)
    lo_, hi_ = float(X0[:, 0].min()), float(X0[:, 0].max())
    if hi_ > lo_:
        start = np.zeros(f0.dim, dtype=int)
        bA = fem.Boundary(f0, fx=lo_, value=start)
        bB = fem.Boundary(f0, fx=hi_, value=start)
        new = np.round(r.uniform(-1, 1, f0.dim), 3) + 0.25
        bB.update(new)
        extAB = np.asarray(fem.dof.apply(fc, {"A": bA, "B": bB})).ravel()
        okA = bool(np.all(extAB[np.asarray(bA.dof).ravel()] == 0.0))
        gotB = extAB[np.asarray(bB.dof).reshape(-1, f0.dim)]
        okB = bool(np.all(gotB == new[None, :]))
        rec.require("update()-of-one-boundary:the-other-keeps-its-values", okA)
        rec.require("update()-of-one-boundary:new-values-arrive-unrounded", okB, gotB[:1].tolist())
        rec.require("update()-leaves-the-caller's-start-array-alone", bool(np.all(start == 0)) and start.dtype.kind == "i")
    overlap = any(len(v) > 1 for v in owners.values())
    rec.nontrivial = (len(fc.fields) >= 2 or len(bounds) >= 2) and (overlap or bool(free_pts))
    if overlap:
        rec.label("overlap")
    if free_pts:
        rec.label("cell-less-points")
    rec.label(f"fields={len(fc.fields)}")


# ---------------------------------------------------------------------------------------------------------------
# histories of value updates
# ---------------------------------------------------------------------------------------------------------------
def hist_strategy(kind, tier):
    op = st.fixed_dictionaries({"op": st.sampled_from(["iadd", "isub", "imul", "idiv", "add", "sub", "mul", "div", "copy", "link", "setvalues", "getitem",
                                                        "field-iop", "field-op", "and"]),
                                "form": st.sampled_from(["flat", "list"]), "seed": st.integers(0, 10**6)})
    return st.fixed_dictionaries({"n": st.lists(st.integers(2, 3), min_size=3, max_size=3), "extra": st.sampled_from([0, 1]),
                                  "ops": st.lists(op, min_size=1, max_size=10 if tier == "quick" else 30)})


def hist_check(kind, case, rec):
    fem = import_felupe()
    mesh, region, fc = build_container(kind, case)
    sizes = [f.values.size for f in fc.fields]
    offs = np.concatenate([[0], np.cumsum(sizes)])
    model = np.concatenate([f.values.ravel() for f in fc.fields]).astype(float)  # initial values (J-field starts at one)
    rec.nontrivial = len(sizes) >= 2
    rec.require("offsets", np.array_equal(np.asarray(fc.offsets), offs[1:-1]) and list(fc.fieldsizes) == sizes)

    def agree(step):
        got = fem.math.values(fc)
        rec.close(f"values==model", float(np.abs(got - model).max()) if got.shape == model.shape else float("inf"), 1e-13, {"step": step})
        # per field layout: point-major, component-minor
        for fi, f in enumerate(fc.fields):
            ref = model[offs[fi] : offs[fi + 1]].reshape(-1, f.dim)
            rec.close("field-layout", float(np.abs(f.values - ref).max()) if f.values.shape == ref.shape else float("inf"), 1e-13, {"step": step})

    for k, o in enumerate(case["ops"]):
        r = np.random.default_rng(o["seed"])
        x = np.round(r.uniform(0.5, 1.5, offs[-1]) * r.choice([-1, 1], offs[-1]), 3)
        arg = x if (o["form"] == "flat" and len(sizes) != offs[-1]) else [x[offs[i] : offs[i + 1]] for i in range(len(sizes))]
        op = o["op"]
        if op == "iadd":
            fc += arg
            model = model + x
        elif op == "isub":
            fc -= arg
            model = model - x
        elif op == "imul":
            fc *= arg
            model = model * x
        elif op == "idiv":
            fc /= arg
            model = model / x
        elif op in ("add", "sub", "mul", "div"):
            before = fem.math.values(fc).copy()
            new = {"add": fc + arg, "sub": fc - arg, "mul": fc * arg, "div": fc / arg}[op]
            rec.require("binary-op-leaves-operand", np.array_equal(fem.math.values(fc), before))
            ref = {"add": model + x, "sub": model - x, "mul": model * x, "div": model / x}[op]
            rec.close("binary-op-result", float(np.abs(fem.math.values(new) - ref).max()), 1e-13)
            if o["seed"] % 2:
                fc = new
                model = ref
        elif op == "copy":
            c2 = fc.copy()
            c2 += arg
            rec.require("copy-is-independent", np.array_equal(fem.math.values(fc), model))
        elif op == "link":
            other = fc.copy()
            other.link(fc)
            fc += arg
            model = model + x
            rec.close("link-shares-values", float(np.abs(fem.math.values(other) - model).max()), 1e-13)
        elif op == "setvalues":
            fi = o["seed"] % len(sizes)
            f = fc.fields[fi]
            p = o["seed"] % f.values.shape[0]
            c = (o["seed"] // 7) % f.dim
            f.values[p, c] = x[0]
            model = model.copy()
            model[offs[fi] + f.dim * p + c] = x[0]
        elif op in ("field-iop", "field-op"):
            # the same operations on one field of the container, with a flat array, a (points, dim) array or another Field
            fi = o["seed"] % len(sizes)
            f = fc.fields[fi]
            xf = x[offs[fi] : offs[fi + 1]]
            which = ("add", "sub", "mul", "div")[(o["seed"] // 3) % 4]
            kindarg = (o["seed"] // 13) % 3
            if kindarg == 0:
                argf = xf.copy()
            elif kindarg == 1:
                argf = xf.reshape(-1, f.dim).copy()
            else:
                argf = f.copy()
                argf.values[...] = xf.reshape(-1, f.dim)
            ref = {"add": model[offs[fi] : offs[fi + 1]] + xf, "sub": model[offs[fi] : offs[fi + 1]] - xf,
                   "mul": model[offs[fi] : offs[fi + 1]] * xf, "div": model[offs[fi] : offs[fi + 1]] / xf}[which]
            if op == "field-iop":
                if which == "add":
                    f += argf
                elif which == "sub":
                    f -= argf
                elif which == "mul":
                    f *= argf
                else:
                    f /= argf
                rec.require("field-iop-keeps-the-container's-field-object", fc.fields[fi] is f)
                model = model.copy()
                model[offs[fi] : offs[fi + 1]] = ref
            else:
                before = f.values.copy()
                new = {"add": f + argf, "sub": f - argf, "mul": f * argf, "div": f / argf}[which]
                rec.require("field-binary-op-leaves-operand", np.array_equal(f.values, before))
                rec.close("field-binary-op-result", float(np.abs(new.values.ravel() - ref).max()) if new.values.size == ref.size else float("inf"), 1e-13)
            if kindarg == 2:
                rec.require("field-op-leaves-the-other-field", np.array_equal(argf.values.ravel(), xf))
        elif op == "and":
            # field & field / container & field build a container with the fields in the given order
            if len(sizes) >= 2:
                c2 = fc.fields[0] & fc.fields[1]
                rec.require("and:fields", len(c2.fields) == 2 and c2.fields[0] is fc.fields[0] and c2.fields[1] is fc.fields[1])
                rec.close("and:values", float(np.abs(fem.math.values(c2) - model[: offs[2]]).max()), 0.0)
        elif op == "getitem":
            fi = o["seed"] % len(sizes)
            f = fc.fields[fi]
            dofs = r.integers(0, sizes[fi], 5)
            rec.close("field[dof]", float(np.abs(f[dofs] - model[offs[fi] + dofs]).max()), 1e-13)
        agree(k)
        rec.label(op)


# ---------------------------------------------------------------------------------------------------------------
# alignment of assembly with the numbering
# ---------------------------------------------------------------------------------------------------------------
def align_strategy(kind, tier):
    return st.fixed_dictionaries({"n": st.lists(st.integers(2, 3), min_size=3, max_size=3), "extra": st.sampled_from([0, 2]),
                                  "field": st.integers(0, 2), "comp": st.integers(0, 2), "w": fl(0.5, 2)})


def align_check(kind, case, rec):
    fem = import_felupe()
    mesh, region, fc = build_container(kind, case)
    fi = case["field"] % len(fc.fields)
    f = fc.fields[fi]
    comp = case["comp"] % f.dim
    sizes = [x.values.size for x in fc.fields]
    offs = np.concatenate([[0], np.cumsum(sizes)])
    nq, nc = region.dV.shape
    rec.nontrivial = len(sizes) >= 2 or case["extra"] > 0
    funs = []
    for k, x in enumerate(fc.fields):
        D = 3 if type(x).__name__ == "FieldPlaneStrain" else x.dim
        a = np.zeros((D, nq, nc))
        if k == fi:
            a[comp] = case["w"]
        funs.append(a)
    L = np.asarray(fem.IntegralForm(funs, fc, region.dV, grad_v=[False] * len(fc.fields)).assemble().toarray()).ravel()
    # independent lumping: sum_c sum_q h_a(q) dV[q, c] at the points of the field's own mesh
    reg = f.region
    ref = np.zeros(offs[-1])
    h = np.asarray(reg.h)[..., 0]
    for c, cell in enumerate(reg.mesh.cells):
        for a, p in enumerate(cell):
            ref[offs[fi] + f.dim * p + comp] += case["w"] * float((h[a] * region.dV[:, c]).sum())
    rec.close("one-hot-lands-at-global-index", float(np.abs(L - ref).max()) / float(np.abs(ref).max()) if L.shape == ref.shape else float("inf"), 1e-12)
    # field update by the same flat index
    e = np.zeros(offs[-1])
    g = int(offs[fi] + f.dim * (reg.mesh.cells[0, 0]) + comp)
    e[g] = 1.0
    before = fem.math.values(fc).copy()
    fc += e
    delta = fem.math.values(fc) - before
    rec.require("flat-update-hits-same-unknown", f.values[reg.mesh.cells[0, 0], comp] == before[g] + 1.0 and float(np.abs(delta).sum()) == 1.0 and delta[g] == 1.0)


# ---------------------------------------------------------------------------------------------------------------
# load cases
# ---------------------------------------------------------------------------------------------------------------
LOAD = [[lc, d] for lc in ("symmetry", "uniaxial", "biaxial", "shear") for d in (2, 3)]


def lc_strategy(ax, tier):
    return st.fixed_dictionaries(
        {
            "origin": st.lists(st.sampled_from([0.0, -0.5, 0.25]), min_size=3, max_size=3),
            "n": st.lists(st.integers(2, 4), min_size=3, max_size=3),
            "axis": st.integers(0, 2), "axis2": st.integers(1, 2),
            "clamped": st.booleans(), "clamped2": st.booleans(),
            "sym": st.one_of(st.booleans(), st.lists(st.booleans(), min_size=3, max_size=3)),
            "move": fl(-0.5, 0.5), "move2": fl(-0.5, 0.5), "move3": fl(-0.5, 0.5),
            "explicit": st.booleans(), "mixed": st.booleans(),
            "center": st.lists(st.sampled_from([0.0, 0.25]), min_size=3, max_size=3),
        }
    )


def lc_check(ax, case, rec):
    fem = import_felupe()
    lc, dim = ax
    o = np.array(case["origin"][:dim])
    n = tuple(case["n"][:dim])
    size = np.array([1.0, 2.0, 1.5][:dim])
    mesh = (fem.Rectangle if dim == 2 else fem.Cube)(a=tuple(o), b=tuple(o + size), n=n)
    region = (fem.RegionQuad if dim == 2 else fem.RegionHexahedron)(mesh)
    fc = fem.FieldsMixed(region, n=3) if case["mixed"] else fem.FieldContainer([fem.Field(region, dim=dim)])
    X = np.asarray(mesh.points)
    pres = {}

    def setp(mask, comp, val):
        for pt in np.where(mask)[0]:
            pres.setdefault((int(pt), comp), []).append(val)

    sym = case["sym"]
    sym3 = (sym,) * 3 if not isinstance(sym, list) else tuple(sym)
    rec.nontrivial = True
    if lc == "symmetry":
        c = case["center"]
        bounds = fem.dof.symmetry(fc[0], axes=sym3, x=c[0], y=c[1], z=c[2])
        for a in range(dim):
            if sym3[a]:
                setp(np.isclose(X[:, a], c[a]), a, 0.0)
        dof0, dof1 = fem.dof.partition(fc, bounds)
        ext0 = fem.dof.apply(fc, bounds, dof0)
    elif lc == "uniaxial":
        axis = case["axis"] % dim
        move = case["move"]
        left = float(X[:, axis].min())
        right = float(X[:, axis].max())
        kw = dict(move=move, axis=axis, clamped=case["clamped"], sym=sym if not isinstance(sym, list) else tuple(sym))
        if case["explicit"]:
            planes = np.unique(np.round(X[:, axis], 12))
            if planes[0] < 0.0 < planes[-1]:
                # an explicitly given end face at the coordinate 0.0 inside the body (with or without grid points on it)
                left = 0.0
                rec.label("explicit-left-plane=0.0")
            elif len(planes) >= 3 and case["move3"] > 0:
                left = float(planes[1])  # an interior grid plane
                rec.label("explicit-left-plane=interior")
            kw.update(left=left, right=right)
        bounds, d = fem.dof.uniaxial(fc, **kw)
        dof0, dof1, ext0 = d["dof0"], d["dof1"], d["ext0"]
        for a in range(dim):
            if sym3[a]:
                setp(np.isclose(X[:, a], 0.0), a, 0.0)
        if not sym3[axis]:
            setp(np.isclose(X[:, axis], left), axis, 0.0)
        if case["clamped"]:
            for a in range(dim):
                if a != axis:
                    setp(np.isclose(X[:, axis], right), a, 0.0)
                    if not sym3[axis]:
                        setp(np.isclose(X[:, axis], left), a, 0.0)
        setp(np.isclose(X[:, axis], right), axis, move)
    elif lc == "biaxial":
        a1 = case["axis"] % dim
        a2 = (a1 + case["axis2"]) % dim
        if a2 == a1:
            a2 = (a1 + 1) % dim
        axes = (a1, a2)
        moves = (case["move"], case["move2"])
        clampes = (case["clamped"], case["clamped2"])
        bounds, d = fem.dof.biaxial(fc, moves=moves, axes=axes, clampes=clampes, sym=sym if not isinstance(sym, list) else tuple(sym))
        dof0, dof1, ext0 = d["dof0"], d["dof1"], d["ext0"]
        for a in range(dim):
            if sym3[a]:
                setp(np.isclose(X[:, a], 0.0), a, 0.0)
        for axis, move, cl in zip(axes, moves, clampes):
            left, right = float(X[:, axis].min()), float(X[:, axis].max())
            if not sym3[axis]:
                setp(np.isclose(X[:, axis], left), axis, -move)
                setp(np.isclose(X[:, axis], left), axis, -move / 2)
            if cl:
                for a in range(dim):
                    if a != axis:
                        setp(np.isclose(X[:, axis], right), a, 0.0)
                        if not sym3[axis]:
                            setp(np.isclose(X[:, axis], left), a, 0.0)
            setp(np.isclose(X[:, axis], right), axis, move)
            setp(np.isclose(X[:, axis], right), axis, move / 2) if False else None
    else:
        a1 = case["axis"] % dim
        a2 = (a1 + case["axis2"]) % dim
        if a2 == a1:
            a2 = (a1 + 1) % dim
        axes = (a1, a2)
        moves = (case["move"], case["move2"], case["move3"])
        s = bool(sym) if not isinstance(sym, list) else bool(sym[0])
        bounds, d = fem.dof.shear(fc, moves=moves, axes=axes, sym=s)
        dof0, dof1, ext0 = d["dof0"], d["dof1"], d["ext0"]
        bottom, top = float(X[:, a2].min()), float(X[:, a2].max())
        thick = [a for a in range(dim) if a not in axes]
        if s:
            for a in thick:
                setp(np.isclose(X[:, a], 0.0), a, 0.0)
        for a in range(dim):
            if a != a2:
                setp(np.isclose(X[:, a2], bottom), a, 0.0)
        for a in thick:
            setp(np.isclose(X[:, a2], top), a, 0.0)
        setp(np.isclose(X[:, a2], bottom), a2, moves[1])
        setp(np.isclose(X[:, a2], top), a2, moves[2])
        setp(np.isclose(X[:, a2], top), a1, moves[0])
    exp0 = np.array(sorted(dim * pt + c for (pt, c) in pres), dtype=int)
    n_u = X.shape[0] * dim
    got_u = np.asarray(dof0)[np.asarray(dof0) < n_u]
    rec.require("constrained-unknowns", np.array_equal(got_u, exp0), {"got": len(got_u), "model": len(exp0), "args": {k: case[k] for k in ("axis", "axis2", "clamped", "sym")}})
    ok = len(ext0) == len(dof0)
    bad = None
    if ok:
        for dd, e in zip(dof0, ext0):
            dd = int(dd)
            if dd < n_u:
                vals = pres.get((dd // dim, dd % dim), [])
                if not any(abs(e - v) < 1e-14 for v in vals):
                    ok, bad = False, [dd, float(e), vals]
                    break
    rec.require("prescribed-values", ok, bad)
    total = sum(f.values.size for f in fc.fields)
    rec.require("partition-covers", np.array_equal(np.sort(np.concatenate([dof0, dof1])), np.arange(total)))
    rec.label("mixed" if case["mixed"] else "single")


FAMILIES = [
    Family("partition", CONT, part_check, strategy=part_strategy, n={"quick": 40, "thorough": 1500}, chunk=100),
    Family("history", CONT, hist_check, strategy=hist_strategy, n={"quick": 15, "thorough": 500}, chunk=100),
    Family("alignment", CONT, align_check, strategy=align_strategy, n={"quick": 8, "thorough": 150}, chunk=100),
    Family("loadcase", LOAD, lc_check, strategy=lc_strategy, n={"quick": 40, "thorough": 1500}, chunk=100),
]

LEVEL_TEXT = (
    "Containers, boundary dictionaries, update histories and load-case arguments are drawn by Hypothesis; the flat "
    "index model offset_f + dim_f * point + comp, the selection recomputed from its definition and docstring models "
    "of the load cases are compared exactly (index sets) after every step."
)
LEVEL_NOTE = "index arithmetic is exact; values compared to 1e-13; mesh generators trusted (C16)"
TECHNIQUE = "model-based property testing (Hypothesis): reference index model and operation histories checked in lock-step"
