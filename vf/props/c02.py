"""C02 - integral forms assemble exactly the sums they denote, on every code path."""
import numpy as np
from hypothesis import strategies as st

from vf.core import Family, import_felupe
from vf.gen import meshes as gm
from vf.ref import assembly as ra

PROPERTY = "C02"
RULE = (
    "finite axis = (container kind x form kind): Field dim 1-3, plane strain, axisymmetric, mixed u/p and u/p/J "
    "containers (Cartesian, plane strain, axisymmetric) x linear / bilinear forms with value / gradient test and trial "
    "spaces, block modes 1 / 2 / 3 and absent (None) blocks. Hypothesis draws the mesh (cell family, distortion), "
    "integrand arrays of the admissible tensor order (seeded normal values, optional size-one trailing axes, 3x3 "
    "integrands on plane-strain fields, lower-dimensional integrands), the differential volume (region dV or an "
    "arbitrary positive array), the parallel flag and uniform-grid regions. Oracle: a dense reference assembler "
    "written from the definition (generalised B-operator per cell and quadrature point). Families 'threads' "
    "(>= 2000 quadrature-cells, parallel on/off, repeated) and 'expression' (Form API == IntegralForm, sym on/off, "
    "sequential / threaded). Non-trivial: >= 2 cells sharing points and an integrand without zero components."
    " Added later: full block lists on plane-strain mixed containers with integrands in the materials' (3, 3, q, c) shape, axisymmetric value-value and value-gradient forms."
    " Expression axis bilinear-two-containers (scalar test / vector trial field from different containers) against a dense reference from the region's arrays; explicit value spaces in all blocks of mixed forms; default gradient flags."
)
ASSUMPTIONS = [
    "thread schedules are sampled, not owned: decided is 'the result does not depend on the parallel flag' on every generated input",
    "the third component of an axisymmetric value space is read as felupe does: it acts on v_r / R (zero in half of the cases); "
    "value-trial / gradient-test and full mode-3 layouts on axisymmetric containers raise in felupe and are not generated",
    "weak forms contract scalar (dual) bases with dot(a, b, mode=(1, 1))",
]

# container kind -> (mesh kinds, description)
CONT = {
    "F3": ["hexahedron", "tetra", "hexahedron20"],
    "F2": ["quad", "triangle", "quad8"],
    "S2": ["quad", "triangle6"],
    "S3": ["hexahedron", "tetra10"],
    "PS": ["quad", "triangle", "quad9"],
    "AX": ["quad", "triangle", "quad8"],
    "M2": ["hexahedron", "tetra10"],
    "M3": ["hexahedron", "hexahedron20"],
    "M3PS": ["quad", "triangle6"],
    "M3AX": ["quad", "quad8"],
    "V1": ["hexahedron", "quad"],
}
SINGLE = {"F3", "F2", "S2", "S3", "PS", "AX", "V1"}
FORMS_SINGLE = ["Lv", "Lg", "Bvv", "Bgv", "Bvg", "Bgg"]
FORMS_MIXED = ["L", "B2", "B3"]
AXIS = []
for c in CONT:
    for f in (FORMS_SINGLE if c in SINGLE else FORMS_MIXED):
        if c == "AX" and f == "Bgv":
            continue  # gradient-test / value-trial pairs of two axisymmetric fields are not defined in felupe (see ASSUMPTIONS)
        if c == "M3AX" and f == "B3":
            continue
        AXIS.append([c, f])


def strategy(ax, tier):
    c, f = ax
    return st.fixed_dictionaries(
        {
            "mesh": st.sampled_from(CONT[c]).flatmap(lambda k: gm.st_mesh(k, tier, max_n=3, affine=(c not in ("AX", "M3AX")), curved=False)),
            "seed": st.integers(0, 2**32 - 1),
            "parallel": st.booleans(),
            "uniform": st.booleans(),
            "dV": st.sampled_from(["region", "region", "random"]),
            "bc": st.sampled_from(["full", "full", "full", "cell1", "qc1"]),
            "dim3fun": st.booleans(),
            "none": st.integers(0, 63),
            "fdim": st.integers(1, 3),
        }
    )


def container(c, case):
    fem = import_felupe()
    spec = dict(case["mesh"])
    if c in ("AX", "M3AX"):
        spec["a"] = [spec["a"][0], abs(spec["a"][1]) + 0.3]
    mesh, info = gm.build(spec)
    uniform = (case["uniform"] and spec["jitter"] == 0 and spec["affine"] is None and not spec.get("ratio")
               and spec["kind"] in ("quad", "hexahedron", "quad8", "quad9", "hexahedron20"))
    region = gm.region(mesh, info, uniform=True) if uniform else gm.region(mesh, info)
    dim = info["dim"]
    if c in ("F3", "F2"):
        fc = fem.FieldContainer([fem.Field(region, dim=dim)])
    elif c in ("S2", "S3"):
        fc = fem.FieldContainer([fem.Field(region, dim=1)])
    elif c == "V1":
        fc = fem.FieldContainer([fem.Field(region, dim=case["fdim"])])
    elif c == "PS":
        fc = fem.FieldContainer([fem.FieldPlaneStrain(region, dim=2)])
    elif c == "AX":
        fc = fem.FieldContainer([fem.FieldAxisymmetric(region, dim=2)])
    elif c == "M2":
        fc = fem.FieldsMixed(region, n=2)
    elif c == "M3":
        fc = fem.FieldsMixed(region, n=3)
    elif c == "M3PS":
        fc = fem.FieldsMixed(region, n=3, planestrain=True)
    elif c == "M3AX":
        fc = fem.FieldsMixed(region, n=3, axisymmetric=True)
        if case["seed"] % 2 == 1 and not uniform:
            # the dual (p, J) field objects were used before in a container on a radially moved mesh of the same topology (an
            # earlier analysis) and are taken over together with a new displacement field: weights follow the current radius
            far = mesh.copy()
            far.update(points=np.asarray(mesh.points) + np.array([0.0, 0.8]))
            prev = fem.FieldsMixed(gm.region(far, info), n=3, axisymmetric=True)
            fem.IntegralForm([np.ones((3, 3, 1, 1)), np.ones((1, 1, 1)), np.ones((1, 1, 1))], prev, prev.region.dV).assemble()
            fc = fem.FieldContainer([fem.FieldAxisymmetric(region, dim=2), prev[1], prev[2]])
    return mesh, info, region, fc, uniform


def integrand(rng, tshape, nq, nc, bc, zero_theta=None):
    shp = {"full": (nq, nc), "cell1": (nq, 1), "qc1": (1, 1)}[bc]
    f = rng.standard_normal(tuple(tshape) + shp)
    f = f + 0.2 * np.sign(f)
    if zero_theta is not None:
        # value space of an axisymmetric field: the circumferential component of the integrand is zero
        sl = [slice(None)] * f.ndim
        sl[zero_theta] = 2
        f[tuple(sl)] = 0.0
    return f


def tshape(field, grad, dim3fun, mesh_dim):
    k = ra.kind_of(field)
    D = 3 if k == "axi" or (k == "ps" and dim3fun) else field.dim
    if not grad:
        return (D,)
    Dx = 3 if k == "axi" or (k == "ps" and dim3fun) else mesh_dim
    return (D, Dx)


def dense(m):
    return np.asarray(m.toarray(), float)


def check(ax, case, rec):
    fem = import_felupe()
    c, f = ax
    mesh, info, region, fc, uniform = container(c, case)
    rng = np.random.default_rng(case["seed"])
    nq, nc = region.dV.shape[0], mesh.ncells
    mdim = info["dim"]
    dV = np.asarray(region.dV)
    if case["dV"] == "random":
        dV = np.broadcast_to(dV, (nq, nc)) * rng.uniform(0.5, 1.5, (nq, nc))
    bcm = case["bc"]
    par = case["parallel"]
    fields = fc.fields
    v0 = fields[0]
    rec.nontrivial = nc >= 2
    if uniform:
        rec.label("uniform-region")
    rec.label("parallel" if par else "sequential")
    rec.label("bc=" + bcm)
    d3 = case["dim3fun"]

    def cmp(name, got, ref):
        sc = max(float(np.abs(ref).max()), 1e-300)
        if got.shape != ref.shape:
            rec.require(name + "-shape", False, [got.shape, ref.shape])
            return
        rec.close(name, float(np.abs(got - ref).max()) / sc, 1e-11)

    if c in SINGLE:
        gv = f in ("Lg", "Bgv", "Bgg")
        gu = f in ("Bvg", "Bgg")
        tv = tshape(v0, gv, d3, mdim)
        # axisymmetric value spaces: half of the cases keep the circumferential integrand component at zero (loads), the others
        # fill it - felupe lets it act on v_r / R like the (3, 3) component of the gradient space
        zt = 0 if (c == "AX" and not gv and case["seed"] % 2 == 0) else None
        if c == "AX" and not gv and f != "Bvv":
            rec.label("hoop-component:" + ("zero" if zt == 0 else "non-zero"))
        if f.startswith("L"):
            if c == "AX" and not gv and case["seed"] % 3 == 0:
                tv, zt = (2,), None  # in-plane components only (what a body force with one value per field component hands over)
                rec.label("in-plane-components-only")
            fun = integrand(rng, tv, nq, nc, bcm, zero_theta=zt)
            form = fem.IntegralForm([fun], fc, dV, grad_v=[gv])
            got = dense(form.assemble(parallel=par)).ravel()
            ref = ra.linear(fun, v0, dV, gv)
            cmp("linear", got, ref)
            vals = form.integrate(parallel=par)
            got2 = dense(form.assemble(values=vals)).ravel()
            cmp("assemble(values=integrate())", got2, ref)
        else:
            tu = tshape(v0, gu, d3, mdim)
            if c == "AX" and f == "Bvv":
                tv = tu = (2,)  # value-value forms of axisymmetric fields act on the in-plane components (mass matrix)
            fun = integrand(rng, tv + tu, nq, nc, bcm, zero_theta=zt if f != "Bvv" else None)
            gkw_ = dict(grad_v=[gv], grad_u=[gu])
            if gu and (case["seed"] + nc + nq) % 2 == 0:
                # the documented defaults: a flag that is not given means "gradient space" for the first field
                gkw_.pop("grad_u")
                if gv:
                    gkw_.pop("grad_v")
                rec.label("default-gradient-flags")
            form = fem.IntegralForm([fun], fc, dV, fc, **gkw_)
            got = dense(form.assemble(parallel=par))
            ref = ra.bilinear(fun, v0, v0, dV, gv, gu)
            cmp("bilinear", got, ref)
            vals = form.integrate(parallel=par)
            got2 = dense(form.assemble(values=vals))
            cmp("assemble(values=integrate())", got2, ref)
        return
    # ---- mixed containers: default spaces (first field gradient, others value)
    n = len(fields)
    grads = [True] + [False] * (n - 1)
    gkw = {}
    if c in ("M2", "M3") and f != "L" and case["seed"] % 3 == 0:
        # value spaces in every block (explicit grad_v / grad_u lists), e.g. a coupling of a scalar field with the displacement
        # VALUES: the scalar / vector blocks carry (1, dim, q, c) integrands
        grads = [False] * n
        gkw = dict(grad_v=list(grads), grad_u=list(grads))
        rec.label("value-spaces-in-all-blocks")
    offs = np.cumsum([0] + [ra.ndof(x) for x in fields])
    if f == "L":
        funs = []
        for k, fld in enumerate(fields):
            funs.append(integrand(rng, tshape(fld, grads[k], d3 or c == "M3AX", mdim), nq, nc, bcm))
        got = dense(fem.IntegralForm(funs, fc, dV).assemble(parallel=par)).ravel()
        ref = np.concatenate([ra.linear(funs[k], fields[k], dV, grads[k], first=v0) for k in range(n)])
        cmp("mixed-linear", got, ref)
        return
    pairs = [(i, j) for i in range(n) for j in range(n) if (j >= i or f == "B3")]
    funs, K = [], np.zeros((offs[-1], offs[-1]))
    for b, (i, j) in enumerate(pairs):
        tv = tshape(fields[i], grads[i], d3 or c == "M3AX", mdim)
        tu = tshape(fields[j], grads[j], d3 or c == "M3AX", mdim)
        drop = bool((case["none"] >> b) & 1) and not (i == 0 and j == 0)
        if drop:
            funs.append(None)
            rec.label("none-block")
            continue
        if c == "M3AX" and i == 0 and j > 0:
            tu = ()  # axisymmetric displacement / scalar blocks take (3, 3, q, c) integrands (no component axis)
        if c == "M3PS" and f == "B3" and i > 0 and j == 0 and (d3 or c == "M3AX"):
            tv = ()  # scalar / plane-strain displacement blocks as the materials return them: (3, 3, q, c), trimmed by felupe
        fun = integrand(rng, tv + tu, nq, nc, bcm)
        funs.append(fun)
        blk = ra.bilinear(fun, fields[i], fields[j], dV, grads[i], grads[j], first=v0)
        K[offs[i] : offs[i + 1], offs[j] : offs[j + 1]] += blk
        if f == "B2" and i != j:
            K[offs[j] : offs[j + 1], offs[i] : offs[i + 1]] += blk.T
    got = dense(fem.IntegralForm(funs, fc, dV, fc, **gkw).assemble(parallel=par))
    cmp("mixed-bilinear-mode" + ("2" if f == "B2" else "3"), got, K)
    rec.label("mode=" + f)
    if any(fn is None for fn in funs) and c not in ("M3AX",):
        # the cell-value buffers of an earlier integration in which every block was present are handed back as out= (the way a
        # solid body re-uses its stiffness values): absent blocks stay zero
        shapes = []
        for (i, j) in pairs:
            tv = tshape(fields[i], grads[i], d3 or c == "M3AX", mdim)
            tu = tshape(fields[j], grads[j], d3 or c == "M3AX", mdim)
            shapes.append(tv + tu)
        funs_full = [fn if fn is not None else integrand(rng, shp, nq, nc, "full") for fn, shp in zip(funs, shapes)]
        try:
            buffers = fem.IntegralForm(funs_full, fc, dV, fc, **gkw).integrate(parallel=par)
            form2 = fem.IntegralForm(funs, fc, dV, fc, **gkw)
            buffers = form2.integrate(parallel=par, out=buffers)
            got2 = dense(form2.assemble(values=buffers))
            cmp("absent-blocks-stay-zero-when-buffers-are-re-used", got2, K)
        except (ValueError, TypeError, IndexError) as e_:
            rec.label("buffer-re-use-not-applicable:" + type(e_).__name__)


# ---------------------------------------------------------------------------------------------------------------
# threads: result independent of the parallel flag on large batches
# ---------------------------------------------------------------------------------------------------------------
THREADS = ["hex-gg", "hex-lin", "mixed3", "axi-gg", "quad-vv", "form-bilinear", "form-linear"]


def thr_strategy(name, tier):
    return st.fixed_dictionaries({"seed": st.integers(0, 2**32 - 1), "n": st.integers(7, 9)})


def thr_check(name, case, rec):
    fem = import_felupe()
    from felupe.math import ddot, grad

    rng = np.random.default_rng(case["seed"])
    n = case["n"]
    rec.nontrivial = True
    if name in ("hex-gg", "hex-lin", "mixed3", "form-bilinear", "form-linear"):
        mesh = fem.Cube(n=n)
        region = fem.RegionHexahedron(mesh)
    else:
        mesh = fem.Rectangle(a=(0, 0.5), b=(1, 1.5), n=6 * n)
        region = fem.RegionQuad(mesh)
    nq, nc = region.dV.shape
    rec.label(f"batch={nq * nc}")
    if name == "hex-gg":
        fc = fem.FieldContainer([fem.Field(region, dim=3)])
        A = rng.standard_normal((3, 3, 3, 3, nq, nc))
        form = fem.IntegralForm([A], fc, region.dV, fc)
    elif name == "hex-lin":
        fc = fem.FieldContainer([fem.Field(region, dim=3)])
        form = fem.IntegralForm([rng.standard_normal((3, 3, nq, nc))], fc, region.dV)
    elif name == "mixed3":
        fc = fem.FieldsMixed(region, n=3)
        funs = [rng.standard_normal(s + (nq, nc)) for s in [(3, 3, 3, 3), (3, 3, 1), (3, 3, 1), (1, 1), (1, 1), (1, 1)]]
        form = fem.IntegralForm(funs, fc, region.dV, fc)
    elif name == "axi-gg":
        fc = fem.FieldContainer([fem.FieldAxisymmetric(region, dim=2)])
        form = fem.IntegralForm([rng.standard_normal((3, 3, 3, 3, nq, nc))], fc, region.dV, fc)
    elif name == "quad-vv":
        fc = fem.FieldContainer([fem.Field(region, dim=2)])
        form = fem.IntegralForm([rng.standard_normal((2, 2, nq, nc))], fc, region.dV, fc, grad_v=[False], grad_u=[False])
    if name.startswith("form-"):
        fc = fem.FieldContainer([fem.Field(region, dim=3)])
        A = rng.standard_normal((3, 3, 3, 3, nq, nc))
        P = rng.standard_normal((3, 3, nq, nc))
        if name == "form-bilinear":
            @fem.Form(v=fc, u=fc, kwargs={"A": A})
            def wf():
                return [lambda v, u, A: ddot(grad(v), ddot(A, grad(u), mode=(4, 2)))]

            ref = np.asarray(wf.assemble(fc, fc, parallel=False).toarray())
            for k in range(3):
                got = np.asarray(wf.assemble(fc, fc, parallel=True).toarray())
                rec.close("form-threaded=sequential", float(np.abs(got - ref).max()) / float(np.abs(ref).max()), 1e-13)
            K = np.asarray(fem.IntegralForm([A], fc, region.dV, fc).assemble().toarray())
            rec.close("form=integralform", float(np.abs(ref - K).max()) / float(np.abs(K).max()), 1e-12)
        else:
            @fem.Form(v=fc, kwargs={"P": P})
            def lf():
                return [lambda v, P: ddot(P, grad(v))]

            ref = np.asarray(lf.assemble(fc, parallel=False).toarray())
            for k in range(3):
                got = np.asarray(lf.assemble(fc, parallel=True).toarray())
                rec.close("form-threaded=sequential", float(np.abs(got - ref).max()) / float(np.abs(ref).max()), 1e-13)
            L = np.asarray(fem.IntegralForm([P], fc, region.dV).assemble().toarray())
            rec.close("form=integralform", float(np.abs(ref - L).max()) / float(np.abs(L).max()), 1e-12)
        return
    ref = np.asarray(form.assemble(parallel=False).toarray())
    for k in range(4):
        got = np.asarray(form.assemble(parallel=True).toarray())
        rec.close("parallel=sequential", float(np.abs(got - ref).max()) / float(np.abs(ref).max()), 1e-13)


# ---------------------------------------------------------------------------------------------------------------
# expression API == array form
# ---------------------------------------------------------------------------------------------------------------
EXPR = ["bilinear-gg", "bilinear-sym", "linear-g", "linear-v", "mixed-bilinear", "mixed-linear", "bilinear-vv", "planestrain-gg", "bilinear-hh", "bilinear-two-containers"]


def ex_strategy(name, tier):
    kinds = ["quad", "triangle", "quad8"] if name.startswith("planestrain") else ["hexahedron", "tetra", "quad", "triangle6"]
    if name == "bilinear-hh":
        kinds = ["hexahedron", "quad"]  # element families with second derivatives
    if name.startswith("mixed"):
        kinds = ["hexahedron", "quad", "triangle6", "tetra10"]  # FieldsMixed defines no dual region for linear simplices
    return st.fixed_dictionaries({"mesh": st.sampled_from(kinds).flatmap(lambda k: gm.st_mesh(k, tier, max_n=3, curved=False)),
                                  "seed": st.integers(0, 2**32 - 1), "parallel": st.booleans(), "sym": st.booleans()})


def other_fields(fem, mesh, info, rng, planestrain):
    """a field container on a second region: same cells, points mapped by a random affine map (det > 0)."""
    dim = info["dim"]
    B = np.eye(dim) + rng.uniform(-0.25, 0.25, (dim, dim))
    m2 = mesh.copy()
    m2.update(points=np.asarray(mesh.points) @ B.T)
    r2 = gm.region(m2, info)
    f2 = fem.FieldPlaneStrain(r2, dim=2) if planestrain else fem.Field(r2, dim=dim)
    return fem.FieldContainer([f2]), r2


def ex_check(name, case, rec):
    fem = import_felupe()
    from felupe.math import ddot, dot, grad

    mesh, info = gm.build(case["mesh"])
    region = gm.region(mesh, info)
    dim = info["dim"]
    rng = np.random.default_rng(case["seed"])
    nq, nc = region.dV.shape
    par, sym = case["parallel"], case["sym"]
    rec.nontrivial = nc >= 2
    rec.label("parallel" if par else "sequential")
    d11 = lambda a, b: dot(a, b, mode=(1, 1))  # noqa

    def cmp(nm, a, b):
        a, b = np.asarray(a.toarray()), np.asarray(b.toarray())
        rec.close(nm, float(np.abs(a - b).max()) / max(float(np.abs(b).max()), 1e-300) if a.shape == b.shape else float("inf"), 1e-11)

    if name in ("bilinear-gg", "bilinear-sym", "planestrain-gg"):
        ps = name == "planestrain-gg"
        D = dim  # the expression API hands out the in-plane (2 x 2) basis gradients for plane-strain fields
        fld = fem.FieldPlaneStrain(region, dim=2) if ps else fem.Field(region, dim=dim)
        fc = fem.FieldContainer([fld])
        A = rng.standard_normal((D, D, D, D, nq, nc))
        use_sym = (name == "bilinear-sym") and sym
        if name == "bilinear-sym":
            A = A + np.transpose(A, (2, 3, 0, 1, 4, 5))  # symmetric weak form (major symmetry)

        @fem.Form(v=fc, u=fc, kwargs={"A": A})
        def wf():
            return [lambda v, u, A: ddot(grad(v), ddot(A, grad(u), mode=(4, 2)))]

        K = fem.IntegralForm([A], fc, region.dV, fc).assemble()
        cmp(name + ("(sym=True)" if use_sym else ""), wf.assemble(fc, fc, parallel=par, sym=use_sym), K)
        # the same form object handed other fields (same topology, sheared and stretched points): "may be updated during
        # integration / assembly"
        # the same form object with new keyword arguments only (no fields handed over again)
        A3 = rng.standard_normal(A.shape)
        if name == "bilinear-sym":
            A3 = A3 + np.transpose(A3, (2, 3, 0, 1, 4, 5))
        K3 = fem.IntegralForm([A3], fc, region.dV, fc).assemble()
        cmp(name + "@new-kwargs-only", wf.assemble(kwargs={"A": A3}, parallel=par, sym=use_sym), K3)
        fc2, region2 = other_fields(fem, mesh, info, rng, ps)
        K2 = fem.IntegralForm([A], fc2, region2.dV, fc2).assemble()
        cmp(name + "@other-fields", wf.assemble(v=fc2, u=fc2, kwargs={"A": A}, parallel=par, sym=use_sym), K2)
    elif name == "bilinear-hh":
        # second gradients of the basis (regions created with hess=True): a(v, u) = w hess(v) ::: hess(u), against the explicit
        # sum over cells, quadrature points and shape functions built from the region's d2h/dXdX
        from felupe.math import dddot, hess

        if case["mesh"]["kind"] not in ("hexahedron", "quad"):
            rec.reject("no second derivatives for this element family")
            return
        region = gm.region(mesh, info, hess=True)
        fc = fem.FieldContainer([fem.Field(region, dim=dim)])
        w = rng.uniform(0.5, 1.5, (nq, nc))

        @fem.Form(v=fc, u=fc, kwargs={"w": w})
        def wf():
            return [lambda v, u, w: w * dddot(hess(v), hess(u))]

        H = np.asarray(region.d2hdXdX)  # (a, I, J, q, c)
        Hc = np.broadcast_to(H, H.shape[:3] + (nq, nc))
        kab = np.einsum("aIJqc,bIJqc,qc,qc->abc", Hc, Hc, w, np.broadcast_to(region.dV, (nq, nc)))
        n = mesh.npoints * dim
        K = np.zeros((n, n))
        cells = np.asarray(mesh.cells)
        for c_ in range(nc):
            for a_ in range(cells.shape[1]):
                for b_ in range(cells.shape[1]):
                    for i_ in range(dim):
                        K[cells[c_, a_] * dim + i_, cells[c_, b_] * dim + i_] += kab[a_, b_, c_]
        got = np.asarray(wf.assemble(fc, fc, parallel=par, sym=sym).toarray())
        rec.close("bilinear-hh" + ("(sym=True)" if sym else ""), float(np.abs(got - K).max()) / max(float(np.abs(K).max()), 1e-300) if got.shape == K.shape else float("inf"), 1e-11)
    elif name == "bilinear-two-containers":
        # test and trial functions from DIFFERENT containers on the same region: a scalar field q and a vector field w,
        # a(q, w) = int q B : grad(w) dV (rows: unknowns of q, columns: unknowns of w) and its transposed layout a(w, q)
        W = fem.FieldContainer([fem.Field(region, dim=dim)])
        Q = fem.FieldContainer([fem.Field(region, dim=1)])
        B = rng.standard_normal((dim, dim, nq, nc))

        @fem.Form(v=Q, u=W, kwargs={"B": B})
        def a_qw():
            return [lambda v, u, B: v[0] * ddot(B, grad(u))]

        @fem.Form(v=W, u=Q, kwargs={"B": B})
        def a_wq():
            return [lambda v, u, B: ddot(B, grad(v)) * u[0]]

        # dense reference from the region's arrays: K[a, (b, i)] = sum_qc h_a B_iJ dh_b/dX_J dV
        h = np.broadcast_to(np.asarray(region.h)[..., None] if np.asarray(region.h).ndim == 2 else np.asarray(region.h), (np.asarray(region.h).shape[0], nq, nc))
        dh = np.broadcast_to(np.asarray(region.dhdX), np.asarray(region.dhdX).shape[:2] + (nq, nc))
        kab = np.einsum("aqc,iJqc,bJqc,qc->abic", h, B, dh, np.broadcast_to(region.dV, (nq, nc)))
        cells = np.asarray(mesh.cells)
        Kref = np.zeros((mesh.npoints, mesh.npoints * dim))
        for c_ in range(nc):
            for a_ in range(cells.shape[1]):
                for b_ in range(cells.shape[1]):
                    Kref[cells[c_, a_], cells[c_, b_] * dim : cells[c_, b_] * dim + dim] += kab[a_, b_, :, c_]
        for how in ("as-created", "containers-handed-over-again"):
            kwq = dict(v=Q, u=W) if how != "as-created" else {}
            got = np.asarray(a_qw.assemble(kwargs={"B": B}, parallel=par, **kwq).toarray())
            rec.close("a(q, w):" + how, float(np.abs(got - Kref).max()) / float(np.abs(Kref).max()) if got.shape == Kref.shape else float("inf"), 1e-11, str(got.shape))
            kww = dict(v=W, u=Q) if how != "as-created" else {}
            got = np.asarray(a_wq.assemble(kwargs={"B": B}, parallel=par, **kww).toarray())
            rec.close("a(w, q):" + how, float(np.abs(got - Kref.T).max()) / float(np.abs(Kref).max()) if got.shape == Kref.T.shape else float("inf"), 1e-11, str(got.shape))
    elif name == "bilinear-vv":
        fc = fem.FieldContainer([fem.Field(region, dim=dim)])
        M = rng.standard_normal((dim, dim, nq, nc))

        @fem.Form(v=fc, u=fc, kwargs={"M": M})
        def wf():
            return [lambda v, u, M: dot(v, dot(M, u, mode=(2, 1)), mode=(1, 1))]

        K = fem.IntegralForm([M], fc, region.dV, fc, grad_v=[False], grad_u=[False]).assemble()
        cmp(name, wf.assemble(fc, fc, parallel=par), K)
    elif name in ("linear-g", "linear-v"):
        fc = fem.FieldContainer([fem.Field(region, dim=dim)])
        if name == "linear-g":
            P = rng.standard_normal((dim, dim, nq, nc))

            @fem.Form(v=fc, kwargs={"P": P})
            def lf():
                return [lambda v, P: ddot(P, grad(v))]

            L = fem.IntegralForm([P], fc, region.dV).assemble()
        else:
            P = rng.standard_normal((dim, nq, nc))

            @fem.Form(v=fc, kwargs={"P": P})
            def lf():
                return [lambda v, P: dot(P, v, mode=(1, 1))]

            L = fem.IntegralForm([P], fc, region.dV, grad_v=[False]).assemble()
        cmp(name, lf.assemble(fc, parallel=par), L)
        P3 = rng.standard_normal(P.shape)
        L3 = fem.IntegralForm([P3], fc, region.dV, grad_v=[name == "linear-g"]).assemble()
        cmp(name + "@new-kwargs-only", lf.assemble(kwargs={"P": P3}, parallel=par), L3)
        lf.assemble(kwargs={"P": P})
        fc2, region2 = other_fields(fem, mesh, info, rng, False)
        L2 = fem.IntegralForm([P], fc2, region2.dV, grad_v=[name == "linear-g"]).assemble()
        cmp(name + "@other-fields", lf.assemble(v=fc2, parallel=par), L2)
    else:
        fm = fem.FieldsMixed(region, n=2)
        F = rng.standard_normal((dim, dim, nq, nc))
        pp = rng.standard_normal((1, nq, nc))
        A = rng.standard_normal((dim, dim, dim, dim, nq, nc))
        if name == "mixed-bilinear":
            @fem.Form(v=fm, u=fm, kwargs=dict(F=F, p=pp, A=A))
            def a():
                return [lambda v, u, F, p, A: ddot(grad(v), ddot(A, grad(u), mode=(4, 2))),
                        lambda v, r_, F, p, A: d11(p, r_) * ddot(F, grad(v)),
                        lambda q, r_, F, p, A: d11(p, q) * d11(r_, p)]

            K = fem.IntegralForm([A, F * pp, (pp * pp)[None]], fm, region.dV, fm).assemble()
            cmp(name, a.assemble(fm, fm, parallel=par), K)
        else:
            @fem.Form(v=fm, kwargs=dict(F=F, p=pp))
            def L():
                return [lambda v, F, p: ddot(F, grad(v)), lambda q, F, p: d11(p, q)]

            cmp(name, L.assemble(fm, parallel=par), fem.IntegralForm([F, pp], fm, region.dV).assemble())


FAMILIES = [
    Family("forms", AXIS, check, strategy=strategy, n={"quick": 12, "thorough": 150}, chunk=50, weight=2),
    Family("threads", THREADS, thr_check, strategy=thr_strategy, n={"quick": 2, "thorough": 25}, chunk=25, weight=5),
    Family("expression", EXPR, ex_check, strategy=ex_strategy, n={"quick": 12, "thorough": 150}, chunk=50),
]

LEVEL_TEXT = (
    "All container x form combinations that felupe accepts are enumerated; Hypothesis draws meshes, integrands, "
    "differential volumes and flags; every assembled vector / matrix is compared entry-wise (1e-11) with a dense "
    "reference assembler written from the definition; the parallel flag and the expression API are metamorphic "
    "relations on the same inputs."
)
LEVEL_NOTE = "region arrays h / dhdX and connectivity are inputs of the reference (decided by C06); thread interleavings are sampled"
TECHNIQUE = "property-based testing (Hypothesis) against an independent reference assembler + metamorphic relations (parallel flag, Form API)"
