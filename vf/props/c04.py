"""C04 - element shape functions: nodal basis, true derivatives, polynomial completeness."""
import itertools
from functools import lru_cache

import numpy as np
from hypothesis import strategies as st

from vf.core import Family, import_felupe, jdump

PROPERTY = "C04"
RULE = (
    "finite axis = 16 element classes (MINI elements with bubble multipliers 1.0, 0.1, 0.7) + ArbitraryOrderLagrange "
    "order 1..6 x dim 1..3 x permute on/off (3-D orders 5,6 in the thorough tier only). Family 'identities' is "
    "exhaustive: one case per (element, identity, shape function or monomial); derivative identities are decided as "
    "polynomial identities on a Chebyshev tensor witness grid with (per-axis degree + 3) abscissae by spectral "
    "differentiation of `function` resp. `gradient` (exact for polynomials of that degree). Family 'points' draws "
    "points of the reference cell, bubble multipliers and boundary-facet points with Hypothesis and cross-checks by "
    "4th-order central differences, partition of unity and bubble-vanishes-on-the-boundary. Non-trivial: the case "
    "involves a witness/drawn point with no coordinate in {0, +-1, 1/2} (off the symmetry planes the suite samples) "
    "-- true for every witness grid; for drawn points it is measured."
)
ASSUMPTIONS = [
    "shape functions are polynomials of per-axis degree <= element order (+1 for bubble functions); cross-checked at drawn points by finite differences",
    "float64; identities required to 1e-9 (derivatives) / 1e-10 (completeness) / 1e-12 (Kronecker)",
]


# name, constructor kwargs, per-axis degree, order, completeness ('P' total degree / 'Q' per-axis degree / None), lo, hi, nbubble
def _axis():
    ax = []
    ax += [["Line", {}], ["Quad", {}], ["ConstantQuad", {}], ["QuadraticQuad", {}], ["BiQuadraticQuad", {}]]
    ax += [["Hexahedron", {}], ["ConstantHexahedron", {}], ["QuadraticHexahedron", {}], ["TriQuadraticHexahedron", {}]]
    ax += [["Triangle", {}], ["QuadraticTriangle", {}], ["Tetra", {}], ["QuadraticTetra", {}], ["Vertex", {}]]
    for m in (1.0, 0.1, 0.7, 0.0):  # (0.0: the bubble switched off - function, gradient and hessian of it all vanish)
        ax += [["TriangleMINI", {"bubble_multiplier": m}], ["TetraMINI", {"bubble_multiplier": m}]]
    for o in range(1, 7):
        for d in (1, 2, 3):
            for p in (True, False):
                ax.append(["ArbitraryOrderLagrange", {"order": o, "dim": d, "permute": p}])
    # non-default reference interval of the Lagrange element
    for o, d, iv in ((1, 1, [0, 1]), (2, 1, [0, 1]), (3, 2, [0, 1]), (2, 2, [-2, 3]), (2, 3, [0, 1])):
        ax.append(["ArbitraryOrderLagrange", {"order": o, "dim": d, "permute": True, "interval": iv}])
    return ax


AXIS = _axis()

META = {  # per-axis degree, order, completeness space, (lo, hi), number of bubble functions
    "Line": (1, 1, "Q", (-1, 1), 0),
    "Quad": (1, 1, "Q", (-1, 1), 0),
    "ConstantQuad": (0, 0, "P", (-1, 1), 0),
    "QuadraticQuad": (2, 2, "P", (-1, 1), 0),
    "BiQuadraticQuad": (2, 2, "Q", (-1, 1), 0),
    "Hexahedron": (1, 1, "Q", (-1, 1), 0),
    "ConstantHexahedron": (0, 0, "P", (-1, 1), 0),
    "QuadraticHexahedron": (2, 2, "P", (-1, 1), 0),
    "TriQuadraticHexahedron": (2, 2, "Q", (-1, 1), 0),
    "Triangle": (1, 1, "P", (0, 1), 0),
    "QuadraticTriangle": (2, 2, "P", (0, 1), 0),
    "TriangleMINI": (2, 1, "P", (0, 1), 1),
    "Tetra": (1, 1, "P", (0, 1), 0),
    "QuadraticTetra": (2, 2, "P", (0, 1), 0),
    "TetraMINI": (2, 1, "P", (0, 1), 1),
    "Vertex": (0, 0, "P", (-1, 1), 0),
}


def meta(ax):
    name, kw = ax
    if name == "ArbitraryOrderLagrange":
        return (kw["order"], kw["order"], "Q", tuple(kw.get("interval", (-1, 1))), 0)
    return META[name]


def in_tier(ax, tier):
    name, kw = ax
    if name == "ArbitraryOrderLagrange" and kw["dim"] == 3 and kw["order"] >= 5:
        return tier == "thorough"
    return True


@lru_cache(maxsize=None)
def _element(key):
    import json

    fem = import_felupe()
    name, kw = json.loads(key)
    return getattr(fem.element, name)(**kw)


def element(ax):
    return _element(jdump(ax))


def cheb(D, a, b):
    k = np.arange(D + 1)
    x = np.cos(np.pi * k / D)
    c = np.ones(D + 1)
    c[0] = c[-1] = 2
    c *= (-1.0) ** k
    X = np.tile(x, (D + 1, 1)).T
    dX = X - X.T
    Dm = np.outer(c, 1 / c) / (dX + np.eye(D + 1))
    Dm -= np.diag(Dm.sum(1))
    return (a + b) / 2 + (b - a) / 2 * x, Dm * 2 / (b - a)


@lru_cache(maxsize=None)
def _grid(key):
    import json

    ax = json.loads(key)
    el = element(ax)
    deg, order, space, (lo, hi), nb = meta(ax)
    dim = el.points.shape[1]
    D = max(deg, 1) + 2
    x, Dm = cheb(D, lo, hi)
    grid = np.array(list(itertools.product(x, repeat=dim)))
    H = np.array([np.asarray(el.function(p), float) for p in grid])
    n = H.shape[1]
    H = H.reshape(*(D + 1,) * dim, n)
    G = np.array([np.asarray(el.gradient(p), float) for p in grid]).reshape(*(D + 1,) * dim, n, dim)
    Hs = None
    hshape = None
    if hasattr(el, "hessian"):
        try:
            h0 = np.asarray(el.hessian(grid[0]), float)
            hshape = tuple(h0.shape)
            if hshape == (n, dim, dim):  # one (dim, dim) block per shape function; anything else is reported by the "shapes" item
                Hs = np.array([np.asarray(el.hessian(p), float) for p in grid]).reshape(*(D + 1,) * dim, n, dim, dim)
        except NotImplementedError:
            Hs = None
    return dict(x=x, Dm=Dm, grid=grid, H=H, G=G, Hs=Hs, D=D, dim=dim, n=n, hshape=hshape)


def grid(ax):
    return _grid(jdump(ax))


def monomials(ax):
    deg, order, space, (lo, hi), nb = meta(ax)
    dim = element(ax).points.shape[1]
    for e in itertools.product(range(order + 1), repeat=dim):
        if space == "Q" or sum(e) <= order:
            yield list(e)


def ident_cases(ax, tier):
    if not in_tier(ax, tier):
        return
    g = grid(ax)
    for a in range(g["n"]):
        yield {"id": "gradient", "a": a}
        if g["Hs"] is not None:
            yield {"id": "hessian", "a": a}
            yield {"id": "hessian-symmetric", "a": a}
        yield {"id": "kronecker", "a": a}
    yield {"id": "partition-of-unity"}
    yield {"id": "shapes"}
    for e in monomials(ax):
        yield {"id": "complete", "e": e}
    if ax[0] == "ArbitraryOrderLagrange":
        yield {"id": "permute"}
        yield {"id": "vtk-order"}


def ident_check(ax, case, rec):
    fem = import_felupe()
    el = element(ax)
    g = grid(ax)
    deg, order, space, (lo, hi), nb = meta(ax)
    dim, n, D = g["dim"], g["n"], g["D"]
    nn = n - nb  # nodal functions
    rec.nontrivial = True  # Chebyshev witness points are irrational except the end points/centre
    kind = case["id"]
    scale = D * D
    if kind == "gradient":
        a = case["a"]
        err = 0.0
        for k in range(dim):
            dH = np.moveaxis(np.tensordot(g["Dm"], g["H"][..., a], axes=(1, k)), 0, k)
            err = max(err, np.abs(dH - g["G"][..., a, k]).max())
        rec.close("gradient", err, 1e-10 * scale, {"node": a})
    elif kind == "hessian":
        a = case["a"]
        err = 0.0
        for k in range(dim):
            dG = np.moveaxis(np.tensordot(g["Dm"], g["G"][..., a, :], axes=(1, k)), 0, k)
            err = max(err, np.abs(dG - g["Hs"][..., a, :, k]).max())
        rec.close("hessian", err, 1e-9 * scale, {"node": a})
    elif kind == "hessian-symmetric":
        a = case["a"]
        Hs = g["Hs"][..., a, :, :]
        rec.close("hessian-symmetric", np.abs(Hs - np.swapaxes(Hs, -1, -2)).max(), 1e-12 * max(1.0, np.abs(Hs).max()), {"node": a})
    elif kind == "kronecker":
        a = case["a"]
        if order == 0:
            return
        P = np.asarray(el.points, float)
        vals = np.array([el.function(p)[a] for p in P[:nn]])
        if a < nn:
            ref = np.zeros(nn)
            ref[a] = 1
            rec.close("kronecker", np.abs(vals - ref).max(), 1e-12, {"node": a})
        else:  # bubble: zero at all vertices
            rec.close("bubble-zero-at-vertices", np.abs(vals).max(), 1e-13, {"node": a})
    elif kind == "partition-of-unity":
        rec.close("sum-h=1", np.abs(g["H"][..., :nn].sum(-1) - 1).max(), 1e-12)
        rec.close("sum-dh=0", np.abs(g["G"][..., :nn, :].sum(-2)).max(), 1e-11)
        if g["Hs"] is not None:
            rec.close("sum-d2h=0", np.abs(g["Hs"][..., :nn, :, :].sum(-3)).max(), 1e-10)
    elif kind == "shapes":
        if g["hshape"] is not None:
            # the second derivatives: one block per shape function, as the gradient has one row per shape function
            rec.require("hessian-shape", g["hshape"] == (n, dim, dim) and g["G"].shape[-2:] == (n, dim), [g["hshape"], (n, dim, dim)])
        if order == 0:
            return  # constant elements keep the geometry points of the cell, one function
        P = np.asarray(el.points)
        rec.require("points-shape", P.shape == (n, dim), str(P.shape))
        rec.require("cells-shape", np.asarray(el.cells).shape[0] == 1 and set(np.asarray(el.cells).ravel()) <= set(range(n)))
    elif kind == "complete":
        if order == 0:
            rec.close("complete", np.abs(g["H"].sum(-1) - 1).max(), 1e-12)
            return
        e = np.array(case["e"])
        P = np.asarray(el.points, float)[:nn]
        nod = np.prod(P**e, axis=1)
        got = g["H"][..., :nn] @ nod
        ref = np.prod(g["grid"] ** e, axis=1).reshape(got.shape)
        rec.close("complete", np.abs(got - ref).max(), 1e-10, {"monomial": case["e"]})
    elif kind == "permute":
        kw = dict(ax[1])
        e0 = fem.element.ArbitraryOrderLagrange(order=kw["order"], dim=kw["dim"], permute=False)
        e1 = fem.element.ArbitraryOrderLagrange(order=kw["order"], dim=kw["dim"], permute=True)
        a = sorted(map(tuple, np.asarray(e0.points).round(12).tolist()))
        b = sorted(map(tuple, np.asarray(e1.points).round(12).tolist()))
        rec.require("permute-same-point-set", a == b)
        # the same function belongs to the same point in both orderings
        idx = {tuple(np.round(p, 10)): i for i, p in enumerate(np.asarray(e0.points))}
        perm = [idx[tuple(np.round(p, 10))] for p in np.asarray(e1.points)]
        rng = np.random.default_rng(7)
        err = 0.0
        for r in rng.uniform(-1, 1, (5, kw["dim"])):
            err = max(err, np.abs(e1.function(r) - e0.function(r)[perm]).max(), np.abs(e1.gradient(r) - e0.gradient(r)[perm]).max())
        rec.close("permute-only-reorders", err, 1e-11)
        # unpermuted: first axis fastest
        x = np.linspace(-1, 1, kw["order"] + 1)
        P = np.array(list(itertools.product(x, repeat=kw["dim"])))[:, ::-1]
        rec.close("tensor-layout", np.abs(np.asarray(e0.points) - P).max(), 1e-14)
    elif kind == "vtk-order":
        kw = ax[1]
        if not kw["permute"] or kw["dim"] == 1:
            if kw["permute"] and kw["dim"] == 1:
                P = (np.asarray(el.points, float).ravel() - lo) / (hi - lo) * 2 - 1  # normalised to [-1, 1]
                rec.require("vtk-line-order", abs(P[0] + 1) < 1e-14 and abs(P[1] - 1) < 1e-14 and np.all(np.diff(P[2:]) > 0))
            return
        P = (np.asarray(el.points, float) - lo) / (hi - lo) * 2 - 1  # normalised to [-1, 1]
        onb = (np.abs(np.abs(P) - 1) < 1e-12).sum(1)  # number of coordinates on the boundary
        cls = kw["dim"] - onb  # 0 vertex, 1 edge, 2 face, 3 volume
        rec.require("vtk-class-order", bool(np.all(np.diff(cls) >= 0)), cls.tolist()[:30])
        base = (fem.element.Quad() if kw["dim"] == 2 else fem.element.Hexahedron()).points
        nv = 2 ** kw["dim"]
        rec.close("vtk-vertices", np.abs(P[:nv] - base).max(), 1e-14)
        # edge points: consecutive groups of (order-1) points on one edge, increasing along the free axis
        m = kw["order"] - 1
        ne = 4 if kw["dim"] == 2 else 12
        ok = True
        for k in range(ne):
            blk = P[nv + k * m : nv + (k + 1) * m]
            if m == 0:
                continue
            fixed = np.abs(np.abs(blk) - 1) < 1e-12
            free = ~fixed.all(0)
            ok &= bool(free.sum() == 1 and fixed[:, ~free].all())
        rec.require("vtk-edge-groups", ok)
        # edge / face sequence: block k is centred where the quadratic serendipity / Lagrange cell of the same
        # dimension has its k-th mid-edge / mid-face node, and runs from the first to the second vertex of the edge
        VTK_EDGES = [(0, 1), (1, 2), (2, 3), (3, 0), (4, 5), (5, 6), (6, 7), (7, 4), (0, 4), (1, 5), (2, 6), (3, 7)][:ne]
        if m > 0:
            q2 = np.asarray((fem.element.QuadraticQuad() if kw["dim"] == 2 else fem.element.QuadraticHexahedron()).points, float)
            okc, okd = True, True
            for k, (a, b) in enumerate(VTK_EDGES):
                blk = P[nv + k * m : nv + (k + 1) * m]
                okc &= bool(np.abs(blk.mean(0) - q2[nv + k]).max() < 1e-12)
                okc &= bool(np.abs(q2[nv + k] - 0.5 * (base[a] + base[b])).max() < 1e-12)
                if m > 1:
                    d = np.diff(blk @ (base[b] - base[a]))
                    okd &= bool(np.all(d > 0) or np.all(d < 0))  # monotone along the edge (VTK: increasing parametric coordinate)
            rec.require("vtk-edge-sequence", okc)
            rec.require("vtk-edge-monotone", okd)
            nfc = 1 if kw["dim"] == 2 else 6
            q3 = np.asarray((fem.element.BiQuadraticQuad() if kw["dim"] == 2 else fem.element.TriQuadraticHexahedron()).points, float)
            mf = m * m
            okf = True
            for k in range(nfc):
                blk = P[nv + ne * m + k * mf : nv + ne * m + (k + 1) * mf]
                okf &= bool(np.abs(blk.mean(0) - q3[nv + ne + k]).max() < 1e-12)
            rec.require("vtk-face-sequence", okf)


# ------------------------------------------------------------------------------------------------
def pt_strategy(ax, tier):
    name, kw = ax
    deg, order, space, (lo, hi), nb = meta(ax)
    d = {"seed": st.integers(0, 2**32 - 1), "facet": st.integers(0, 7)}
    if nb:
        d["mult"] = st.one_of(st.sampled_from([1.0, 0.1]), st.floats(0.05, 3.0))
    return st.fixed_dictionaries(d)


def ref_point(rng, dim, simplex):
    if simplex:
        b = rng.dirichlet(np.ones(dim + 1))
        return b[:dim]
    return rng.uniform(-1, 1, dim)


def pt_check(ax, case, rec):
    fem = import_felupe()
    name, kw = ax
    deg, order, space, (lo, hi), nb = meta(ax)
    if nb:
        el = getattr(fem.element, name)(bubble_multiplier=case["mult"])
    else:
        el = element(ax)
    dim = el.points.shape[1]
    simplex = lo == 0
    rng = np.random.default_rng(case["seed"])
    r = ref_point(rng, dim, simplex)
    rec.nontrivial = bool(np.min(np.abs(np.r_[r, np.abs(r) - 1, r - 0.5])) > 1e-3)
    h = 2e-3
    f = lambda p: np.asarray(el.function(p), float)  # noqa
    gfun = lambda p: np.asarray(el.gradient(p), float)  # noqa
    G = gfun(r).copy()
    n = len(f(r))
    nn = n - nb
    scale = max(1.0, np.abs(G).max())
    err = 0.0
    for k in range(dim):
        e = np.zeros(dim)
        e[k] = h
        fd = (8 * (f(r + e) - f(r - e)) - (f(r + 2 * e) - f(r - 2 * e))) / (12 * h)
        err = max(err, np.abs(fd - G[:, k]).max())
    rec.close("gradient-fd", err / scale, 1e-7, {"r": r.tolist()})
    if hasattr(el, "hessian"):
        Hs = np.asarray(el.hessian(r), float).copy()
        sc = max(1.0, np.abs(Hs).max())
        err = 0.0
        for k in range(dim):
            e = np.zeros(dim)
            e[k] = h
            fd = (8 * (gfun(r + e) - gfun(r - e)) - (gfun(r + 2 * e) - gfun(r - 2 * e))) / (12 * h)
            err = max(err, np.abs(fd - Hs[:, :, k]).max())
        rec.close("hessian-fd", err / sc, 1e-7, {"r": r.tolist()})
        rec.close("hessian-symmetric", np.abs(Hs - np.swapaxes(Hs, 1, 2)).max() / sc, 1e-12, {"r": r.tolist()})
    if order >= 1:
        rec.close("sum-h=1", abs(f(r)[:nn].sum() - 1), 1e-12)
    if nb:
        # bubble vanishes on every boundary facet: put the point on facet `facet % (dim+1)`
        b = rng.dirichlet(np.ones(dim + 1))
        k = case["facet"] % (dim + 1)
        b[k] = 0.0
        b /= b.sum()
        p = b[:dim]
        rec.close("bubble-zero-on-boundary", abs(f(p)[-1]), 1e-14 * max(1.0, case["mult"]), {"r": p.tolist()})
        # interior: bubble non-zero (not a vacuous zero function) and scales with the multiplier
        rec.require("bubble-nonzero-inside", abs(f(np.full(dim, 1 / (dim + 1)))[-1]) > 1e-6 * case["mult"])


AXQ = AXIS
FAMILIES = [
    Family("identities", AXIS, ident_check, cases=ident_cases, weight=5),
    Family("points", [a for a in AXIS if not (a[0] == "ArbitraryOrderLagrange" and a[1]["dim"] == 3 and a[1]["order"] >= 5)],
           pt_check, strategy=pt_strategy, n={"quick": 30, "thorough": 600}, chunk=300),
]

LEVEL_TEXT = (
    "Exhaustive over all element classes / Lagrange orders; derivative, Kronecker, partition-of-unity and completeness "
    "identities are decided as polynomial identities on a unisolvent Chebyshev witness grid (spectral differentiation), "
    "cross-checked at Hypothesis-drawn points by finite differences; bubble multipliers drawn."
)
LEVEL_NOTE = "assumes shape functions are polynomials of the documented per-axis degree (cross-checked by FD at drawn points); float64"
TECHNIQUE = "exhaustive enumeration of polynomial-identity witness sets + property-based testing (Hypothesis) with finite-difference oracle"
