"""C03 - every material's stress and elasticity are true derivatives."""
import numpy as np
from hypothesis import strategies as st

from vf.core import Family, import_felupe
from vf.gen import materials as gmat

PROPERTY = "C03"
RULE = (
    "finite axis = every registry model (hand-coded, tensortrax x 24, jax x 13 incl. total/updated-Lagrange wrappers, "
    "MORPH, micro-sphere) + mixed wrappers + small-strain / linear family + kinematic maps; Hypothesis draws admissible "
    "parameters, F = R U with principal stretches in the model's range (separated for spectral models), batch shape "
    "(broadcast axes included; fixed for jax), a 0-3 step pre-history that produces the stored state of history models, "
    "p / J-bar values for mixed wrappers, and the out= mode. Oracle: central finite differences (h = 1e-6) of the "
    "energy (where exposed) and of the returned stress at fixed stored state; all nine mixed blocks. Non-trivial: "
    "|F - I| >= 0.05 and J != 1; for history models a non-virgin state."
    ' Added later: a NearlyIncompressible wrapper with a user-supplied non-quadratic volumetric law; coaxial histories (directional derivatives along the principal stretches at full tolerance).'
)
ASSUMPTIONS = [
    "finite-difference oracle resolves relative errors >= 1e-6 (2e-5 for MORPH models: abs() kinks + 1e-6 regularisation)",
    "non-smooth points excluded by construction: separated stretches for spectral models, |f_trial| >= 1e-3 sigma_y, W != Wmax by 1e-3, non-zero increments for MORPH",
    "jax runs with jax_enable_x64",
]


def fd(g, x, h=1e-6):
    """d g / d x for g: array(*t, *batch) -> array(*s, *batch); perturbation is applied to all batch items at once."""
    x = np.asarray(x, float)
    nb = None
    out = None
    tshape = x.shape[: x.ndim - _nb(x)]
    for idx in np.ndindex(*tshape):
        d = np.zeros_like(x)
        d[idx] = h
        gp = np.array(g(x + d), dtype=float)
        gm = np.array(g(x - d), dtype=float)
        col = (gp - gm) / (2 * h)
        if out is None:
            nb = _nb(x)
            s = col.shape[: col.ndim - nb]
            out = np.zeros(s + tshape + col.shape[col.ndim - nb :])
        out[(slice(None),) * (col.ndim - nb) + idx] = col
    return out


_NB = [2]


def _nb(x):
    return _NB[0]


def rel(a, b, scale=None):
    a, b = np.asarray(a, float), np.asarray(b, float)
    if a.shape != b.shape:
        try:
            a, b = np.broadcast_arrays(a, b)
        except ValueError:
            return float("inf")
    sc = max(float(np.abs(b).max()), float(np.abs(a).max()), 1e-300) if scale is None else scale
    return float(np.abs(a - b).max()) / sc


# ---------------------------------------------------------------------------------------------------------------
def model_strategy(name, tier):
    e = gmat.REG[name]
    batches = ((2, 2),) if e["backend"] == "jax" else ((1, 1), (2, 3), (1, 4), (3, 1))
    return st.fixed_dictionaries({"params": e["params"], "F": gmat.st_Fcase(batches), "out": st.sampled_from(["none", "fresh", "reused"])})


def model_check(name, case, rec):
    e = gmat.REG[name]
    um = gmat.build(name, case["params"])
    rng = np.random.default_rng(case["F"]["fseed"])
    batch = tuple(case["F"]["batch"])
    lam = e["lam"]
    Qc = gmat.coaxial_Q(case["F"], batch) if e["nstate"] else None
    F = gmat.make_F(rng, batch, lam, sep=True, Q=Qc)
    _NB[0] = 2
    sv0 = gmat.virgin_state(name, batch)
    sv = sv0
    hist = case["F"]["hist"] if e["nstate"] else []
    if e["nstate"]:
        sv = gmat.drive_history(name, um, sv0, F, hist, batch, lam, Q=Qc)
        rec.label("coaxial-history" if Qc is not None and hist else "general-history" if hist else "no-history")
        rec.label("non-virgin-state" if hist and not np.array_equal(sv, sv0) else "virgin-state")
    J = np.linalg.det(np.moveaxis(F, (0, 1), (-2, -1)))
    rec.nontrivial = bool(np.abs(F - np.eye(3).reshape(3, 3, 1, 1)).max() >= 0.05 and np.abs(J - 1).max() > 1e-3)
    F0 = F.copy()
    sv_in = None if e["nstate"] == 0 and e["backend"] != "hand" else sv

    def P_of(F_):
        return np.array(um.gradient([F_.copy(), None if sv_in is None else sv_in.copy()])[0], dtype=float).copy()

    out = um.gradient([F.copy(), None if sv_in is None else sv_in.copy()])
    P = np.array(out[0], dtype=float).copy()
    A = np.array(um.hessian([F.copy(), None if sv_in is None else sv_in.copy()])[0], dtype=float).copy()
    rec.require("inputs-unchanged", np.array_equal(F, F0))
    if sv_in is not None and e["nstate"]:
        svh = sv_in.copy()
        um.gradient([F.copy(), svh])
        um.hessian([F.copy(), svh])
        rec.require("stored-state-unchanged-by-gradient/hessian", np.array_equal(svh, sv_in))
    rec.require("shapes", P.shape == (3, 3) + batch and A.shape[:4] == (3, 3, 3, 3), [P.shape, A.shape])
    # non-smooth points of history models: keep away from the switch
    if "ogden_roxburgh" in name.lower() or name.startswith("OgdenRoxburgh"):
        Wmax_new = np.array(out[-1], dtype=float)
        loading = bool(np.all(Wmax_new > sv * (1 + 1e-3) + 1e-12))
        unloading = bool(np.all(Wmax_new <= sv * (1 + 1e-12) + 1e-300)) and bool(np.all(sv > 0))
        if not (loading or unloading):
            rec.label("or-mixed-branch-skipped")
            mixed = True
        else:
            mixed = False
            rec.label("or-primary-loading" if loading else "or-unloading")
            # stay away from W = Wmax by margin: checked on the FD stencil through the returned state
        if mixed:
            return
    Afd = fd(P_of, F)
    sc = max(float(np.abs(A).max()), float(np.abs(Afd).max()), 1e-12)
    tol = e["tol_fd"]
    tag = ""
    if e["nstate"]:
        tag = "@history" if not np.array_equal(sv, sv0) else "@virgin"
    dev = float(np.abs(np.broadcast_to(A, Afd.shape) - Afd).max()) / sc
    if e["nstate"] and tol < dev < 50 * tol:
        # history models switch branches (running maxima, |.|, one switch per direction of a micro-sphere): a difference stencil
        # that straddles a switch is not a derivative. Decided by the stencil itself: if a ten times smaller step gives another
        # quotient, a documented non-smooth point is nearby and the comparison is not made; a genuine tangent error shows the
        # same deviation at both steps
        Afd2 = fd(P_of, F, h=1e-7)
        if float(np.abs(Afd2 - Afd).max()) / sc > 0.25 * dev:
            rec.label("non-smooth-point-inside-the-difference-stencil")
            dev = None
    if dev is not None:
        rec.close("A=dP/dF" + tag, dev, tol, {"params": case["params"]})
    if Qc is not None and tag == "@history":
        # coaxial history: directional derivatives along the three stretch directions (the perturbed states stay coaxial)
        Ab = np.broadcast_to(A, (3, 3, 3, 3) + batch)
        worst = 0.0
        for k in range(3):
            qq = np.stack([np.outer(Qc[i][:, k], Qc[i][:, k]) for i in range(len(Qc))], -1).reshape((3, 3) + batch)
            dF = np.einsum("ij...,jk...->ik...", F, qq)
            h = 1e-6
            dP = (P_of(F + h * dF) - P_of(F - h * dF)) / (2 * h)
            worst = max(worst, float(np.abs(np.einsum("ijkl...,kl...->ij...", Ab, dF) - dP).max()) / sc)
        rec.close("A:dF=dP[dF] along the principal stretches@history-coaxial", worst, tol, {"params": case["params"]})
    if e["energy"]:
        W = lambda F_: gmat.energy(name, case["params"], F_, sv_in)  # noqa
        Pfd = fd(W, F, h=1e-5)
        rec.close("P=dW/dF", rel(P, Pfd, max(float(np.abs(P).max()), 1e-3 * sc)), 1e-6, {"params": case["params"]})
    if e["hyper"] and e["nstate"] == 0:
        Ab = np.broadcast_to(A, Afd.shape)
        rec.close("A-major-symmetry", float(np.abs(Ab - np.transpose(Ab, (2, 3, 0, 1, 4, 5))).max()) / sc, 1e-9 if not e["spectral"] else 1e-6)
    # out= handling of the hand-coded models
    import inspect

    if e["backend"] == "hand" and case["out"] != "none" and "out" in inspect.signature(um.gradient).parameters:
        buf = np.full(P.shape, 3.5)
        r = um.gradient([F.copy(), sv_in], out=buf)[0]
        rec.close("gradient-out-buffer", rel(r, P), 1e-14)
        bufA = np.full((3, 3, 3, 3) + batch, 3.5)
        rA = um.hessian([F.copy(), sv_in], out=bufA)[0]
        rec.close("hessian-out-buffer", rel(rA, np.broadcast_to(A, rA.shape)), 1e-14)
        if case["out"] == "reused":
            r2 = um.gradient([F.copy(), sv_in], out=r)[0]
            rec.close("gradient-out-reused", rel(r2, P), 1e-14)
            rA2 = um.hessian([F.copy(), sv_in], out=rA)[0]
            rec.close("hessian-out-reused", rel(rA2, np.broadcast_to(A, rA2.shape)), 1e-14)
    rec.label(f"batch={batch}")


# ---------------------------------------------------------------------------------------------------------------
# mixed wrappers
# ---------------------------------------------------------------------------------------------------------------
MIXED = ["ThreeFieldVariation(NeoHooke)", "NearlyIncompressible(NeoHooke)", "NearlyIncompressible(NeoHooke, U=K/4(J^2-1-2lnJ))", "ThreeFieldVariation(tt:yeoh)", "NearlyIncompressible(tt:mooney_rivlin)",
         "ThreeFieldVariation(OgdenRoxburgh)", "NearlyIncompressible(jax:yeoh)", "ThreeFieldVariation(user:nonsymmetric-tangent)",
         "NearlyIncompressible(user:nonsymmetric-tangent)", "ThreeFieldVariation(tt:finite_strain_viscoelastic & Volumetric)",
         "NearlyIncompressible(tt:finite_strain_viscoelastic)"]


def mixed_strategy(name, tier):
    return st.fixed_dictionaries({"mu": gmat.fl(0.3, 3), "bulk": gmat.fl(1, 100), "c2": gmat.fl(0.0, 0.2), "fseed": st.integers(0, 2**32 - 1),
                                  "batch": st.sampled_from([[1, 1], [2, 2], [1, 3]]) if "jax" not in name else st.just([2, 2]),
                                  "pamp": gmat.fl(0.05, 1.0), "Jamp": gmat.fl(0.02, 0.2), "hist": st.integers(0, 2)})


def mixed_build(name, c):
    fem = import_felupe()
    if name == "ThreeFieldVariation(NeoHooke)":
        return fem.ThreeFieldVariation(fem.NeoHooke(mu=c["mu"], bulk=c["bulk"])), 0
    if name == "NearlyIncompressible(NeoHooke)":
        return fem.NearlyIncompressible(fem.NeoHooke(mu=c["mu"]), bulk=c["bulk"]), 0
    if name == "ThreeFieldVariation(tt:yeoh)":
        return fem.ThreeFieldVariation(gmat.build("tt:yeoh", {"C10": c["mu"] / 2, "C20": c["c2"], "C30": 0.01})), 0
    if name == "NearlyIncompressible(tt:mooney_rivlin)":
        return fem.NearlyIncompressible(gmat.build("tt:mooney_rivlin", {"C10": c["mu"] / 2, "C01": c["c2"]}), bulk=c["bulk"]), 0
    if name == "NearlyIncompressible(jax:yeoh)":
        return fem.NearlyIncompressible(gmat.build("jax:yeoh", {"C10": c["mu"] / 2, "C20": c["c2"], "C30": 0.01}), bulk=c["bulk"]), 0
    if name == "NearlyIncompressible(NeoHooke, U=K/4(J^2-1-2lnJ))":
        # user-supplied (non-quadratic) volumetric law: U' = K/2 (J - 1/J), U'' = K/2 (1 + 1/J^2)
        return fem.NearlyIncompressible(fem.NeoHooke(mu=c["mu"]), bulk=c["bulk"], dUdJ=lambda J, bulk: bulk / 2 * (J - 1 / J),
                                        d2UdJdJ=lambda J, bulk: bulk / 2 * (1 + 1 / J**2)), 0
    if name in ("ThreeFieldVariation(user:nonsymmetric-tangent)", "NearlyIncompressible(user:nonsymmetric-tangent)"):
        # a base law without potential: P = mu F + beta tr(F) F, its (exact) tangent has no major symmetry - F:A and A:F differ
        I3 = np.eye(3)

        def stress(x, mu, beta):
            F_ = x[0]
            return [mu * F_ + beta * np.trace(F_) * F_, x[1]]

        def elasticity(x, mu, beta):
            F_ = x[0]
            one = np.ones((1, 1, 1, 1) + F_.shape[2:])
            A_ = (mu + beta * np.trace(F_)) * np.einsum("ik,jl->ijkl", I3, I3).reshape(3, 3, 3, 3, 1, 1) * one
            return [A_ + beta * np.einsum("ij...,kl->ijkl...", F_, I3)]

        base = fem.Material(stress, elasticity, mu=c["mu"], beta=0.2 + c["c2"])
        return (fem.ThreeFieldVariation(base) if name.startswith("Three") else fem.NearlyIncompressible(base, bulk=c["bulk"])), 0
    if name in ("ThreeFieldVariation(tt:finite_strain_viscoelastic & Volumetric)", "NearlyIncompressible(tt:finite_strain_viscoelastic)"):
        # a history material whose state update is NOT idempotent (evaluating twice moves the state twice): stress and every block of
        # the tangent are those of the SAME stored state
        visco = gmat.build("tt:finite_strain_viscoelastic", {"mu": c["mu"], "eta": 1.0 + 10 * c["c2"], "dtime": 0.5})
        if name.startswith("Three"):
            return fem.ThreeFieldVariation(visco & fem.Volumetric(bulk=c["bulk"])), 6
        return fem.NearlyIncompressible(visco, bulk=c["bulk"]), 6
    if name == "ThreeFieldVariation(OgdenRoxburgh)":
        return fem.ThreeFieldVariation(fem.OgdenRoxburgh(fem.NeoHooke(mu=c["mu"], bulk=c["bulk"]), r=3.0, m=1.0, beta=c["c2"])), 1
    raise KeyError(name)


def mixed_check(name, case, rec):
    um, ns = mixed_build(name, case)
    rng = np.random.default_rng(case["fseed"])
    batch = tuple(case["batch"])
    _NB[0] = 2
    F = gmat.make_F(rng, batch, (0.75, 1.4), sep=True)
    p = case["pamp"] * rng.uniform(-1, 1, (1,) + batch)
    Jb = 1 + case["Jamp"] * rng.uniform(-1, 1, (1,) + batch)
    sv = np.zeros((ns,) + batch)
    if ns and case["hist"]:
        # pre-history at a larger deformation: unloading branch afterwards
        I = np.eye(3).reshape(3, 3, 1, 1)
        sv = np.array(um.gradient([I + 1.6 * (F - I), p, Jb, sv])[-1], dtype=float).copy()
    if ns and not case["hist"]:
        sv = sv  # virgin: primary loading
    rec.nontrivial = bool(np.abs(p).min() > 1e-4 and np.abs(Jb - np.linalg.det(np.moveaxis(F, (0, 1), (-2, -1)))).min() > 1e-4)

    def G(F_, p_, J_):
        o = um.gradient([F_.copy(), p_.copy(), J_.copy(), sv.copy()])
        return [np.array(a, dtype=float).copy() for a in o[:3]]

    # (the wrapper was last asked for the stress of ANOTHER state: nothing of that evaluation may enter the tangent of this one)
    I_ = np.eye(3).reshape(3, 3, 1, 1)
    um.gradient([I_ + 0.5 * (F - I_), 0.5 * p, 1 + 0.5 * (Jb - 1), sv.copy()])
    H = um.hessian([F.copy(), p.copy(), Jb.copy(), sv.copy()])
    H = [None if a is None else np.array(a, dtype=float).copy() for a in H]
    Auu, Aup, AuJ, App, ApJ, AJJ = H
    sc = float(np.abs(Auu).max())
    z = lambda a, like: np.zeros_like(like) if a is None else np.broadcast_to(a.reshape(a.shape[: a.ndim - 2] + a.shape[-2:]) if False else a, like.shape) if a.size == like.size or True else a  # noqa

    def cmp(nm, a, fdv):
        if a is None:
            rec.close(nm + "(None=zero)", float(np.abs(fdv).max()) / sc, 1e-7)
            return
        a = np.asarray(a, float)
        if a.size != fdv.size:
            try:
                a = np.broadcast_to(a, fdv.shape)
            except ValueError:
                a = np.broadcast_to(a.reshape(a.shape[: a.ndim - 2] + (1,) * (fdv.ndim - a.ndim) + a.shape[-2:]), fdv.shape)
        rec.close(nm, float(np.abs(a.reshape(fdv.shape) - fdv).max()) / sc, 1e-6)

    fuu = fd(lambda F_: G(F_, p, Jb)[0], F)
    fpu = fd(lambda F_: G(F_, p, Jb)[1], F)  # (1, 3, 3, batch)
    fJu = fd(lambda F_: G(F_, p, Jb)[2], F)
    fup = fd(lambda p_: G(F, p_, Jb)[0], p)  # (3, 3, 1, batch)
    fpp = fd(lambda p_: G(F, p_, Jb)[1], p)
    fJp = fd(lambda p_: G(F, p_, Jb)[2], p)
    fuJ = fd(lambda J_: G(F, p, J_)[0], Jb)
    fpJ = fd(lambda J_: G(F, p, J_)[1], Jb)
    fJJ = fd(lambda J_: G(F, p, J_)[2], Jb)
    cmp("uu", Auu, fuu)
    cmp("up", Aup, fup.reshape((3, 3) + fup.shape[3:]) if Aup is not None and Aup.ndim == 4 else fup)
    if name == "ThreeFieldVariation(user:nonsymmetric-tangent)":
        # the three-field variation is derived from a potential; for a base law without one d(r_u)/dJ and d(r_J)/dF differ and the
        # single stored (u, J) block can equal only one of them: not decided. The (u, u) block is well defined and must be exact.
        rec.label("(u,J)-block-of-a-non-potential-base-law-not-decided")
    else:
        cmp("uJ", AuJ, fuJ.reshape((3, 3) + fuJ.shape[3:]) if AuJ is not None and AuJ.ndim == 4 else fuJ)
    cmp("pp", App, fpp)
    cmp("pJ", ApJ, fpJ)
    cmp("JJ", AJJ, fJJ)
    # lower triangle = transposes of the returned upper blocks
    cmp("pu=up^T", Aup, fpu.reshape((3, 3) + fpu.shape[3:]) if Aup is not None and Aup.ndim == 4 else np.moveaxis(fpu, 0, 2))
    cmp("Ju=uJ^T", AuJ, fJu.reshape((3, 3) + fJu.shape[3:]) if AuJ is not None and AuJ.ndim == 4 else np.moveaxis(fJu, 0, 2))
    cmp("Jp=pJ^T", ApJ, fJp)


# ---------------------------------------------------------------------------------------------------------------
# small-strain / linear family, Laplace, plasticity, composite
# ---------------------------------------------------------------------------------------------------------------
SMALL = ["LinearElastic", "LinearElasticTensorNotation", "LinearElasticPlaneStrain", "LinearElasticPlaneStress", "LinearElasticOrthotropic",
         "Laplace", "MaterialStrain(linear_elastic)", "LinearElasticPlasticIsotropicHardening", "CompositeMaterial(NeoHooke,Volumetric)",
         "Material(user)"]


def small_strategy(name, tier):
    return st.fixed_dictionaries({"E": gmat.fl(0.5, 200), "nu": gmat.fl(-0.3, 0.45), "sy": gmat.fl(0.5, 3), "K": gmat.fl(0.0, 20),
                                  "oseed": st.integers(0, 10**6), "fseed": st.integers(0, 2**32 - 1), "batch": st.sampled_from([[1, 1], [2, 3], [1, 4]]),
                                  "amp": st.sampled_from([0.002, 0.01, 0.03]), "steps": st.integers(0, 3)})


def small_build(name, c):
    fem = import_felupe()
    if name in ("LinearElastic", "LinearElasticTensorNotation", "LinearElasticPlaneStrain", "LinearElasticPlaneStress"):
        return getattr(fem.constitution, name)(E=c["E"], nu=c["nu"]), (2 if "Plane" in name else 3), 0
    if name == "LinearElasticOrthotropic":
        r = np.random.default_rng(c["oseed"])
        E = (c["E"] * r.uniform(0.5, 2, 3)).tolist()
        nu = r.uniform(0.05, 0.3, 3).tolist()
        G = (c["E"] * r.uniform(0.2, 0.6, 3)).tolist()
        return fem.LinearElasticOrthotropic(E=E, nu=nu, G=G), 3, 0
    if name == "Laplace":
        return fem.Laplace(multiplier=c["E"]), 3, 0
    if name == "MaterialStrain(linear_elastic)":
        lm, mu = c["E"] * c["nu"] / ((1 + c["nu"]) * (1 - 2 * c["nu"])), c["E"] / (2 * (1 + c["nu"]))
        return fem.MaterialStrain(material=fem.linear_elastic, **{"λ": lm, "μ": mu}), 3, 18
    if name == "LinearElasticPlasticIsotropicHardening":
        return fem.LinearElasticPlasticIsotropicHardening(E=c["E"], nu=max(c["nu"], 0.0), sy=c["sy"], K=c["K"]), 3, 28
    if name == "CompositeMaterial(NeoHooke,Volumetric)":
        return fem.CompositeMaterial(fem.NeoHooke(mu=c["sy"]), fem.Volumetric(bulk=c["E"])), 3, 0
    if name == "Material(user)":
        mu, lm = c["sy"], c["E"]

        def stress(x, mu, lmbda):
            F = x[0]
            C = np.einsum("ki...,kj...->ij...", F, F)
            E = (C - np.eye(3).reshape(3, 3, 1, 1)) / 2
            S = 2 * mu * E + lmbda * np.trace(E) * np.eye(3).reshape(3, 3, 1, 1)
            return [np.einsum("ik...,kj...->ij...", F, S), x[1]]

        def elasticity(x, mu, lmbda):
            F = x[0]
            I = np.eye(3)
            C = np.einsum("ki...,kj...->ij...", F, F)
            E = (C - I.reshape(3, 3, 1, 1)) / 2
            S = 2 * mu * E + lmbda * np.trace(E) * I.reshape(3, 3, 1, 1)
            C4 = mu * (np.einsum("ik,jl->ijkl", I, I) + np.einsum("il,jk->ijkl", I, I)) + lmbda * np.einsum("ij,kl->ijkl", I, I)
            A = np.einsum("iI,kK,IJKL...->iJkL...", F[..., 0, 0] * 0 + F[..., 0, 0], F[..., 0, 0], C4) if False else None
            A = np.einsum("iI...,kK...,IJKL->iJkL...", F, F, C4) + np.einsum("ik,JL...->iJkL...", I, S)
            return [A]

        return fem.Material(stress, elasticity, mu=mu, lmbda=lm), 3, 0
    raise KeyError(name)


def small_check(name, case, rec):
    um, dim, ns = small_build(name, case)
    rng = np.random.default_rng(case["fseed"])
    batch = tuple(case["batch"])
    _NB[0] = 2
    I = np.eye(dim).reshape(dim, dim, 1, 1)
    finite = name.startswith(("Composite", "Material(user)"))
    amp = 0.25 if finite else case["amp"]
    F = I + amp * rng.uniform(-1, 1, (dim, dim) + batch)
    sv = np.zeros((ns,) + batch)
    rec.nontrivial = True
    plastic = name == "LinearElasticPlasticIsotropicHardening"
    if ns:
        # drive through `steps` increments; amplitudes chosen such that plastic flow occurs for amp >= 0.01
        scale = case["sy"] / case["E"] if plastic else 1.0
        # batches that mix yielding and elastic points (onset of yielding, bending): the strains of the first item are a
        # thousand times smaller throughout the history, it never leaves the elastic range
        damp = np.ones(int(np.prod(batch)))
        if plastic and damp.size > 1 and case["oseed"] % 2 == 0:
            damp[0] = 1e-3
        damp = damp.reshape(batch)
        for k in range(case["steps"]):
            Fk = I + damp * (20 * scale if plastic else amp) * (k + 1) / 3 * rng.uniform(-1, 1, (dim, dim) + batch)
            sv = np.array(um.gradient([Fk, sv])[-1], dtype=float).copy()
        if plastic:
            F = I + damp * 20 * scale * rng.uniform(-1, 1, (dim, dim) + batch)
            new = np.array(um.gradient([F.copy(), sv.copy()])[-1], dtype=float)
            dalpha = new[0] - sv[0]
            rec.label("plastic-step" if np.all(dalpha > 1e-12) else ("elastic-step" if np.all(dalpha <= 1e-14) else "mixed-items"))

    def P_of(F_):
        return np.array(um.gradient([F_.copy(), sv.copy()])[0], dtype=float).copy()

    P = P_of(F)
    A = np.array(um.hessian([F.copy(), sv.copy()])[0], dtype=float).copy()
    if ns:
        # the stored state handed in is an input: gradient() and hessian() return the new state, they do not touch the old
        # one (SolidBody calls both with the same arrays), and a repeated call returns the same stress
        svh = sv.copy()
        xin = [F.copy(), svh]
        P1 = np.array(um.gradient(xin)[0], dtype=float).copy()
        rec.require("gradient-leaves-the-stored-state-unchanged", np.array_equal(svh, sv))
        um.hessian(xin)
        rec.require("hessian-leaves-the-stored-state-unchanged", np.array_equal(svh, sv))
        P2 = np.array(um.gradient(xin)[0], dtype=float).copy()
        rec.close("repeated-call-same-stress", float(np.abs(P2 - P1).max()) / max(float(np.abs(P1).max()), 1e-300), 0.0)
    h = 1e-6 if not plastic else 1e-7 * 20 * case["sy"] / case["E"] * 50
    Afd = fd(P_of, F, h=h)
    sc = max(float(np.abs(A).max()), float(np.abs(Afd).max()))
    Ab = np.broadcast_to(A.reshape(A.shape[:4] + (1,) * (6 - A.ndim)) if A.ndim < 6 else A, Afd.shape)
    rec.close("A=dP/dF", float(np.abs(Ab - Afd).max()) / sc, 1e-6 if not plastic else 1e-5, {"E": case["E"], "nu": case["nu"]})
    if name in ("LinearElastic", "LinearElasticTensorNotation", "LinearElasticPlaneStrain", "LinearElasticPlaneStress", "LinearElasticOrthotropic", "Laplace"):
        # linear: stress = A : (F - I)
        ref = np.einsum("ijkl...,kl...->ij...", Ab, F - I)
        rec.close("linear-stress=A:H", float(np.abs(P - ref).max()) / max(float(np.abs(P).max()), 1e-300), 1e-10)
        rec.close("stress-free-at-I", float(np.abs(P_of(I + 0 * F)).max()) / sc, 1e-14)


# ---------------------------------------------------------------------------------------------------------------
# kinematics
# ---------------------------------------------------------------------------------------------------------------
KIN = ["AreaChange", "AreaChange(N)", "VolumeChange", "LineChange"]


def kin_strategy(name, tier):
    return st.fixed_dictionaries({"fseed": st.integers(0, 2**32 - 1), "batch": st.sampled_from([[1, 1], [2, 3], [3, 1]]), "par": st.booleans()})


def kin_check(name, case, rec):
    fem = import_felupe()
    rng = np.random.default_rng(case["fseed"])
    batch = tuple(case["batch"])
    _NB[0] = 2
    F = gmat.make_F(rng, batch, (0.6, 1.7), sep=False)
    rec.nontrivial = True
    N = rng.uniform(-1, 1, (3,) + batch)
    if name.startswith("AreaChange"):
        k = fem.AreaChange(parallel=case["par"])
        kw = {"N": N} if name.endswith("(N)") else {}
        f = lambda F_: np.array(k.function([F_], **kw)[0], dtype=float).copy()  # noqa
        g = lambda F_: np.array(k.gradient([F_], **kw)[0], dtype=float).copy()  # noqa
        hs = None  # AreaChange provides function and gradient only
        # definition: cofactor J F^-T (times N)
        Fm = np.moveaxis(F, (0, 1), (-2, -1))
        cof = np.moveaxis(np.linalg.det(Fm)[..., None, None] * np.swapaxes(np.linalg.inv(Fm), -1, -2), (-2, -1), (0, 1))
        ref = np.einsum("ij...,j...->i...", cof, N) if kw else cof
        rec.close("function=cofactor", rel(f(F), ref), 1e-12)
    elif name == "VolumeChange":
        k = fem.VolumeChange(parallel=case["par"])
        f = lambda F_: np.array(k.function([F_])[0], dtype=float).copy()  # noqa
        g = lambda F_: np.array(k.gradient([F_])[0], dtype=float).copy()  # noqa
        hs = lambda F_: np.array(k.hessian([F_])[0], dtype=float).copy()  # noqa
        rec.close("function=det", rel(f(F), np.linalg.det(np.moveaxis(F, (0, 1), (-2, -1)))), 1e-12)
    else:
        k = fem.LineChange(parallel=case["par"])
        f = lambda F_: np.array(k.function([F_])[0], dtype=float).copy()  # noqa
        g = lambda F_: np.array(k.gradient([F_])[0], dtype=float).copy()  # noqa
        hs = None
    G = g(F)
    Gfd = fd(f, F)
    rec.close("gradient=d(function)", rel(np.broadcast_to(G, Gfd.shape), Gfd), 1e-7)
    if hs is not None:
        H = hs(F)
        Hfd = fd(g, F)
        rec.close("hessian=d(gradient)", rel(np.broadcast_to(H, Hfd.shape), Hfd), 1e-7)


FAMILIES = [
    Family("model", gmat.NAMES, model_check, strategy=model_strategy, n={"quick": 6, "thorough": 80}, chunk=80, weight=3),
    Family("mixed", MIXED, mixed_check, strategy=mixed_strategy, n={"quick": 5, "thorough": 80}, chunk=80, weight=2),
    Family("small", SMALL, small_check, strategy=small_strategy, n={"quick": 8, "thorough": 150}, chunk=150),
    Family("kinematics", KIN, kin_check, strategy=kin_strategy, n={"quick": 8, "thorough": 150}, chunk=150),
]

LEVEL_TEXT = (
    "Every built-in model enumerated; Hypothesis draws parameters, deformation gradients, batch shapes and "
    "pre-histories; returned stress / elasticity / mixed blocks compared with central finite differences of the energy "
    "resp. the stress at fixed stored state."
)
LEVEL_NOTE = "finite differences resolve errors >= 1e-6 relative; non-smooth points excluded by construction; jax in x64 mode"
TECHNIQUE = "property-based testing (Hypothesis) with numerical-differentiation oracle over an exhaustively enumerated model axis"
