"""C20 - result and mesh files contain exactly what was computed."""
import os
import shutil
import tempfile

import numpy as np
from hypothesis import strategies as st

from vf.core import Family, import_felupe
from vf.gen import meshes as gm

PROPERTY = "C20"
RULE = (
    "family 'mesh': finite axis = cell type (line, quad 4/8/9, triangle 3/6, hexahedron 8/20/27, tetra 4/10, "
    "VTK_LAGRANGE quad / hexahedron) x file format (vtk, vtu, xdmf); Hypothesis draws the mesh (cells per axis, "
    "distortion, curvature, affine map with large translations). Round trip: write, read back, compare points "
    "bit-for-bit, cells and cell type. family 'container': containers of 2-3 cell blocks written and read with "
    "merge=True (one shared points array, duplicates merged, geometry kept). family 'job': generated jobs (1-3 steps x "
    "1-5 substeps, optional non-converging substep, custom point / cell data callbacks, defaults on / off) evaluated "
    "with a file name; the sequence seen by the job callback is the reference: one frame per converged substep, in "
    "order, times 0,1,2,..., displacement and documented cell data per frame. family 'save': tools.save round trip "
    "(displacements, reaction forces, optional Cauchy stresses). Non-trivial: >= 2 frames with different displacements "
    "/ meshes with >= 2 cells."
    ' Every cell block of a multi-block file is also read by its index (cellblock=0, 1, ...).'
)
ASSUMPTIONS = [
    "meshio is the reader used for the oracle; XDMF cannot store VTK_LAGRANGE cells (meshio KeyError): excluded and counted",
    "scratch directories are created per case under the system temp dir with the cwd set to them (meshio writes the .h5 next to the cwd)",
    "a non-converging substep is injected with a NaN ramp value",
]

KINDS = ["line", "quad", "quad8", "quad9", "triangle", "triangle6", "hexahedron", "hexahedron20", "hexahedron27", "tetra", "tetra10",
         "lagrange-quad-2", "lagrange-quad-3", "lagrange-hex-2", "lagrange-hex-3"]
FORMATS = ["vtk", "vtu", "xdmf"]
MESH_AXIS = [[k, f] for k in KINDS for f in FORMATS if not (k.startswith("lagrange") and f == "xdmf")]


class scratch:
    def __enter__(self):
        self.old = os.getcwd()
        self.dir = tempfile.mkdtemp(prefix="vf_c20_")
        os.chdir(self.dir)
        return self.dir

    def __exit__(self, *a):
        os.chdir(self.old)
        shutil.rmtree(self.dir, ignore_errors=True)


def fl(lo, hi, nd=3):
    return st.floats(lo, hi, allow_nan=False).map(lambda v: round(v, nd))


def mesh_strategy(ax, tier):
    kind, fmt = ax
    return st.fixed_dictionaries({"mesh": gm.st_mesh(kind, tier, max_n=3), "dimarg": st.booleans()})


def mesh_check(ax, case, rec):
    fem = import_felupe()
    kind, fmt = ax
    mesh, info = gm.build(case["mesh"])
    rec.nontrivial = mesh.ncells >= 2 or kind.startswith("lagrange")
    with scratch():
        fn = f"mesh.{fmt}"
        mesh.write(fn)
        cont = fem.mesh.read(fn, dim=mesh.dim) if case["dimarg"] or mesh.dim < 3 else fem.mesh.read(fn)
        rec.require("one-cell-block", len(cont.meshes) == 1, len(cont.meshes))
        m2 = cont.meshes[0]
        rec.require("cell-type", m2.cell_type == mesh.cell_type, [m2.cell_type, mesh.cell_type])
        rec.require("cells", np.array_equal(np.asarray(m2.cells), np.asarray(mesh.cells)))
        P1, P2 = np.asarray(mesh.points), np.asarray(m2.points)
        rec.require("points-shape", P1.shape == P2.shape, [P1.shape, P2.shape])
        if P1.shape == P2.shape:
            rec.close("points-bit-identical", float(np.abs(P1 - P2).max()), 0.0)
        if mesh.dim < 3:
            full = fem.mesh.read(fn)
            Pf = np.asarray(full.meshes[0].points)
            rec.require("points-padded-with-zeros-on-write", Pf.shape[1] == 3 and np.array_equal(Pf[:, : mesh.dim], P1) and not np.any(Pf[:, mesh.dim :]), list(Pf.shape))
    if fmt == "vtu" and mesh.cell_type is not None and mesh.cell_type in dict(fem.mesh.cell_types()):
        # the in-memory route of the same round trip: Mesh -> pyvista.UnstructuredGrid -> MeshContainer
        grid = mesh.as_unstructured_grid()
        back = fem.MeshContainer.from_unstructured_grid(grid, dim=mesh.dim)
        ok = len(back.meshes) == 1
        if ok:
            mb = back.meshes[0]
            ok = (mb.cell_type == mesh.cell_type and np.array_equal(np.asarray(mb.cells), np.asarray(mesh.cells))
                  and np.asarray(mb.points).shape == np.asarray(mesh.points).shape and np.allclose(np.asarray(mb.points), np.asarray(mesh.points), rtol=0, atol=0))
        rec.require("unstructured-grid-round-trip", bool(ok), {"blocks": len(back.meshes), "type": [m_.cell_type for m_ in back.meshes]})


# ---------------------------------------------------------------------------------------------------------------
def cont_strategy(dimkind, tier):
    dim = 2 if dimkind == "2d" else 3
    member = st.fixed_dictionaries({"n": st.lists(st.integers(2, 3), min_size=dim, max_size=dim), "size": st.lists(fl(0.4, 1.5), min_size=dim, max_size=dim),
                                    "tri": st.booleans(), "touch": st.booleans()})
    return st.fixed_dictionaries({"members": st.lists(member, min_size=2, max_size=3), "fmt": st.sampled_from(["vtu", "vtk", "xdmf"]), "decimals": st.one_of(st.none(), st.integers(6, 10))})


def cont_check(dimkind, case, rec):
    fem = import_felupe()
    from vf.props.c16 import volumes

    dim = 2 if dimkind == "2d" else 3
    off = 0.0
    meshes = []
    for i_, ms in enumerate(case["members"]):
        ms = dict(ms, tri=(i_ % 2 == 1))  # alternate cell types: readers merge neighbouring blocks of the same type
        a = np.zeros(dim)
        a[0] = off
        b = a + np.array(ms["size"])
        m = (fem.Rectangle if dim == 2 else fem.Cube)(a=tuple(a), b=tuple(b), n=tuple(ms["n"]))
        if ms["tri"]:
            m = m.triangulate()
        off = float(b[0]) + (0.0 if ms["touch"] else 0.41)
        meshes.append(m)
    cont = fem.MeshContainer(meshes)
    rec.nontrivial = True
    with scratch():
        fn = "cont." + case["fmt"]
        cont.as_meshio(combined=False).write(fn)
        # combined export (default): one block per cell type with the members' cells in member order
        fn2 = "comb." + case["fmt"]
        cont.as_meshio().write(fn2)
        cc = fem.mesh.read(fn2, dim=dim)
        per_type = {}
        for m1 in meshes:
            per_type.setdefault(m1.cell_type, []).append(np.asarray(cont.points)[np.asarray(cont.meshes[meshes.index(m1)].cells)])
        rec.require("combined:one-block-per-type", sorted(m_.cell_type for m_ in cc.meshes) == sorted(per_type), [[m_.cell_type for m_ in cc.meshes], sorted(per_type)])
        for m_ in cc.meshes:
            if m_.cell_type in per_type:
                refc = np.vstack(per_type[m_.cell_type])
                gotc = np.asarray(cc.points)[np.asarray(m_.cells)]
                rec.close("combined:cell-corner-positions", float(np.abs(gotc - refc).max()) if gotc.shape == refc.shape else float("inf"), 1e-15, {"type": m_.cell_type})
        # single cell blocks selected by their index (the first one, index 0, included)
        npts_file = sum(m.npoints for m in meshes)
        for i_, m1 in enumerate(meshes):
            ci = fem.mesh.read(fn, dim=dim, cellblock=i_)
            ok = rec.require("cellblock=i:one-mesh", len(ci.meshes) == 1, {"cellblock": i_, "meshes": len(ci.meshes)})
            if ok:
                mi = ci.meshes[0]
                rec.require("cellblock=i:cell-type-and-cells", mi.cell_type == m1.cell_type and np.asarray(mi.cells).shape == np.asarray(m1.cells).shape, {"cellblock": i_})
                rec.require("cellblock=i:points-of-the-file", len(np.asarray(ci.points)) == npts_file, {"cellblock": i_, "points": len(np.asarray(ci.points)), "file": npts_file})
                if np.asarray(mi.cells).shape == np.asarray(m1.cells).shape and np.asarray(mi.cells).max() < len(np.asarray(ci.points)):
                    rec.close("cellblock=i:cell-corner-positions", float(np.abs(np.asarray(ci.points)[np.asarray(mi.cells)] - np.asarray(m1.points)[np.asarray(m1.cells)]).max()), 1e-15)
        c2 = fem.mesh.read(fn, dim=dim, merge=True, decimals=case["decimals"])
        rec.require("block-count", len(c2.meshes) == len(meshes), [len(c2.meshes), len(meshes)])
        P = np.asarray(c2.points)
        rec.require("one-shared-points-array", all(m.points is c2.points for m in c2.meshes))
        allp = np.vstack([np.asarray(m.points) for m in meshes])
        key = allp if case["decimals"] is None else np.round(allp, case["decimals"])
        nuniq = len(np.unique(key, axis=0))
        rec.require("duplicates-merged", len(P) == nuniq, [len(P), nuniq])
        for m1, m2 in zip(meshes, c2.meshes):
            rec.require("cell-type", m1.cell_type == m2.cell_type)
            C1, C2 = np.asarray(m1.cells), np.asarray(m2.cells)
            if C1.shape == C2.shape and C2.max() < len(P):
                tol = 0.0 if case["decimals"] is None else 0.5 * 10.0 ** (-case["decimals"]) * 1.01
                rec.close("cell-corner-positions", float(np.abs(P[C2] - np.asarray(m1.points)[C1]).max()), tol + 1e-16)
            else:
                rec.require("cells-shape", False, [C1.shape, C2.shape])


# ---------------------------------------------------------------------------------------------------------------
def job_strategy(kind, tier):
    ramp = st.lists(fl(-0.15, 0.3), min_size=1, max_size=5 if tier == "quick" else 8)
    return st.fixed_dictionaries({"n": st.lists(st.integers(2, 3), min_size=3, max_size=3), "steps": st.lists(ramp, min_size=1, max_size=3 if tier == "quick" else 4), "fail": st.one_of(st.none(), st.none(), st.integers(0, 8)),
                                  "pdefault": st.booleans(), "cdefault": st.booleans(), "custom": st.booleans(), "jitter": st.booleans(), "seed": st.integers(0, 2**16)})


def job_check(kind, case, rec):
    fem = import_felupe()
    import meshio

    dim = 3 if kind == "hexahedron" else 2
    if kind == "multibody":
        case = dict(case, n=[max(3, v) for v in case["n"]])
    n = tuple(case["n"][:dim])
    mesh = (fem.Cube if dim == 3 else fem.Rectangle)(b=(1.0, 0.8, 0.6)[:dim], n=n)
    if case["jitter"]:
        X = np.array(mesh.points)
        inner = ~np.any((np.abs(X) < 1e-12) | (np.abs(X - X.max(0)) < 1e-12), axis=1)
        X[inner] += 0.05 * np.random.default_rng(case["seed"]).uniform(-1, 1, (int(inner.sum()), dim))
        mesh.update(points=X)
    region = fem.RegionHexahedron(mesh) if dim == 3 else fem.RegionQuad(mesh)
    fc = fem.FieldContainer([fem.Field(region, dim=3) if dim == 3 else fem.FieldPlaneStrain(region, dim=2)])
    ekw = {}
    mesh_file = None
    if kind == "multibody":
        # two bodies on sub-meshes which share the points of the global mesh; the global field is passed as x0 and its
        # mesh is the one the result file must contain
        nc_ = mesh.ncells
        k_ = max(1, nc_ // 3)
        subs = [fem.Mesh(mesh.points, mesh.cells[:k_], "quad"), fem.Mesh(mesh.points, mesh.cells[k_:], "quad")]
        fields = [fem.FieldContainer([fem.FieldPlaneStrain(fem.RegionQuad(sm), dim=2)]) for sm in subs]
        items = [fem.SolidBody(fem.NeoHooke(mu=3.0, bulk=9.0), fields[0]), fem.SolidBody(fem.NeoHooke(mu=1.0, bulk=4.0), fields[1])]
        ekw["x0"] = fc
        if case["seed"] % 2 == 0:
            # the mesh of the result file handed over explicitly next to x0 (the same points, the cells listed in reverse order): the file
            # contains the mesh it was given
            mesh_file = fem.Mesh(mesh.points, np.asarray(mesh.cells)[::-1].copy(), "quad")
            ekw["mesh"] = mesh_file.as_meshio()  # (the writer takes a meshio mesh, as the job builds one itself by default)
            rec.label("explicit-mesh-next-to-x0")
    else:
        items = [fem.SolidBody(fem.NeoHooke(mu=1.0, bulk=4.0), fc)]
        if case["seed"] % 3 == 0:
            # a load item on another (boundary) region as LAST item of the steps: the mesh of the result file is still that of the body
            Xm = np.asarray(mesh.points)
            top = np.isclose(Xm[:, 1], Xm[:, 1].max())
            rb_ = (fem.RegionHexahedronBoundary(mesh, mask=top) if dim == 3 else fem.RegionQuadBoundary(mesh, mask=top, ensure_3d=True))
            fb_ = fem.FieldContainer([fem.Field(rb_, dim=3) if dim == 3 else fem.FieldPlaneStrain(rb_, dim=2)])
            items = items + [fem.SolidBodyPressure(fb_, pressure=0.05)]
            rec.label("pressure-item-on-a-boundary-region-as-last-item")
    bounds, lc = fem.dof.uniaxial(fc, clamped=True, move=0.0)
    steps, flat, k = [], [], 0
    for ramp in case["steps"]:
        vals = list(ramp)
        for j in range(len(vals)):
            if case["fail"] is not None and k == case["fail"]:
                vals[j] = float("nan")
            k += 1
        flat.append(vals)
        steps.append(fem.Step(items=items, ramp={bounds["move"]: np.array(vals)}, boundaries=bounds))
    seen = []

    def cb(stepnumber, substepnumber, substep, **kw):
        f = substep.x
        F = np.asarray(f.extract()[0]).copy()
        seen.append(dict(u=np.asarray(f[0].values).copy(), F=F))

    pdata = {"MyPoint": lambda field, substep: np.asarray(field[0].values)[:, :1] * 2.0} if case["custom"] else None
    cdata = {"MyCell": lambda field, substep: [np.asarray(field.extract()[0])[0, 0].mean(0).reshape(-1, 1)]} if case["custom"] else None
    with scratch() as d:
        job = fem.Job(steps=steps, callback=cb)
        raised = False
        try:
            job.evaluate(filename="res.xdmf", point_data=pdata, cell_data=cdata, point_data_default=case["pdefault"], cell_data_default=case["cdefault"], tol=1e-9, **ekw)
        except ValueError:
            raised = True
        stop = any(v != v for vals in flat for v in vals)
        nexp = 0
        for vals in flat:
            bad = [i for i, v in enumerate(vals) if v != v]
            if bad:
                nexp += bad[0]
                break
            nexp += len(vals)
        if raised and not stop:
            rec.label("natural-failure")
            nexp = len(seen)
        rec.require("callback-count", len(seen) == nexp, [len(seen), nexp])
        rec.nontrivial = len(seen) >= 2 and float(np.abs(seen[-1]["u"] - seen[0]["u"]).max()) > 0
        if stop:
            rec.label("early-stop")
        if not (case["pdefault"] or case["cdefault"] or case["custom"]) or len(seen) == 0:
            rec.label("no-data-written")
        with meshio.xdmf.TimeSeriesReader("res.xdmf") as rd:
            pts, cells = rd.read_points_cells()
            rec.require("frames=converged-substeps", rd.num_steps == len(seen), [rd.num_steps, len(seen)])
            rec.require("mesh-points", np.array_equal(np.asarray(pts)[:, :dim], np.asarray(mesh.points)))
            rec.require("mesh-cells", len(cells) == 1 and np.array_equal(np.asarray(cells[0].data), np.asarray((mesh_file or mesh).cells)))
            for i in range(min(rd.num_steps, len(seen))):
                t, pd, cd = rd.read_data(i)
                rec.close("time=0,1,2,...", abs(t - i), 0.0)
                u3 = np.pad(seen[i]["u"], ((0, 0), (0, 3 - seen[i]["u"].shape[1])))
                F = seen[i]["F"]
                if case["pdefault"]:
                    rec.require("has-displacement", "Displacement" in pd, list(pd))
                    if "Displacement" in pd:
                        rec.close("frame-displacement", float(np.abs(np.asarray(pd["Displacement"]) - u3).max()), 0.0, {"frame": i})
                else:
                    rec.require("no-default-point-data", "Displacement" not in pd)
                if case["cdefault"]:
                    names = ["Deformation Gradient", "Logarithmic Strain", "Principal Values of Logarithmic Strain"]
                    rec.require("has-default-cell-data", all(nm in cd for nm in names), list(cd))
                    if all(nm in cd for nm in names):
                        Fc = np.asarray(cd["Deformation Gradient"][0]).reshape(-1, 3, 3)
                        rec.close("frame-deformation-gradient", float(np.abs(Fc - F.mean(-2).transpose(2, 0, 1)).max()), 1e-14, {"frame": i})
                        C = np.einsum("ki...,kj...->ij...", F, F)
                        w, N = np.linalg.eigh(C.transpose(2, 3, 0, 1))
                        E = np.einsum("qca,qcia,qcja->ijqc", 0.5 * np.log(w), N, N)
                        vs = np.stack([E[0, 0], E[1, 1], E[2, 2], 2 * E[0, 1], 2 * E[1, 2], 2 * E[0, 2]])
                        rec.close("frame-log-strain", float(np.abs(np.asarray(cd["Logarithmic Strain"][0]) - vs.mean(-2).T).max()), 1e-10, {"frame": i})
                        pe = (0.5 * np.log(w)).mean(0)  # ascending per point, averaged per position
                        got = np.asarray(cd["Principal Values of Logarithmic Strain"][0])
                        rec.close("frame-principal-log-strain", float(np.abs(np.sort(got, axis=1) - np.sort(pe, axis=1)).max()), 1e-10, {"frame": i})
                if case["custom"]:
                    rec.require("has-custom-data", "MyPoint" in pd and "MyCell" in cd, [list(pd), list(cd)])
                    if "MyPoint" in pd and "MyCell" in cd:
                        rec.close("frame-custom-point-data", float(np.abs(np.asarray(pd["MyPoint"]).reshape(-1) - 2.0 * seen[i]["u"][:, 0]).max()), 0.0)
                        rec.close("frame-custom-cell-data", float(np.abs(np.asarray(cd["MyCell"][0]).reshape(-1) - F[0, 0].mean(0)).max()), 1e-15)
        rec.label(f"frames={min(len(seen), 6)}")
        if not raised and not stop and len(seen) >= 1 and len(flat) % 2 == 1:
            # the same job evaluated a second time into another file (continuing from the final state): again one frame per
            # converged substep, stamped 0, 1, 2, ...
            n1 = len(seen)
            try:
                job.evaluate(filename="again.xdmf", point_data_default=True, cell_data_default=False, tol=1e-9, **ekw)
                n2 = len(seen) - n1
                with meshio.xdmf.TimeSeriesReader("again.xdmf") as rd2:
                    rd2.read_points_cells()
                    rec.require("second-evaluation:frames=converged-substeps", rd2.num_steps == n2, [rd2.num_steps, n2])
                    times = [rd2.read_data(i)[0] for i in range(rd2.num_steps)]
                    rec.require("second-evaluation:time=0,1,2,...", times == list(range(rd2.num_steps)), times[:4])
                rec.label("job-evaluated-twice")
            except ValueError:
                rec.label("second-evaluation-did-not-converge")


# ---------------------------------------------------------------------------------------------------------------
def save_strategy(kind, tier):
    return st.fixed_dictionaries({"mesh": gm.st_mesh(kind, tier, max_n=3, curved=False), "seed": st.integers(0, 2**32 - 1), "gradient": st.booleans(),
                                  "fmt": st.sampled_from(["vtu", "xdmf", "vtu"]), "forces": st.booleans(), "mixed": st.booleans()})


def save_check(kind, case, rec):
    fem = import_felupe()
    import meshio

    mesh, info = gm.build(case["mesh"])
    region = gm.region(mesh, info)
    dim = info["dim"]
    rng = np.random.default_rng(case["seed"])
    fc = fem.FieldsMixed(region, n=3) if (case["mixed"] and kind == "hexahedron") else fem.FieldContainer([fem.Field(region, dim=dim)])
    fc.fields[0].values[...] = 0.05 * info["h"] * rng.uniform(-1, 1, fc.fields[0].values.shape)
    ntot = int(sum(fc.fieldsizes))
    forces = rng.standard_normal(ntot) if case["forces"] else None
    if forces is not None and case["seed"] % 5 == 0:
        forces = np.zeros(ntot)  # a force-free state: the array is written all the same
    F = np.asarray(fc.extract()[0]).copy()
    um = fem.NeoHooke(mu=1.0, bulk=3.0)
    gradient = None
    if case["gradient"] and dim == 3:
        P = np.asarray(um.gradient([F.copy(), None])[0]).copy()
        gradient = [P]
    rec.nontrivial = mesh.ncells >= 2
    with scratch():
        fn = "result." + case["fmt"]
        kw = {}
        if forces is not None:
            kw["forces"] = forces
        if gradient is not None:
            kw["gradient"] = gradient
        # the documented user dictionaries: per-point and per-cell arrays (scalars and vectors) written next to the default data
        user_p, user_c = {}, {}
        if case["seed"] % 3 != 0:
            user_c = {"Volume": np.asarray(region.dV).sum(0), "Tag": rng.integers(0, 5, mesh.ncells).astype(float)}
            if case["seed"] % 2:
                user_c["Direction"] = rng.standard_normal((mesh.ncells, 3))
            kw["cell_data"] = {k_: [v_] for k_, v_ in user_c.items()}
        if case["seed"] % 4 >= 2:
            user_p = {"Temperature": rng.standard_normal(mesh.npoints)}
            kw["point_data"] = dict(user_p)
        fem.save(region, fc, filename=fn, **kw)
        try:
            mm = meshio.read(fn)
        except Exception as e:  # noqa
            rec.require("file-readable", False, f"{type(e).__name__}: {str(e)[:100]}")
            return
        rec.require("file-readable", True)
        u = np.asarray(fc.fields[0].values)
        rec.require("has-displacements", "Displacements" in mm.point_data, list(mm.point_data))
        if "Displacements" in mm.point_data:
            got = np.asarray(mm.point_data["Displacements"])
            rec.close("displacements-unchanged", float(np.abs(got[:, :dim] - u).max()) if got.shape[0] == u.shape[0] else float("inf"), 0.0)
        if forces is not None:
            rec.require("has-forces", "Reaction Force" in mm.point_data, list(mm.point_data))
            if "Reaction Force" in mm.point_data:
                got = np.asarray(mm.point_data["Reaction Force"])
                ref = forces[: u.size].reshape(u.shape)
                rec.close("reaction-forces-unchanged", float(np.abs(got[:, :dim] - ref).max()) if got.shape[0] == ref.shape[0] else float("inf"), 0.0)
        if gradient is not None:
            J = np.linalg.det(F.transpose(2, 3, 0, 1))
            sig = np.einsum("ij...,kj...->ik...", gradient[0], F) / J
            ref = np.asarray(fem.topoints(sig, region))
            rec.require("has-cauchy", "Cauchy Stress" in mm.point_data, list(mm.point_data))
            if "Cauchy Stress" in mm.point_data:
                got = np.asarray(mm.point_data["Cauchy Stress"])
                rec.close("cauchy-stress-point-data", float(np.abs(got.reshape(len(ref), -1) - ref.reshape(len(ref), -1)).max()) if got.size == ref.size else float("inf"), 1e-14)
            # principal values (ascending eigenvalues of the quadrature-point stress, shifted to the points) and the
            # largest principal shear = max - min
            spq = np.linalg.eigvalsh(0.5 * (sig + sig.transpose(1, 0, 2, 3)).transpose(2, 3, 0, 1)).transpose(2, 0, 1)
            pref = np.asarray(fem.topoints(spq, region))
            nd = pref.shape[1]
            sscale = max(float(np.abs(pref).max()), 1e-12)
            for nm, ref1 in (("Max. Principal", pref[:, nd - 1]), ("Int. Principal", pref[:, 1]), ("Min. Principal", pref[:, 0]),
                             ("Max. Principal Shear", pref[:, nd - 1] - pref[:, 0])):
                key = f"Cauchy Stress ({nm})"
                if key in mm.point_data:
                    got = np.asarray(mm.point_data[key]).ravel()
                    rec.close("principal-stress-point-data:" + nm, float(np.abs(got - ref1).max()) / sscale if got.shape == ref1.shape else float("inf"), 1e-10)
        expected_keys = {"Displacements"} | ({"Reaction Force"} if forces is not None else set())
        if gradient is not None:
            expected_keys |= {"Cauchy Stress", "Cauchy Stress (Max. Principal)", "Cauchy Stress (Int. Principal)", "Cauchy Stress (Min. Principal)", "Cauchy Stress (Max. Principal Shear)"}
        expected_keys |= set(user_p)
        for k_, v_ in user_p.items():
            if k_ in mm.point_data:
                rec.close("user-point-data-unchanged", float(np.abs(np.asarray(mm.point_data[k_]).reshape(v_.shape) - v_).max()) if np.asarray(mm.point_data[k_]).size == v_.size else float("inf"), 0.0)
        rec.require("cell-data-is-exactly-what-was-passed", set(mm.cell_data) == set(user_c), sorted(set(mm.cell_data) ^ set(user_c)))
        for k_, v_ in user_c.items():
            if k_ in mm.cell_data:
                got = np.asarray(mm.cell_data[k_][0])
                rec.close("user-cell-data-unchanged", float(np.abs(got.reshape(v_.shape) - v_).max()) if got.size == v_.size else float("inf"), 0.0, k_)
        if user_c:
            rec.label("user-cell-data")
        rec.require("point-data-is-exactly-what-was-passed", set(mm.point_data) == expected_keys, sorted(set(mm.point_data) ^ expected_keys))
        rec.require("points", np.array_equal(np.asarray(mm.points)[:, :dim], np.asarray(mesh.points)))
        rec.require("cells", len(mm.cells) == 1 and np.array_equal(np.asarray(mm.cells[0].data), np.asarray(mesh.cells)))


FAMILIES = [
    Family("mesh", MESH_AXIS, mesh_check, strategy=mesh_strategy, n={"quick": 4, "thorough": 300}, chunk=20),
    Family("container", ["2d", "3d"], cont_check, strategy=cont_strategy, n={"quick": 15, "thorough": 1500}, chunk=15),
    Family("job", ["hexahedron", "quad", "multibody"], job_check, strategy=job_strategy, n={"quick": 16, "thorough": 1000}, chunk=4, weight=4),
    Family("save", ["hexahedron", "quad", "tetra", "hexahedron20"], save_check, strategy=save_strategy, n={"quick": 8, "thorough": 600}, chunk=8),
]

LEVEL_TEXT = (
    "Cell types x formats enumerated; Hypothesis draws meshes, containers, jobs (steps, ramps, injected failures, "
    "callbacks, default flags) and save arguments; every file is re-read with meshio and compared with what was in "
    "memory (bit-for-bit for points / displacements / forces, round-off for derived cell data)."
)
LEVEL_NOTE = "meshio is the trusted reader; job reference = the sequence seen by the job callback; scratch files under the system temp dir"
TECHNIQUE = "round-trip property-based testing (Hypothesis): write, re-read, compare; job histories generated"
