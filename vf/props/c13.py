"""C13 - boundary regions describe closed surfaces consistently with the volume."""
import numpy as np
from hypothesis import strategies as st

from vf.core import Family, import_felupe
from vf.gen import meshes as gm

PROPERTY = "C13"
RULE = (
    "finite axis = the six supported cell types (quad 4/8/9, hexahedron 8/20/27); Hypothesis draws the mesh (1-3 cells "
    "per axis so interior faces exist, graded axes, interior jitter, curved mid-nodes, affine map) plus an extra "
    "perturbation of ALL points incl. the outer surface (curved boundary), only_surface, ensure_3d and a point mask "
    "(half-space predicate, random subset or none). Oracles: |n|=1, |t|=1, t.n=0, sum dA = 0, flux of X = dim * sum dV "
    "of the matching volume region, per-cell closure and flux with only_surface=False, outwardness against the owning "
    "cell's centroid, face selection against an independent face table derived from the element's reference "
    "coordinates. Non-trivial: >= 2 cells along some axis (interior faces exist) and a perturbed/curved surface."
    ' Masks are handed over as boolean arrays or as point indices. Every third case also compares copy(), astype() and an '
    'in-place reload() of the surface region with the original (same dA, dV, normals, tangents) and a copy on points scaled '
    'by s (area vectors scale with s^(dim-1)).'
    ' Masks that select nothing / the first point only; meshes with a point without cells; copy / reload with another rule of the same size; family fine-mesh-masks (55 - 72 points per side: face selection against the face table).'
)
ASSUMPTIONS = [
    "volume regions (C06) and element reference coordinates (C04) are used to build the oracle",
    "cells stay convex enough for the outwardness test (perturbations <= 0.15 h)",
]

KINDS = ["quad", "quad8", "quad9", "hexahedron", "hexahedron20", "hexahedron27"]
BTMPL = {"quad": "RegionQuadBoundary", "quad8": "RegionQuadraticQuadBoundary", "quad9": "RegionBiQuadraticQuadBoundary",
         "hexahedron": "RegionHexahedronBoundary", "hexahedron20": "RegionQuadraticHexahedronBoundary",
         "hexahedron27": "RegionTriQuadraticHexahedronBoundary"}
ELEM = {"quad": "Quad", "quad8": "QuadraticQuad", "quad9": "BiQuadraticQuad", "hexahedron": "Hexahedron",
        "hexahedron20": "QuadraticHexahedron", "hexahedron27": "TriQuadraticHexahedron"}


def strategy(kind, tier):
    dim = gm.kind_dim(kind)
    return st.fixed_dictionaries(
        {
            "mesh": gm.st_mesh(kind, tier),
            "surf": st.sampled_from([0.0, 0.03, 0.08]),
            "sseed": st.integers(0, 2**16),
            "only_surface": st.booleans(),
            "ensure_3d": st.booleans(),
            "mask": st.one_of(
                st.none(),
                st.fixed_dictionaries({"kind": st.just("halfspace"), "axis": st.integers(0, dim - 1), "frac": st.floats(0.05, 0.95), "side": st.booleans()}),
                st.fixed_dictionaries({"kind": st.just("random"), "seed": st.integers(0, 2**16), "p": st.sampled_from([0.5, 0.8, 0.95])}),
                # edge of the domain: a mask that is given but selects nothing (a float compare that misses), or the first point only
                st.fixed_dictionaries({"kind": st.sampled_from(["nothing", "first-point"])}),
            ),
        }
    )


def ref_faces(kind):
    """local node sets of the 2*dim faces, from the reference coordinates of the element."""
    fem = import_felupe()
    P = np.asarray(getattr(fem.element, ELEM[kind])().points, float)
    dim = P.shape[1]
    faces = []
    for k in range(dim):
        for s in (-1.0, 1.0):
            faces.append(np.where(np.abs(P[:, k] - s) < 1e-12)[0])
    return faces


def check(kind, case, rec):
    fem = import_felupe()
    spec = case["mesh"]
    mesh, info = gm.build(spec)
    dim = info["dim"]
    pts = np.array(mesh.points)
    if case["surf"] > 0:
        rng = np.random.default_rng(case["sseed"])
        amp = case["surf"] * info["h"] * (min(spec["affine"]["stretch"]) if spec["affine"] else 1.0) / np.sqrt(dim)
        pts = pts + rng.uniform(-amp, amp, pts.shape)
        mesh = mesh.copy()
        mesh.update(points=pts)
    # metamorphic inputs: the same body in another length unit (all oracles below are relative) and with renumbered points
    # (e.g. after merge_duplicate_points / an import): neither changes any of the relations
    pick = (case["sseed"] + sum(spec["n"])) % 4
    if pick in (1, 3):
        unit = (1e-4, 1e3)[pick // 2]
        pts = pts * unit
        mesh = mesh.copy()
        mesh.update(points=pts)
        info = dict(info, h=info["h"] * unit)
        rec.label(f"length-unit={unit:g}")
    if (case["sseed"] // 4 + spec["n"][0]) % 3 == 0:
        perm = np.random.default_rng(case["sseed"] + 11).permutation(len(pts))  # old id -> new id
        # ... and the points of one cell edge (two corners and, for quadratic cells, their mid-edge point) get the lowest numbers
        c0 = np.asarray(mesh.cells)[case["sseed"] % mesh.ncells]
        nvert = 2 ** dim
        edge = [int(c0[0]), int(c0[1])] + ([int(c0[nvert])] if len(c0) > nvert else [])
        for new_id, old in enumerate(edge):
            other = int(np.where(perm == new_id)[0][0])
            perm[other], perm[old] = perm[old], new_id
        newpts = np.empty_like(pts)
        newpts[perm] = pts
        mesh = fem.Mesh(newpts, perm[np.asarray(mesh.cells)], mesh.cell_type)
        pts = newpts
        rec.label("points-renumbered")
    if (case["sseed"] // 3 + spec["n"][-1]) % 4 == 0:
        # a point without cells somewhere in the numbering (a control point, the leftover of a removed cell): masks and point ids
        # count ALL points of the mesh
        k_ = int(np.random.default_rng(case["sseed"] + 5).integers(0, len(pts)))
        pts = np.insert(pts, k_, pts.mean(0), axis=0)
        cells_ = np.asarray(mesh.cells)
        mesh = fem.Mesh(pts, np.where(cells_ >= k_, cells_ + 1, cells_), mesh.cell_type)
        rec.label("mesh-with-a-point-without-cells")
    ncell = mesh.ncells
    rec.nontrivial = max(spec["n"]) >= 3 and (case["surf"] > 0 or spec["curve"] > 0 or spec["jitter"] > 0)
    rv = gm.region(mesh, info)
    if rv.dV.min() <= 0:
        rec.reject("invalid mesh after perturbation")
        return
    V = float(rv.dV.sum())
    # point mask
    mk = case["mask"]
    mask = None
    if mk is not None:
        if mk["kind"] == "halfspace":
            x = pts[:, mk["axis"]]
            thr = x.min() + mk["frac"] * (x.max() - x.min())
            mask = (x >= thr) if mk["side"] else (x <= thr)
        elif mk["kind"] == "random":
            mask = np.random.default_rng(mk["seed"]).uniform(size=len(pts)) < mk["p"]
        else:
            mask = np.zeros(len(pts), bool)
            mask[:1] = mk["kind"] == "first-point"
            rec.label("mask-selects-" + mk["kind"])
    kw = dict(only_surface=case["only_surface"])
    if mask is not None:
        # the same selection as a boolean array or as point indices (np.where / Boundary.points deliver the latter)
        kw["mask"] = mask if case["sseed"] % 2 == 0 else np.flatnonzero(mask)
        rec.label("mask=" + ("boolean" if case["sseed"] % 2 == 0 else "indices"))
    if case["ensure_3d"]:
        kw["ensure_3d"] = True
    rb = getattr(fem, BTMPL[kind])(mesh, **kw)
    nf = 2 * dim
    # ---- face selection against the independent face table
    faces_ref = ref_faces(kind)
    allf = [tuple(sorted(c[f].tolist())) for c in np.array(mesh.cells) for f in faces_ref]
    from collections import Counter

    cnt = Counter(allf)
    if case["only_surface"]:
        expect = [f for f in cnt if cnt[f] == 1]
    else:
        expect = list(allf)
    if mask is not None:
        expect = [f for f in expect if mask[list(f)].all()]
    got = [tuple(sorted(f)) for f in np.asarray(rb.mesh.cells_faces).tolist()]
    if not rec.require("face-selection", sorted(got) == sorted(expect), {"got": len(got), "expect": len(expect), "only_surface": case["only_surface"]}):
        return  # the per-face oracles below assume the selection
    rec.label(f"faces={min(len(got), 9)}")
    if len(got) == 0:
        rec.label("empty-selection")
        return
    dA = np.asarray(rb.dA)
    nrm = np.asarray(rb.normals)
    d3 = 3 if (case["ensure_3d"] and dim == 2) else dim
    rec.require("shapes", dA.shape[0] == d3 and nrm.shape == dA.shape and rb.dV.shape == dA.shape[1:] and len(rb.tangents) == (d3 - 1),
                [dA.shape, nrm.shape, rb.dV.shape, len(rb.tangents)])
    rec.close("normals-unit", float(np.abs(np.linalg.norm(nrm, axis=0) - 1).max()), 1e-12)
    for i, t in enumerate(rb.tangents):
        rec.close("tangents-unit", float(np.abs(np.linalg.norm(t, axis=0) - 1).max()), 1e-12)
        rec.close("tangents-orthogonal-to-normal", float(np.abs((t * nrm).sum(0)).max()), 1e-12)
    rec.close("dV=|dA|", float(np.abs(np.linalg.norm(dA, axis=0) - rb.dV).max() / np.abs(rb.dV).max()), 1e-13)
    if case["sseed"] % 3 == 0:
        # copies of the surface region (copy(), astype(float64), an in-place reload()) describe the same surface
        for how in ("copy", "astype", "reload"):
            rc = rb.copy() if how == "copy" else rb.astype(np.float64) if how == "astype" else rb.copy()
            if how == "reload":
                rc.reload()
            same = (np.asarray(rc.dA).shape == dA.shape and np.allclose(rc.dA, dA, rtol=0, atol=1e-14 * float(np.abs(dA).max()))
                    and np.allclose(rc.dV, rb.dV, rtol=0, atol=1e-14 * float(np.abs(rb.dV).max())) and np.allclose(rc.normals, nrm, rtol=0, atol=1e-13)
                    and len(rc.tangents) == len(rb.tangents) and all(np.allclose(a_, b_, rtol=0, atol=1e-13) for a_, b_ in zip(rc.tangents, rb.tangents)))
            rec.require(f"{how}-describes-the-same-surface", same, {"dV-sum": [float(np.sum(rc.dV)), float(np.sum(rb.dV))]})
        # a copy / a reload with ANOTHER rule of the same number of points (quadratic cells: unpermuted Gauss-Legendre on faces,
        # 3-point Gauss-Lobatto on edges): every array is that of a region built with that rule from scratch
        if kind in ("quad8", "quad9", "hexahedron20", "hexahedron27"):
            q2 = fem.GaussLobattoBoundary(order=1, dim=2) if dim == 2 else fem.GaussLegendreBoundary(order=2, dim=3, permute=False)
            if len(q2.weights) == len(rb.quadrature.weights):
                fresh_q = getattr(fem, BTMPL[kind])(mesh, quadrature=q2, **kw)
                for how in ("copy(quadrature=)", "reload(quadrature=)"):
                    if how.startswith("copy"):
                        rq = rb.copy(quadrature=q2)
                    else:
                        rq = rb.copy()
                        rq.reload(quadrature=q2)
                    same_q = (np.asarray(rq.dA).shape == np.asarray(fresh_q.dA).shape
                              and np.allclose(rq.dA, fresh_q.dA, rtol=0, atol=1e-14 * float(np.abs(fresh_q.dA).max()))
                              and np.allclose(rq.dV, fresh_q.dV, rtol=0, atol=1e-14 * float(np.abs(fresh_q.dV).max()))
                              and np.allclose(rq.normals, fresh_q.normals, rtol=0, atol=1e-13))
                    rec.require(how + "-with-another-rule-of-the-same-size=fresh-region", same_q, {"dV-sum": [float(np.sum(rq.dV)), float(np.sum(fresh_q.dV))]})
                rec.label("another-rule-of-the-same-size")
        # a copy on the same boundary cells with points scaled by s: area vectors scale with s^(dim-1), normals stay
        s_ = 1.5 + (case["sseed"] % 5) / 4.0
        moved = rb.mesh.copy()
        moved.update(points=np.asarray(rb.mesh.points) * s_)
        rs = rb.copy(mesh=moved)
        scaled = (np.allclose(rs.dA, dA * s_ ** (dim - 1), rtol=0, atol=1e-12 * s_ ** (dim - 1) * float(np.abs(dA).max()))
                  and np.allclose(rs.dV, rb.dV * s_ ** (dim - 1), rtol=0, atol=1e-12 * s_ ** (dim - 1) * float(np.abs(rb.dV).max()))
                  and np.allclose(rs.normals, nrm, rtol=0, atol=1e-11))
        rec.require("copy-on-scaled-points-scales-the-area", scaled, {"s": s_, "dV-sum": [float(np.sum(rs.dV)), float(np.sum(rb.dV))]})
        # the points of a copy's own mesh moved in place, followed by a plain reload() without arguments
        rp = rb.copy()
        rp.mesh.points[:] = np.asarray(rb.mesh.points) * s_
        rp.reload()
        moved_ok = (np.allclose(rp.dA, dA * s_ ** (dim - 1), rtol=0, atol=1e-12 * s_ ** (dim - 1) * float(np.abs(dA).max()))
                    and np.allclose(rp.dV, rb.dV * s_ ** (dim - 1), rtol=0, atol=1e-12 * s_ ** (dim - 1) * float(np.abs(rb.dV).max()))
                    and np.allclose(rp.normals, nrm, rtol=0, atol=1e-11))
        rec.require("plain-reload-after-moving-the-points-in-place", moved_ok, {"s": s_})
    rec.require("dV-positive", bool((np.asarray(rb.dV) > 0).all()))
    ftype = {"quad": "line", "hexahedron": "quad", "quad8": "line3", "quad9": "line3"}.get(mesh.cell_type)
    if ftype is not None:  # mesh_faces() knows these four cell types
        mf = rb.mesh_faces()
        cf = np.asarray(rb.mesh.cells_faces)
        ok = mf.cell_type == ftype and np.array_equal(np.asarray(mf.cells), cf) and np.array_equal(np.asarray(mf.points), np.asarray(rb.mesh.points))
        bc = np.asarray(rb.mesh.cells)
        nv = 2 ** dim
        # vertices of a face are vertices of its cell, a mid-edge point of a line3 face is a mid-edge point of the cell
        ok = ok and all(set(f[: nv // 2]) <= set(c[:nv]) for f, c in zip(cf.tolist(), bc.tolist()))
        if ftype == "line3":
            ok = ok and all(f[2] in c[4:8] for f, c in zip(cf.tolist(), bc.tolist()))
        if ftype == "line":
            seg = np.linalg.norm(np.asarray(mesh.points)[cf[:, 1]] - np.asarray(mesh.points)[cf[:, 0]], axis=1)
            ok = ok and np.allclose(seg, np.asarray(rb.dV).sum(0), rtol=1e-12, atol=0)
        rec.require("mesh_faces-is-the-face-mesh", bool(ok), {"type": mf.cell_type})
    if d3 != dim:
        rec.close("ensure_3d-zero-padding", float(np.abs(dA[2]).max() + np.abs(nrm[2]).max()), 0.0)
    dA2 = dA[:dim]
    Xq = fem.Field(rb, dim=dim, values=pts).interpolate()
    area_scale = float(np.asarray(rb.dV).sum())
    # outward: compare with the centroid of the vertices of the owning cell
    cen = pts[np.array(rb.mesh.cells)[:, : 2**dim]].mean(1)  # (faces, dim)
    out = ((Xq - cen.T[:, None, :]) * nrm[:dim]).sum(0)
    rec.close("normals-outward", max(0.0, float(-out.min())), 0.0, {"min n.(x-c)": float(out.min())})
    full = mask is None
    if case["only_surface"] and full:
        rec.close("closed-surface-sum-dA=0", float(np.abs(dA2.sum(axis=(1, 2))).max()) / area_scale, 1e-12)
        rec.close("flux=dim*V", abs(float((Xq * dA2).sum()) - dim * V) / (dim * V), 1e-11, {"flux/dim": float((Xq * dA2).sum()) / dim, "V": V})
    if (not case["only_surface"]) and full:
        nq = dA2.shape[1]
        dAc = dA2.reshape(dim, nq, ncell, nf)
        rec.close("per-cell-closure", float(np.abs(dAc.sum(axis=(1, 3))).max()) / area_scale, 1e-12)
        fl = (Xq * dA2).sum(axis=(0, 1)).reshape(ncell, nf).sum(1)
        rec.close("per-cell-flux=dim*Vcell", float(np.abs(fl / dim - rv.dV.sum(0)).max()) / V, 1e-11)
    if not full:
        rec.label("masked")
    rec.label("only_surface" if case["only_surface"] else "all-faces")


def large_strategy(kind, tier):
    return st.fixed_dictionaries({"n": st.sampled_from([55, 61, 72]), "plane": st.sampled_from(["x=0", "x=1", "y=0", "x<=0.5"]), "as_ids": st.booleans()})


def large_check(kind, case, rec):
    """fine meshes (several thousand points): the face selection by a point mask is the same set-membership question, whatever
    algorithm the array library picks for it at that size"""
    fem = import_felupe()
    n = case["n"]
    mesh = fem.Rectangle(n=n) if kind == "quad" else fem.Cube(n=(n // 4, n // 4, 4))
    P = np.asarray(mesh.points)
    mask = {"x=0": np.isclose(P[:, 0], 0), "x=1": np.isclose(P[:, 0], 1), "y=0": np.isclose(P[:, 1], 0), "x<=0.5": P[:, 0] <= 0.5}[case["plane"]]
    rb = (fem.RegionQuadBoundary if kind == "quad" else fem.RegionHexahedronBoundary)(mesh, mask=np.flatnonzero(mask) if case["as_ids"] else mask)
    from collections import Counter

    faces_ref = ref_faces(kind)
    allf = [tuple(sorted(c[f].tolist())) for c in np.asarray(mesh.cells) for f in faces_ref]
    cnt = Counter(allf)
    expect = [f for f in cnt if cnt[f] == 1 and mask[list(f)].all()]
    got = [tuple(sorted(f)) for f in np.asarray(rb.mesh.cells_faces).tolist()]
    rec.nontrivial = True
    rec.require("face-selection-on-a-fine-mesh", sorted(got) == sorted(expect), {"got": len(got), "expect": len(expect), "n": n, "plane": case["plane"]})


FAMILIES = [Family("fine-mesh-masks", ["quad", "hexahedron"], large_check, strategy=large_strategy, n={"quick": 6, "thorough": 24}, chunk=3),
            Family("boundary", KINDS, check, strategy=strategy, n={"quick": 60, "thorough": 6000}, chunk=15)]

LEVEL_TEXT = (
    "All six boundary cell types enumerated; Hypothesis draws distorted / curved multi-cell meshes, masks and flags; "
    "divergence-theorem, closure, unit/orthogonality and face-selection oracles are evaluated exactly (round-off)."
)
LEVEL_NOTE = "volume regions and Field.interpolate are trusted here (decided by C06); float64, tolerance 1e-11..1e-12"
TECHNIQUE = "property-based testing (Hypothesis) with divergence-theorem / independent face-table oracles"
