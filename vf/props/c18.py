"""C18 - modal analysis returns genuine eigenpairs of the constrained K/M pencil."""
import numpy as np
from hypothesis import strategies as st

from vf.core import Family, import_felupe

PROPERTY = "C18"
RULE = (
    "finite axis = model class (hexahedron, tetra, hexahedron20, plane-strain quad / quad8 / triangle, mixed u-p-J "
    "container) x analysis (constrained eigenpairs, unconstrained rigid-body count, rigid-motion invariance). "
    "Hypothesis draws cells per axis, box sizes, interior jitter, density, elastic constants, the boundary dictionary "
    "(fixed face, partially fixed components, point masks), the number of requested modes k in 1..8 and a rigid "
    "motion (rotation angles, translation). Oracle: residual of K v = lambda M v on the free unknowns with K and M "
    "assembled independently from fresh items, extracted mode shapes vs eigenvectors, frequency = sqrt(lambda)/(2 pi), "
    "3 (2-D) / 6 (3-D) zero modes of the unconstrained body, spectrum of the moved mesh. Non-trivial: >= 2 distinct "
    "non-zero eigenvalues returned."
    ' Added later: the pencil handed to the solver is recorded and compared, items of different materials with multipliers on either item, up to four cell-less points with an independent partition, spectral shifts through the sigma keyword, axisymmetric and orthotropic bodies, a separate global field handed over as x0; mixed containers are decided with the massless unknowns condensed.'
)
ASSUMPTIONS = [
    "boundary values are zero (documented restriction of the free-vibration analysis)",
    "unconstrained bodies are analysed with a user solver (eigsh with a small negative shift): the default shift sigma = 0 makes K singular there",
    "eigsh residual tolerance 1e-7 relative; rigid-motion invariance 1e-7 relative",
]

CLASSES = ["hexahedron", "tetra", "hexahedron20", "quad-planestrain", "quad8-planestrain", "triangle-planestrain", "mixed-hexahedron", "neo-hooke-at-rest",
           "quad-axisymmetric", "quad8-axisymmetric", "hexahedron-orthotropic", "hexahedron-condensed", "quad-planestress-law2d", "quad8-planestrain-law2d"]


def fl(lo, hi, nd=3):
    return st.floats(lo, hi, allow_nan=False).map(lambda v: round(v, nd))


def strategy(cls, tier):
    return st.fixed_dictionaries(
        {
            "n": st.lists(st.integers(2, 4), min_size=3, max_size=3), "size": st.lists(fl(0.5, 2.5), min_size=3, max_size=3),
            "jitter": st.sampled_from([0.0, 0.15]), "seed": st.integers(0, 2**16),
            "rho": fl(0.2, 5), "E": fl(0.5, 50), "nu": fl(0.0, 0.4), "k": st.integers(1, 8),
            "bc": st.sampled_from(["face", "face-partial", "two-faces", "mask"]), "skip": st.lists(st.booleans(), min_size=3, max_size=3),
            "angles": st.lists(fl(-180, 180, 1), min_size=3, max_size=3), "shift": st.lists(fl(-20, 20, 1), min_size=3, max_size=3),
        }
    )


def model(fem, cls, case, transform=None):
    dim = 2 if ("planestrain" in cls or "planestress" in cls or "axisymmetric" in cls) else 3
    nn = [max(3, k) for k in case["n"]] if cls == "mixed-hexahedron" else case["n"]  # ARPACK needs a few cells when the mass matrix is singular (dual fields)
    a0 = (0.0, (0.0, 0.3, 1.1)[case["seed"] % 3]) if "axisymmetric" in cls else (0.0,) * dim  # ring at a drawn distance from the axis
    mesh = (fem.Rectangle if dim == 2 else fem.Cube)(a=tuple(a0), b=tuple(np.array(a0) + np.array(case["size"][:dim])), n=tuple(nn[:dim]))
    X = np.array(mesh.points)
    if case["jitter"]:
        lo, hi = X.min(0), X.max(0)
        inner = ~np.any((np.abs(X - lo) < 1e-12) | (np.abs(X - hi) < 1e-12), axis=1)
        h = float(np.min((hi - lo) / (np.array(nn[:dim]) - 1)))
        X[inner] += case["jitter"] * h * np.random.default_rng(case["seed"]).uniform(-1, 1, (int(inner.sum()), dim))
        mesh.update(points=X)
    X0 = np.array(mesh.points)
    if cls.startswith(("tetra", "triangle")):
        mesh = mesh.triangulate()
    if cls.startswith(("hexahedron20", "quad8")):
        mesh = mesh.add_midpoints_edges()
    # points without cells (e.g. left over from deleted cells): their unknowns belong to the prescribed set
    norph = (case["seed"] // 2) % 5 if cls != "mixed-hexahedron" else 0
    if norph:
        P = np.array(mesh.points)
        lo, hi = P.min(0), P.max(0)
        extra = np.tile((lo + hi) / 2, (norph, 1))
        extra[:, -1] = hi[-1] + 0.3 * (1 + np.arange(norph))
        mesh.update(points=np.vstack([P, extra]))
    Xref = np.array(mesh.points)
    if transform is not None:
        for ax in range(3 if dim == 3 else 1):
            mesh = mesh.rotate(angle_deg=transform["angles"][ax], axis=ax if dim == 3 else 2 if False else 0) if dim == 3 else mesh.rotate(angle_deg=transform["angles"][0], axis=0)
        for ax in range(dim):
            mesh = mesh.translate(move=transform["shift"][ax], axis=ax)
    R = {"hexahedron-condensed": fem.RegionHexahedron, "hexahedron-orthotropic": fem.RegionHexahedron, "hexahedron": fem.RegionHexahedron, "tetra": fem.RegionTetra, "hexahedron20": fem.RegionQuadraticHexahedron, "quad-planestrain": fem.RegionQuad,
         "quad8-planestrain": fem.RegionQuadraticQuad, "triangle-planestrain": fem.RegionTriangle, "quad-axisymmetric": fem.RegionQuad, "quad8-axisymmetric": fem.RegionQuadraticQuad, "mixed-hexahedron": fem.RegionHexahedron,
         "neo-hooke-at-rest": fem.RegionHexahedron, "quad-planestress-law2d": fem.RegionQuad, "quad8-planestrain-law2d": fem.RegionQuadraticQuad}[cls]
    if cls.startswith("tetra"):
        region = R(mesh, quadrature=fem.TetrahedronQuadrature(order=2))  # the 1-point default rule gives a singular mass matrix
    elif cls.startswith("triangle"):
        region = R(mesh, quadrature=fem.TriangleQuadrature(order=2))
    else:
        region = R(mesh)
    E, nu = case["E"], case["nu"]
    if cls == "mixed-hexahedron":
        fc = fem.FieldsMixed(region, n=3)
        if case["seed"] % 4 == 1:
            # the same container built by hand: the pressure and the volume-ratio field share ONE dual region
            pf = fem.FieldDual(region, values=0.0)
            fc = fem.FieldContainer([fem.Field(region, dim=3), pf, fem.Field(pf.region, dim=1, values=1.0)])
        um = fem.ThreeFieldVariation(fem.NeoHooke(mu=E / (2 * (1 + nu)), bulk=E / (3 * (1 - 2 * nu))))
    elif "axisymmetric" in cls:
        fc = fem.FieldContainer([fem.FieldAxisymmetric(region, dim=2)])
        um = fem.LinearElastic(E=E, nu=nu)
    elif cls.endswith("law2d"):
        # the two-dimensional laws (2 x 2 tensors) on a plain two-component field
        fc = fem.FieldContainer([fem.Field(region, dim=2)])
        um = fem.LinearElasticPlaneStress(E=E, nu=nu) if "planestress" in cls else fem.constitution.LinearElasticPlaneStrain(E=E, nu=nu)
    elif dim == 2:
        fc = fem.FieldContainer([fem.FieldPlaneStrain(region, dim=2)])
        um = fem.LinearElastic(E=E, nu=nu)
    elif cls == "hexahedron-condensed":
        # the nearly-incompressible solid body (pressure / volume ratio condensed on the cells) is an item of its own kind
        fc = fem.FieldContainer([fem.Field(region, dim=3)])
        um = fem.NeoHooke(mu=E / (2 * (1 + nu)))
    elif cls == "hexahedron-orthotropic":
        fc = fem.FieldContainer([fem.Field(region, dim=3)])
        # engineering constants of an orthotropic solid (positive definite: small Poisson ratios)
        um = fem.LinearElasticOrthotropic(E=[E, 1.6 * E, 0.7 * E], nu=[0.6 * nu, 0.5 * nu, 0.4 * nu], G=[0.3 * E, 0.45 * E, 0.2 * E])
    elif cls == "neo-hooke-at-rest":
        fc = fem.FieldContainer([fem.Field(region, dim=3)])
        um = fem.NeoHooke(mu=E / (2 * (1 + nu)), bulk=E / (3 * (1 - 2 * nu)))
    else:
        fc = fem.FieldContainer([fem.Field(region, dim=3)])
        um = fem.LinearElastic(E=E, nu=nu)
    return mesh, Xref, fc, um, dim


def boundaries(fem, fc, Xref, case, dim, edge=False):
    f = fc.fields[0]
    x = Xref[:, 0]
    left = np.isclose(x, x.min())
    right = np.isclose(x, x.max())
    skip = tuple(int(s) for s in case["skip"][:dim])
    if all(skip):
        skip = (0,) * dim
    if case["bc"] == "face":
        b_ = {"fix": fem.Boundary(f, mask=left)}
        P_ = np.asarray(f.region.mesh.points)
        if edge and dim == 3 and case["seed"] % 2 == 0 and P_.shape == Xref.shape and np.allclose(P_, Xref):  # (coordinate planes: un-moved meshes only)
            # an additional pin of one edge of the free end face, selected by two coordinate planes combined with mode="and" (fewer
            # planes than the mesh has dimensions)
            b_["edge"] = fem.Boundary(f, fx=float(x.max()), fy=float(Xref[:, 1].min()), mode="and")
        return b_
    # every other dictionary comes from a static analysis: its second boundary still carries a prescribed value (a modal analysis
    # constrains those unknowns all the same - mode shapes vanish there)
    vkw = {"value": 0.2} if case["seed"] % 2 else {}
    if case["bc"] == "face-partial":
        # fixed face plus a partially constrained opposite face (no rigid body mode left)
        return {"fix": fem.Boundary(f, mask=left), "part": fem.Boundary(f, mask=right, skip=skip, **vkw)}
    if case["bc"] == "two-faces":
        return {"fix": fem.Boundary(f, mask=left), "fix2": fem.Boundary(f, mask=right, **vkw)}
    m = left.copy()
    r = np.random.default_rng(case["seed"])
    m |= r.uniform(size=len(x)) < 0.15
    return {"fix": fem.Boundary(f, mask=m)}


def new_body(fem, um, fc, rho):
    """the item of the analysis: a SolidBody, or the condensed nearly-incompressible body for a material without bulk modulus"""
    if type(um).__name__ == "NeoHooke" and getattr(um, "bulk", 1) is None:
        return fem.SolidBodyNearlyIncompressible(um, fc, bulk=25.0 * um.mu, density=rho)
    return fem.SolidBody(um, fc, density=rho)


def assemble_pencil(fem, fc, um, rho, bounds):
    body = new_body(fem, um, fc, rho)
    n = int(sum(fc.fieldsizes))
    K = body.assemble.matrix().tocsr().copy()
    M = body.assemble.mass().tocsr().copy()
    K.resize(n, n)
    M.resize(n, n)
    dof0, dof1 = partition_model(fc, bounds)
    return K, M, dof0, dof1


def boundary_dofs_model(fem, fc, Xref, case, dim, bounds):
    """unknowns the displacement boundaries of `boundaries()` prescribe, from their definition (point mask x components that are not
    skipped) - not from the Boundary objects: name -> sorted local unknown numbers of the first field"""
    x = Xref[:, 0]
    left, right = np.isclose(x, x.min()), np.isclose(x, x.max())
    skip = tuple(int(s) for s in case["skip"][:dim])
    if all(skip):
        skip = (0,) * dim
    comps_all = list(range(dim))
    out = {}

    def dofs(mask, comps):
        return np.sort((np.where(mask)[0][:, None] * dim + np.array(comps)[None, :]).ravel())

    if "fix" in bounds:
        if case["bc"] in ("face", "face-partial", "two-faces"):
            out["fix"] = dofs(left, comps_all)
    if "part" in bounds:
        out["part"] = dofs(right, [c_ for c_ in comps_all if not skip[c_]])
    if "fix2" in bounds:
        out["fix2"] = dofs(right, comps_all)
    if "edge" in bounds:
        out["edge"] = dofs(right & np.isclose(Xref[:, 1], Xref[:, 1].min()), comps_all)
    return out


def partition_model(fc, bounds):
    """independent partition: prescribed = union of the boundaries' unknowns and all unknowns of points without cells"""
    n = int(sum(fc.fieldsizes))
    f0 = fc.fields[0]
    offs = np.concatenate([[0], np.cumsum(fc.fieldsizes)])
    # (a boundary numbers the unknowns of ITS field; fields are told apart by their values array, also on a copied container)
    pres = []
    for b in bounds.values():
        j = next((j_ for j_, f_ in enumerate(fc.fields) if f_ is b.field), None)
        if j is None:
            j = next(j_ for j_, f_ in enumerate(fc.fields) if f_.values.shape == b.field.values.shape and f_.dim == b.field.dim and (j_ == 0) == (b.field.dim == f0.dim))
        pres.append(np.asarray(b.dof).ravel() + offs[j])
    orph = np.setdiff1d(np.arange(f0.region.mesh.npoints), np.unique(f0.region.mesh.cells))
    pres.append((orph[:, None] * f0.dim + np.arange(f0.dim)[None, :]).ravel())
    dof0 = np.unique(np.concatenate(pres)).astype(int)
    return dof0, np.setdiff1d(np.arange(n), dof0)


def units(case, cls, rec=None):
    """every sixth case uses a unit system with small numbers (soft and heavy body): all eigenvalues are of the order 1e-11"""
    if case["seed"] % 6 == 4 and cls != "mixed-hexahedron":
        case = dict(case, E=case["E"] * 1e-10)
        if rec is not None:
            rec.label("small-number-units")
    return case


def check(cls, case, rec):
    fem = import_felupe()
    case = units(case, cls, rec)
    mesh, Xref, fc, um, dim = model(fem, cls, case)
    # every fourth case: the boundaries live on a separate global field container that is handed over as x0 (multi-body
    # workflow); the items keep containers of their own
    xg = fc.copy() if case["seed"] % 4 == 3 else None
    bounds = boundaries(fem, xg if xg is not None else fc, Xref, case, dim, edge=True)
    for nm_, d_ in boundary_dofs_model(fem, fc, Xref, case, dim, bounds).items():
        rec.require("boundary-prescribes-mask-x-unskipped-components", np.array_equal(np.sort(np.asarray(bounds[nm_].dof).ravel()), d_), {"boundary": nm_, "got": int(np.asarray(bounds[nm_].dof).size), "model": int(d_.size)})
    if cls == "mixed-hexahedron" and case["seed"] % 4 == 1 and xg is None:
        # the pressure held in every second cell: a boundary on the SECOND field only (its twin on the same region stays free; the
        # volume ratio of those cells keeps its own stiffness, so the massless block stays regular)
        mJ = np.zeros(fc.fields[1].values.shape[0], bool)
        mJ[::2] = True
        bounds["pre"] = fem.Boundary(fc.fields[1], mask=mJ)
        rec.label("boundary-on-one-of-two-fields-that-share-a-region")
    rho = case["rho"]
    body = new_body(fem, um, fc, rho)
    k = case["k"]
    K, M, dof0, dof1 = assemble_pencil(fem, fc, um, rho, bounds)
    if len(dof1) <= k + 1:
        k = len(dof1) - 2  # ARPACK computes at most n - 2 pairs
        if k < 1:
            rec.reject("too few free unknowns")
            return
    items = [body]
    if case["seed"] % 3 == 0 and cls not in ("mixed-hexahedron", "neo-hooke-at-rest", "hexahedron-condensed"):
        # a second item of another material on the same field; the stiffness of the first or of the second item (or of
        # both) is scaled by its multiplier (e.g. a softer coating): K = sum m_i K_i, M = sum M_i
        # (a multiplier of 0.0 switches the stiffness of an item off while its mass still counts)
        m1, m2 = [(None, 0.35), (1.75, None), (0.6, 2.5), (None, 0.0)][(case["seed"] // 3) % 4]
        um2 = fem.LinearElastic(E=2.5 * case["E"], nu=min(0.45, case["nu"] + 0.1))
        body = fem.SolidBody(um, fc, density=rho, **({} if m1 is None else {"multiplier": m1}))
        body2 = fem.SolidBody(um2, fc, density=0.5 * rho, **({} if m2 is None else {"multiplier": m2}))
        items = [body, body2]
        K2, M2, _, _ = assemble_pencil(fem, fc, um2, 0.5 * rho, bounds)
        K = (1.0 if m1 is None else m1) * K + (1.0 if m2 is None else m2) * K2
        M = M + M2
        rec.label("two-items-with-multiplier")
    elif case["seed"] % 3 == 1 and cls != "hexahedron-condensed":
        # a single item with a multiplier
        m1 = 0.4 + (case["seed"] % 5) / 2
        body = fem.SolidBody(um, fc, density=rho, multiplier=m1)
        items = [body]
        K = m1 * K
        rec.label("one-item-with-multiplier")
    elif cls == "mixed-hexahedron" and case["seed"] % 2 == 0:
        # a second item that lives on the displacement field alone (a one-field container sharing the first field, e.g. a stiffening
        # layer next to the three-field rubber): the unknowns are those of the first item's (u, p, J) container, the smaller matrices
        # of the second item are padded
        fc2 = fem.FieldContainer([fc.fields[0]])
        um2 = fem.LinearElastic(E=0.8 * case["E"], nu=0.3)
        body2 = fem.SolidBody(um2, fc2, density=0.5 * rho)
        items = [body, body2]
        n_ = int(sum(fc.fieldsizes))
        K2 = body2.assemble.matrix().tocsr().copy()
        M2 = body2.assemble.mass().tocsr().copy()
        K2.resize(n_, n_)
        M2.resize(n_, n_)
        K = K + K2
        M = M + M2
        body2 = fem.SolidBody(um2, fem.FieldContainer([fc.fields[0]]), density=0.5 * rho)
        items = [body, body2]
        rec.label("second-item-with-fewer-fields")
    # the pencil handed to the eigensolver is recorded (felupe's own part of the analysis), then solved by scipy as usual
    from scipy.sparse.linalg import eigsh

    seen = {}

    # every other recording solver hands its pairs back in descending order (the documented solver= argument takes any callable; the
    # job keeps the pairs as they come: value n belongs to vector n)
    descending = (case["seed"] // 2) % 2 == 1 and cls != "mixed-hexahedron"

    def recording_solver(A, M, sigma, **kw):
        seen.update(A=A.copy(), M=M.copy(), sigma=sigma, kw=dict(kw))
        if cls == "mixed-hexahedron":
            kw = dict(kw, v0=np.random.default_rng(case["seed"]).uniform(-1, 1, A.shape[0]))
        w_, V_ = eigsh(A=A, M=M, sigma=sigma, **kw)
        return (w_[::-1].copy(), V_[:, ::-1].copy()) if descending else (w_, V_)

    xkw = {}
    if xg is not None:
        xkw["x0"] = xg
        rec.label("separate-global-field-x0")
    kw = {}
    if cls == "mixed-hexahedron":
        # scipy draws ARPACK's start vector from the global RNG; fixed here so that a case is a pure function of its data. The vector
        # is sized inside a solver wrapper from the matrix the job really hands over (a start vector of another length makes ARPACK
        # read past its end - a crash of the checking process instead of a reported violation)
        def sized_solver(A, M, sigma, **kw2):
            return eigsh(A=A, M=M, sigma=sigma, v0=np.random.default_rng(case["seed"]).uniform(-1, 1, A.shape[0]), **kw2)

        kw["solver"] = sized_solver
    sigma = 0
    if case["seed"] % 5 == 0 and cls != "mixed-hexahedron":
        # a user-chosen spectral shift (handed through to the eigensolver)
        sigma = -1e-2 * case["E"] / (rho * max(case["size"][:dim]) ** 2)
        kw["sigma"] = sigma
        rec.label("sigma-keyword")
    if case["seed"] % 2:
        job = fem.FreeVibration(items, bounds).evaluate(k=k, **dict(kw, solver=recording_solver), **xkw)
        K11s, M11s = K[dof1][:, dof1], M[dof1][:, dof1]
        ok = rec.require("solver-receives-free-block-shapes", seen["A"].shape == K11s.shape and seen["M"].shape == M11s.shape, [seen["A"].shape, K11s.shape])
        if ok:
            rec.close("solver-receives-K11", float(abs(seen["A"] - K11s).max()) / float(abs(K11s).max()), 1e-13)
            rec.close("solver-receives-M11", float(abs(seen["M"] - M11s).max()) / float(abs(M11s).max()), 1e-13)
        rec.require("solver-receives-k-and-shift", seen["kw"].get("k") == k and seen["sigma"] == sigma, [str(seen["kw"])[:80], seen["sigma"]])
    else:
        if (case["seed"] // 2) % 3 == 1:
            # the boundary dictionary is handed over empty and filled afterwards (the job keeps the object it was given)
            later = {}
            job = fem.FreeVibration(items, later)
            later.update(bounds)
            job = job.evaluate(k=k, **kw, **xkw)
            rec.label("boundaries-added-to-the-dictionary-after-the-job-was-created")
        else:
            job = fem.FreeVibration(items, bounds).evaluate(k=k, **kw, **xkw)
    lam = np.asarray(job.eigenvalues)
    V = np.asarray(job.eigenvectors)
    if not rec.require("shapes", lam.shape == (k,) and V.shape == (len(dof1), k), [lam.shape, V.shape]):
        return
    if not rec.require("dof1", np.array_equal(np.asarray(job.dof1), dof1)):
        return
    solver_descending = descending and case["seed"] % 2 == 1
    if solver_descending:
        rec.label("user-solver-returns-descending-pairs")
    sgn_ = -1.0 if solver_descending else 1.0
    rec.require("eigenvalues-real-in-the-order-of-the-solver", bool(np.isrealobj(lam) and np.all(sgn_ * np.diff(lam) >= -1e-9 * abs(lam).max())))
    K11 = K[dof1][:, dof1]
    M11 = M[dof1][:, dof1]
    worst = 0.0
    for i in range(k):
        v = V[:, i]
        Kv = K11 @ v
        worst = max(worst, float(np.linalg.norm(Kv - lam[i] * (M11 @ v)) / max(np.linalg.norm(Kv), 1e-300)))
    if cls == "mixed-hexahedron":
        # extra fields without mass: M is singular. ARPACK's convergence test lives in the M-seminorm, so the massless (p, J)
        # components of a returned vector are not controlled by it. Decided in two parts: (a) the pair is an eigenpair of
        # the pencil with the massless unknowns condensed (they follow from K_du u + K_dd d = 0), (b) the returned massless
        # components are those values, i.e. K v = lambda M v on all free unknowns.
        Kd, Md = K11.toarray(), M11.toarray()
        d = np.where(Md.diagonal() == 0)[0]
        u = np.where(Md.diagonal() > 0)[0]
        worst_c = 0.0
        for i in range(k):
            vu = V[u, i]
            dd = -np.linalg.solve(Kd[np.ix_(d, d)], Kd[np.ix_(d, u)] @ vu)
            ru = Kd[np.ix_(u, u)] @ vu + Kd[np.ix_(u, d)] @ dd - lam[i] * (Md[np.ix_(u, u)] @ vu)
            worst_c = max(worst_c, float(np.linalg.norm(ru) / max(np.linalg.norm(Kd[np.ix_(u, u)] @ vu), 1e-300)))
        rec.close("K v = lambda M v, massless unknowns condensed", worst_c, 1e-7, {"k": k})
        rec.close("K v = lambda M v on all free unknowns (massless components of the vectors)", worst, 1e-7, {"k": k, "mass-carrying unknowns": len(u)})
    else:
        rec.close("K v = lambda M v", worst, 1e-7, {"k": k, "class": cls})
    rec.nontrivial = bool(k >= 2 and lam.min() > 0 and len(np.unique(np.round(lam / lam.max(), 6))) >= 2)
    if cls != "mixed-hexahedron":
        rec.require("eigenvalues-positive", bool(lam.min() > 0), float(lam.min()))
    # extracted mode shapes
    n_mode = case["seed"] % k
    # the field may carry any values when a mode is extracted (e.g. the result of a previous static step): they do not enter
    src_field = xkw.get("x0", items[0].field)
    saved = [np.array(f_.values) for f_ in src_field.fields]
    if case["seed"] % 3 != 1:
        r_ = np.random.default_rng(case["seed"] + 5)
        for f_ in src_field.fields:
            f_.values[...] = r_.uniform(-0.3, 0.3, f_.values.shape)
        rec.label("extract-from-a-field-with-non-zero-values")
    field, freq = job.extract(n=n_mode, inplace=False, **xkw)
    for f_, v_ in zip(src_field.fields, saved):
        f_.values[...] = v_
    vals = np.concatenate([f.values.ravel() for f in field.fields])
    rec.close("mode-vanishes-on-prescribed-unknowns", float(np.abs(vals[dof0]).max()) if len(dof0) else 0.0, 0.0)
    rec.close("mode=eigenvector-on-free-unknowns", float(np.abs(vals[dof1] - V[:, n_mode]).max()), 0.0)
    rec.close("frequency=sqrt(lambda)/(2 pi)", abs(freq - np.sqrt(lam[n_mode]) / (2 * np.pi)) / max(abs(freq), 1e-300), 1e-14)
    rec.label(f"k={k}")
    rec.label("bc=" + case["bc"])
    # the same job object evaluated a second time after its public boundary dictionary was replaced: the free unknowns, the
    # pencil and the pairs are those of the new constraints
    if case["seed"] % 2 == 0 and xg is None and cls != "mixed-hexahedron" and case["bc"] != "two-faces":
        case2 = dict(case, bc="two-faces")
        bounds2 = boundaries(fem, fc, Xref, case2, dim)
        dof0b, dof1b = partition_model(fc, bounds2)
        kb = min(k, len(dof1b) - 2)
        if kb >= 1:
            for f_ in fc.fields:
                f_.values[...] = 0
            job.boundaries = bounds2
            job.evaluate(k=kb, **kw)
            rec.label("job-re-evaluated-with-other-boundaries")
            lam2, V2 = np.asarray(job.eigenvalues), np.asarray(job.eigenvectors)
            ok2 = rec.require("re-evaluation: free unknowns follow the new boundaries", np.array_equal(np.asarray(job.dof1), dof1b) and V2.shape == (len(dof1b), kb),
                              [V2.shape, len(dof1b)])
            if ok2:
                K11b, M11b = K[dof1b][:, dof1b], M[dof1b][:, dof1b]
                w2 = 0.0
                for i in range(kb):
                    Kv = K11b @ V2[:, i]
                    w2 = max(w2, float(np.linalg.norm(Kv - lam2[i] * (M11b @ V2[:, i])) / max(np.linalg.norm(Kv), 1e-300)))
                rec.close("re-evaluation: K v = lambda M v", w2, 1e-7, {"k": kb})
                # a mode extracted after the re-evaluation vanishes on the unknowns prescribed NOW (some were free in the first run)
                f2, fr2 = job.extract(n=kb - 1, inplace=False)
                v2 = np.concatenate([f_.values.ravel() for f_ in f2.fields])
                dof0b = np.setdiff1d(np.arange(v2.size), dof1b)
                rec.close("re-evaluation: mode-vanishes-on-prescribed-unknowns", float(np.abs(v2[dof0b]).max()) if len(dof0b) else 0.0, 0.0)
                rec.close("re-evaluation: mode=eigenvector-on-free-unknowns", float(np.abs(v2[dof1b] - V2[:, kb - 1]).max()), 0.0)


def free_check(cls, case, rec):
    fem = import_felupe()
    from scipy.sparse.linalg import eigsh

    case = units(case, cls, rec)
    mesh, Xref, fc, um, dim = model(fem, cls, case)
    rho = case["rho"]
    body = fem.SolidBody(um, fc, density=rho)
    nrb = 3 if dim == 2 else 6
    k = nrb + 3
    n = fc.fields[0].values.size
    if n <= k + 1:
        rec.reject("too few unknowns")
        return
    L = max(case["size"][:dim])
    scale = case["E"] / (rho * L * L)
    job = fem.FreeVibration([body], {}).evaluate(solver=lambda A, M, sigma, **kw: eigsh(A, M=M, sigma=-1e-3 * scale, **kw), k=k)
    lam = np.sort(np.asarray(job.eigenvalues))
    rec.nontrivial = True
    if not rec.require("free-body: as many pairs as requested", lam.shape == (k,) and np.asarray(job.eigenvectors).shape[1] == k, [lam.shape, k]):
        return
    ref = lam[nrb]
    rec.require("first-elastic-eigenvalue-positive", bool(ref > 0), float(ref))
    rec.close("zero-frequency-modes", float(np.abs(lam[:nrb]).max()) / ref, 1e-7, {"lam": lam.tolist()})
    rec.close("exactly-3/6-rigid-modes", 1e-6 if lam[nrb] > 1e-6 * lam[-1] else 1.0, 0.5, {"lam": lam.tolist()})


def rigid_check(cls, case, rec):
    fem = import_felupe()
    case = units(case, cls, rec)
    mesh, Xref, fc, um, dim = model(fem, cls, case)
    case = dict(case)
    if case["bc"] == "face-partial":
        case["bc"] = "face"  # constraints on single global components are not invariant under rotation
    bounds = boundaries(fem, fc, Xref, case, dim)
    k = max(2, min(case["k"], 6))
    rho = case["rho"]
    dof0m, dof1m = partition_model(fc, bounds)
    if len(dof1m) <= k + 2:
        rec.reject("too few free unknowns")
        return
    nfree_u = int((dof1m < fc.fields[0].values.size).sum())
    if cls == "mixed-hexahedron" and nfree_u < 2 * max(2 * k + 1, 20):
        rec.reject("small singular pencil: ARPACK may drop copies of multiple eigenvalues (see the eigenpairs family)")
        return
    kw = {}
    if cls == "mixed-hexahedron":
        from scipy.sparse.linalg import eigsh as _eigsh

        kw = {"solver": lambda A, M, sigma, **kw2: _eigsh(A=A, M=M, sigma=sigma, v0=np.random.default_rng(case["seed"]).uniform(-1, 1, A.shape[0]), **kw2)}
    j1 = fem.FreeVibration([fem.SolidBody(um, fc, density=rho)], bounds).evaluate(k=k, **kw)
    if cls in ("hexahedron", "quad-planestrain") and case["seed"] % 2 == 0:
        # stress recovery of a mode shape between the two analyses (extrapolation from the quadrature points of a region that
        # uses the template's default rule): the regions created afterwards must not be affected
        fem.tools.extrapolate(np.ones((3, 3) + fc.region.dV.shape), fc.region, mean=False)
        rec.label("extrapolate-between-the-analyses")
    tr = {"angles": case["angles"], "shift": case["shift"]}
    mesh2, _, fc2, um2, _ = model(fem, cls, case, transform=tr)
    b2 = boundaries(fem, fc2, Xref, case, dim)  # the same points (masks are evaluated on the reference coordinates)
    j2 = fem.FreeVibration([fem.SolidBody(um2, fc2, density=rho)], b2).evaluate(k=k, **kw)
    a, b = np.sort(np.asarray(j1.eigenvalues)), np.sort(np.asarray(j2.eigenvalues))
    rec.nontrivial = any(abs(((x + 45) % 90) - 45) > 5 for x in case["angles"][: (3 if dim == 3 else 1)])
    rec.close("spectrum-invariant-under-rigid-motion", float(np.abs(a - b).max()) / float(np.abs(a).max()), 1e-7, {"angles": case["angles"], "shift": case["shift"]})


FAMILIES = [
    Family("eigenpairs", CLASSES, check, strategy=strategy, n={"quick": 24, "thorough": 400}, chunk=8, weight=2),
    Family("unconstrained", ["hexahedron", "tetra", "quad-planestrain", "triangle-planestrain", "hexahedron20", "hexahedron-orthotropic", "quad-planestress-law2d"], free_check, strategy=strategy, n={"quick": 10, "thorough": 150}, chunk=5),
    Family("rigid-motion", ["hexahedron", "tetra", "quad-planestrain", "mixed-hexahedron", "quad8-planestrain-law2d"], rigid_check, strategy=strategy, n={"quick": 10, "thorough": 200}, chunk=5, weight=2),
]

LEVEL_TEXT = (
    "Model classes enumerated; Hypothesis draws meshes, material data, boundary dictionaries, mode counts and rigid "
    "motions; every returned pair is verified through its residual with independently assembled K and M, the "
    "rigid-body count and rigid-motion invariance are metamorphic / closed-form oracles."
)
LEVEL_NOTE = "K and M come from fresh items (assembly decided by C01/C02/C14); scipy eigsh is the solver under the hood"
TECHNIQUE = "property-based testing (Hypothesis) with residual / invariance oracles on the generalised eigenproblem"
