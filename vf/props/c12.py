"""C12 - independent implementations of the same model agree."""
import numpy as np
from hypothesis import strategies as st

from vf.core import Family, import_felupe
from vf.gen import materials as gmat

PROPERTY = "C12"
RULE = (
    "finite axis = every pair of implementations of the same model (9 jax/tensortrax energy pairs, MORPH and "
    "MORPH-representative-directions twins along generated pre-histories incl. their states, total/updated Lagrange "
    "twins, hand-coded NeoHooke / NeoHookeCompressible / OgdenRoxburgh vs their automatic-differentiation versions, "
    "the linear-elastic family incl. plane stress / plane strain vs the constrained 3-D law, orthotropic linear "
    "elasticity vs the orthotropic SVK tangent at I) and every isotropic model with a documented initial modulus. "
    "Hypothesis draws parameters, F = R U (batch fixed for jax), pre-histories and engineering constants (orthotropic "
    "sets from an SPD compliance by construction). Oracle: differential (both implementations on identical inputs) "
    "and the closed-form isotropic tangent lambda 1x1 + mu (1 ik 1 + 1 il 1) at F = I. Non-trivial: |F - I| >= 0.05."
    ' Added later: incremental histories for the small-strain law, hand-coded laws through re-used out= buffers, rotated / permuted orthotropic material axes with and without an explicit third axis, coaxial histories of the MORPH pair.'
)
ASSUMPTIONS = [
    "backend eigenvalue regularisation (jax: diag(0, +-1e-4); van der Waals: +1e-4 on the invariant) bounds the admissible disagreement: |dP| <= 20 delta |A|, |dA| <= 5e-2 |A| for those models, 1e-8 otherwise",
    "initial moduli are compared for the models whose docstring states a closed form (extended tube at delta = 0)",
]

PAIRS = [["jax-vs-tt", n] for n in ["neo_hooke", "mooney_rivlin", "yeoh", "third_order_deformation", "extended_tube", "van_der_waals",
                                   "miehe_goektepe_lulei", "blatz_ko", "storakers", "morph", "morph_representative_directions",
                                   "total_lagrange(neo_hooke)", "updated_lagrange(neo_hooke)"]]
# the strain-energy form and the stress form of the same tensortrax model
PAIRS += [["energy-vs-stress", "morph_representative_directions"]]
PAIRS += [["hand-vs-ad", n] for n in ["NeoHooke", "NeoHookeCompressible", "OgdenRoxburgh", "Volumetric"]]
PAIRS += [["linear", n] for n in ["family", "plane-strain", "plane-stress", "orthotropic", "large-strain-at-I"]]
MODULI = [n for n in gmat.NAMES if "mu0" in gmat.REG[n]] + ["tt:extended_tube(delta=0)", "jax:extended_tube(delta=0)", "tt:van_der_waals", "jax:van_der_waals"]


def pair_strategy(ax, tier):
    kind, n = ax
    if kind in ("jax-vs-tt", "energy-vs-stress"):
        e = gmat.REG["tt:" + n]
        return st.fixed_dictionaries({"params": e["params"], "F": gmat.st_Fcase(((2, 2),))})
    if kind == "hand-vs-ad":
        return st.fixed_dictionaries({"mu": gmat.fl(0.3, 3), "lmbda": gmat.fl(0.2, 10), "r": gmat.fl(1.5, 5), "m": gmat.fl(0.3, 2), "beta": gmat.fl(0.0, 0.5),
                                      "F": gmat.st_Fcase(((1, 1), (2, 3), (1, 4)))})
    return st.fixed_dictionaries({"E": gmat.fl(0.5, 200), "nu": gmat.fl(-0.3, 0.45), "oseed": st.integers(0, 10**6), "fseed": st.integers(0, 2**32 - 1),
                                  "batch": st.sampled_from([[1, 1], [2, 3]]), "amp": st.sampled_from([0.003, 0.02])})


def relmax(a, b, sc):
    a, b = np.asarray(a, float), np.asarray(b, float)
    if a.shape != b.shape:
        try:
            a, b = np.broadcast_arrays(a, b)
        except ValueError:
            return float("inf")
    return float(np.abs(a - b).max()) / sc


def run_history(name, params, F, hist, lam, Q=None):
    e = gmat.REG[name]
    um = gmat.build(name, params)
    batch = F.shape[2:]
    sv0 = gmat.virgin_state(name, batch)
    sv = gmat.drive_history(name, um, sv0, F, hist, batch, lam, Q=Q) if e["nstate"] else sv0
    noarg = e["nstate"] == 0 and e["backend"] != "hand"
    out = um.gradient([F.copy(), None if noarg else sv.copy()])
    P = np.array(out[0], dtype=float).copy()
    snew = None if out[-1] is None else np.array(out[-1], dtype=float).copy()
    A = np.array(um.hessian([F.copy(), None if noarg else sv.copy()])[0], dtype=float).copy()
    return P, A, sv, snew


def pair_check(ax, case, rec):
    fem = import_felupe()
    kind, n = ax
    if kind in ("jax-vs-tt", "energy-vs-stress"):
        name_a, name_b = ("jax:" + n, "tt:" + n) if kind == "jax-vs-tt" else ("tt:hyperelastic." + n, "tt:" + n)
        ej = gmat.REG[name_a]
        rng = np.random.default_rng(case["F"]["fseed"])
        Qc = gmat.coaxial_Q(case["F"], (2, 2)) if ej["nstate"] else None
        F = gmat.make_F(rng, (2, 2), ej["lam"], sep=True, Q=Qc)
        rec.nontrivial = True
        Pj, Aj, svj, snj = run_history(name_a, case["params"], F, case["F"]["hist"], ej["lam"], Q=Qc)
        Pt, At, svt, snt = run_history(name_b, case["params"], F, case["F"]["hist"], ej["lam"], Q=Qc)
        sc = float(np.abs(At).max())
        reg = max(ej["reg"], gmat.REG[name_b]["reg"])
        tolP = 20 * reg * max(1.0, gmat.reg_scale(n, case["params"]) / sc) if reg else 1e-8
        tolA = 5e-2 if reg else 1e-7
        if n in ("extended_tube", "storakers", "miehe_goektepe_lulei") and not reg:
            tolP, tolA = 1e-6, 1e-5  # tensortrax perturbs coincident eigenvalues by sqrt(eps)
        tag = ""
        if ej["nstate"]:
            virgin = np.array_equal(svt, gmat.virgin_state(name_b, (2, 2)))
            tag = "@virgin" if virgin else "@history-coaxial" if Qc is not None else "@history"
            rec.close("state-before" + tag, relmax(svj, svt, max(1.0, float(np.abs(svt).max()))), max(tolP, 1e-8))
            rec.close("state-after" + tag, relmax(snj, snt, max(1.0, float(np.abs(snt).max()))), max(tolP, 1e-8))
        rec.close("stress" + tag, relmax(Pj, Pt, sc), tolP, {"params": case["params"]})
        if tag == "@history-coaxial":
            # coaxial history: the elasticity tensors are compared along the three stretch directions, in which the
            # perturbed states stay coaxial; the full tensors go to the general bucket
            worst = 0.0
            for k in range(3):
                qq = np.stack([np.outer(Qc[i][:, k], Qc[i][:, k]) for i in range(len(Qc))], -1).reshape(3, 3, 2, 2)
                dF = np.einsum("ij...,jk...->ik...", F, qq)
                worst = max(worst, relmax(np.einsum("ijkl...,kl...->ij...", Aj, dF), np.einsum("ijkl...,kl...->ij...", At, dF), sc))
            rec.close("elasticity along the principal stretches" + tag, worst, tolA, {"params": case["params"]})
            rec.close("elasticity@history", relmax(Aj, At, sc), tolA, {"params": case["params"]})
        else:
            rec.close("elasticity" + tag, relmax(Aj, At, sc), tolA, {"params": case["params"]})
    elif kind == "hand-vs-ad":
        import felupe.constitution.tensortrax as tt

        M = tt.models.hyperelastic
        rng = np.random.default_rng(case["F"]["fseed"])
        batch = tuple(case["F"]["batch"])
        F = gmat.make_F(rng, batch, (0.7, 1.5), sep=True)
        rec.nontrivial = True
        mu, lm = case["mu"], case["lmbda"]
        if n == "NeoHooke":
            a = fem.NeoHooke(mu=mu)
            b = gmat.build("tt:neo_hooke", {"mu": mu})
            sva = svb = None
        elif n == "Volumetric":
            import tensortrax.math as tm

            def vol(C, bulk):
                return bulk * (tm.sqrt(tm.linalg.det(C)) - 1) ** 2 / 2

            a = fem.Volumetric(bulk=lm)
            b = tt.Hyperelastic(vol, bulk=lm)
            sva = svb = None
        elif n == "NeoHookeCompressible":
            import tensortrax.math as tm

            def nhc(C, mu, lmbda):  # docstring: psi = mu/2 (tr C - 3) - mu ln J + lmbda/2 ln(J)^2
                lnJ = tm.log(tm.linalg.det(C)) / 2
                return mu / 2 * (tm.trace(C) - 3) - mu * lnJ + lmbda / 2 * lnJ**2

            a = fem.NeoHookeCompressible(mu=mu, lmbda=lm)
            b = tt.Hyperelastic(nhc, mu=mu, lmbda=lm)
            sva = svb = None
        else:
            a = fem.OgdenRoxburgh(fem.NeoHooke(mu=mu), r=case["r"], m=case["m"], beta=case["beta"])
            b = tt.Hyperelastic(M.ogden_roxburgh, material=M.neo_hooke, mu=mu, r=case["r"], m=case["m"], beta=case["beta"], nstatevars=1)
            # generated load-unload histories: pre-loads in the same direction with a larger amplitude -> F is an unloading state
            hist = [dict(seed=2 * h["seed"], scale=h["scale"]) for h in case["F"]["hist"]]
            sva = gmat.drive_history("OgdenRoxburgh(NeoHooke)", a, np.zeros((1,) + batch), F, hist, batch, (0.7, 1.5))
            svb = gmat.drive_history("tt:ogden_roxburgh(neo_hooke)", b, np.zeros((1,) + batch), F, hist, batch, (0.7, 1.5))
            rec.label("or-unloading" if hist else "or-primary")
            rec.close("state-before", relmax(sva, svb, max(1.0, float(np.abs(sva).max()))), 1e-10)
        oa = a.gradient([F.copy(), None if sva is None else sva.copy()])
        ob = b.gradient([F.copy(), None if svb is None else svb.copy()])
        Pa, Pb = np.array(oa[0], float).copy(), np.array(ob[0], float).copy()
        Aa = np.array(a.hessian([F.copy(), None if sva is None else sva.copy()])[0], float).copy()
        Ab = np.array(b.hessian([F.copy(), None if svb is None else svb.copy()])[0], float).copy()
        sc = float(np.abs(Aa).max())
        if sva is not None:
            rec.close("state-after", relmax(oa[-1], ob[-1], max(1.0, float(np.abs(np.asarray(oa[-1])).max()))), 1e-10)
            # at the history switch W == Wmax both branches are admissible: skip items within 1e-6 of it
            Wn = np.asarray(a.material.function([F.copy(), None])[0], float)
            if np.any((np.abs(Wn - sva[0]) < 1e-6 * np.maximum(Wn, 1e-12)) & (sva[0] > 0)):
                rec.label("or-at-switch-skipped")
                return
        rec.close("stress", relmax(Pa, Pb, sc), 1e-9)
        rec.close("elasticity", relmax(Aa, Ab, sc), 1e-8)
        if sva is not None:
            # several trial deformations within one increment: the SAME state array is handed over again after a larger trial state
            sa_, sb_ = sva.copy(), svb.copy()
            I_ = np.eye(3).reshape(3, 3, *([1] * len(batch)))
            Fbig = I_ + 1.3 * (F - I_)
            if float(np.linalg.det(np.moveaxis(Fbig, (0, 1), (-2, -1))).min()) > 0.2:
                a.gradient([Fbig.copy(), sa_])
                b.gradient([Fbig.copy(), sb_])
                rec.require("trial-evaluation-leaves-the-caller's-state-array", np.array_equal(sa_, sva) and np.array_equal(sb_, svb))
                Pa3 = np.array(a.gradient([F.copy(), sa_])[0], float)
                Pb3 = np.array(b.gradient([F.copy(), sb_])[0], float)
                rec.close("stress-after-a-trial-evaluation-on-the-same-state-array", relmax(Pa3, Pb3, sc), 1e-9)
        import inspect

        if "out" in inspect.signature(a.gradient).parameters:
            # the way SolidBody calls the hand-coded laws: results of the previous evaluation are handed back as out=
            F2 = gmat.make_F(np.random.default_rng([case["F"]["fseed"], 5]), batch, (0.7, 1.5), sep=True)
            s2a, s2b = (None, None) if sva is None else (sva.copy(), svb.copy())
            bufP, bufA = Pa.copy(), np.array(np.broadcast_to(Aa, (3, 3, 3, 3) + batch)).copy()
            P2a = np.array(a.gradient([F2.copy(), s2a], out=bufP)[0], float).copy()
            P2b = np.array(b.gradient([F2.copy(), s2b])[0], float).copy()
            A2a = np.array(a.hessian([F2.copy(), s2a], out=bufA)[0], float).copy()
            A2b = np.array(b.hessian([F2.copy(), s2b])[0], float).copy()
            at_switch = False
            if sva is not None:
                W2 = np.asarray(a.material.function([F2.copy(), None])[0], float)
                at_switch = bool(np.any(np.abs(W2 - sva[0]) < 1e-6 * np.maximum(W2, 1e-12)))
            if not at_switch:
                rec.close("stress@reused-out-buffer", relmax(P2a, P2b, sc), 1e-9)
                rec.close("elasticity@reused-out-buffer", relmax(A2a, np.broadcast_to(A2b, A2a.shape), sc), 1e-8)
    else:
        E, nu = case["E"], case["nu"]
        rng = np.random.default_rng(case["fseed"])
        batch = tuple(case["batch"])
        I = np.eye(3).reshape(3, 3, 1, 1)
        F = I + case["amp"] * rng.uniform(-1, 1, (3, 3) + batch)
        rec.nontrivial = True
        LE = fem.LinearElastic(E=E, nu=nu)
        Pa = np.array(LE.gradient([F.copy(), None])[0], float).copy()
        Aa = np.array(LE.hessian([F.copy(), None])[0], float).copy()
        Aa6 = np.broadcast_to(Aa.reshape(Aa.shape[:4] + (1,) * (6 - Aa.ndim)) if Aa.ndim < 6 else Aa, (3, 3, 3, 3) + batch)
        sc = float(np.abs(Aa).max())
        lam, mu = fem.constitution.lame_converter(E, nu)
        rec.close("lame-converter", max(abs(lam - E * nu / ((1 + nu) * (1 - 2 * nu))), abs(mu - E / (2 * (1 + nu)))) / E, 1e-14)
        if n == "family":
            TN = fem.constitution.LinearElasticTensorNotation(E=E, nu=nu)
            MS = fem.MaterialStrain(material=fem.linear_elastic, **{"λ": lam, "μ": mu})
            sv = np.zeros((18,) + batch)
            rec.close("tensor-notation-stress", relmax(TN.gradient([F.copy(), None])[0], Pa, sc * case["amp"]), 1e-11)
            rec.close("tensor-notation-elasticity", relmax(np.asarray(TN.hessian([F.copy(), None])[0]).reshape(3, 3, 3, 3, -1)[..., :1], Aa6.reshape(3, 3, 3, 3, -1)[..., :1], sc), 1e-12)
            rec.close("material-strain-stress", relmax(MS.gradient([F.copy(), sv])[0], Pa, sc * case["amp"]), 1e-11)
            rec.close("material-strain-elasticity", relmax(np.broadcast_to(np.asarray(MS.hessian([F.copy(), sv])[0]), (3, 3, 3, 3) + batch), Aa6, sc), 1e-12)
            # the small-strain framework is incremental (sigma = sigma_n + C : d_eps): after accepted increments with
            # non-zero volumetric strain the stress at F must still be the total linear-elastic stress
            svh = np.zeros((18,) + batch)
            for j in range(2):
                Fh = I + case["amp"] * np.random.default_rng([case["fseed"], j]).uniform(-1, 1, (3, 3) + batch)
                svh = np.array(MS.gradient([Fh.copy(), svh])[-1], dtype=float).copy()
            rec.close("material-strain-stress@history", relmax(MS.gradient([F.copy(), svh.copy()])[0], Pa, sc * case["amp"]), 1e-11)
            rec.close("material-strain-elasticity@history", relmax(np.broadcast_to(np.asarray(MS.hessian([F.copy(), svh.copy()])[0]), (3, 3, 3, 3) + batch), Aa6, sc), 1e-12)
            # reference: isotropic tangent from the documented moduli
            d = np.eye(3)
            ref = lam * np.einsum("ij,kl->ijkl", d, d) + mu * (np.einsum("ik,jl->ijkl", d, d) + np.einsum("il,jk->ijkl", d, d))
            rec.close("isotropic-tangent", relmax(Aa6[..., 0, 0], ref, sc), 1e-13)
        elif n == "plane-strain":
            PS = fem.constitution.LinearElasticPlaneStrain(E=E, nu=nu)
            F2 = np.ascontiguousarray(F[:2, :2])
            Fc = I * np.ones((1, 1) + batch)
            Fc[:2, :2] = F2
            P3 = np.array(LE.gradient([Fc, None])[0], float)
            rec.close("plane-strain-stress", relmax(PS.gradient([F2.copy(), None])[0], P3[:2, :2], sc * case["amp"]), 1e-11)
            A2 = np.asarray(PS.hessian([F2.copy(), None])[0], float)
            rec.close("plane-strain-elasticity", relmax(A2.reshape(2, 2, 2, 2, -1)[..., 0], Aa6[:2, :2, :2, :2, 0, 0], sc), 1e-12)
            # the 3-d stress and strain tensors recovered from the in-plane deformation gradient are those of the 3-d law
            H3 = Fc - I
            e3 = 0.5 * (H3 + np.swapaxes(H3, 0, 1))
            rec.close("plane-strain-3d-strain", relmax(np.asarray(PS.strain([F2.copy(), None])[0], float), e3, case["amp"]), 1e-12)
            rec.close("plane-strain-3d-stress", relmax(np.asarray(PS.stress([F2.copy(), None])[0], float), P3, sc * case["amp"]), 1e-11)
        elif n == "plane-stress":
            PT = fem.LinearElasticPlaneStress(E=E, nu=nu)
            F2 = np.ascontiguousarray(F[:2, :2])
            Fs = I * np.ones((1, 1) + batch)
            Fs[:2, :2] = F2
            Fs[2, 2] = 1 - nu / (1 - nu) * ((F2[0, 0] - 1) + (F2[1, 1] - 1))
            P3 = np.array(LE.gradient([Fs, None])[0], float)
            rec.close("3d-reference-sigma33=0", float(np.abs(P3[2, 2]).max()) / (sc * case["amp"]), 1e-11)
            rec.close("plane-stress-stress", relmax(PT.gradient([F2.copy(), None])[0], P3[:2, :2], sc * case["amp"]), 1e-11)
            C = Aa6[..., 0, 0]
            Cps = C[:2, :2, :2, :2] - np.einsum("ij,kl->ijkl", C[:2, :2, 2, 2], C[2, 2, :2, :2]) / C[2, 2, 2, 2]
            A2 = np.asarray(PT.hessian([F2.copy(), None])[0], float)
            rec.close("plane-stress-elasticity", relmax(A2.reshape(2, 2, 2, 2, -1)[..., 0], Cps, sc), 1e-12)
            H3 = Fs - I
            e3 = 0.5 * (H3 + np.swapaxes(H3, 0, 1))
            rec.close("plane-stress-3d-strain", relmax(np.asarray(PT.strain([F2.copy(), None])[0], float), e3, case["amp"]), 1e-12)
            rec.close("plane-stress-3d-stress", relmax(np.asarray(PT.stress([F2.copy(), None])[0], float), P3, sc * case["amp"]), 1e-11)
        elif n == "orthotropic":
            import felupe.constitution.tensortrax as tt

            r = np.random.default_rng(case["oseed"])
            # engineering constants from an SPD compliance matrix (by construction)
            Q = r.uniform(-1, 1, (3, 3))
            S = Q @ Q.T / 3 + np.eye(3)
            S = S / E
            Eo = [1 / S[0, 0], 1 / S[1, 1], 1 / S[2, 2]]
            nuo = [-S[0, 1] * Eo[0], -S[1, 2] * Eo[1], -S[2, 0] * Eo[2]]  # nu12, nu23, nu31
            Go = (E * r.uniform(0.2, 0.6, 3)).tolist()
            OR = fem.LinearElasticOrthotropic(E=Eo, nu=nuo, G=Go)
            lmb, muo = fem.constitution.lame_converter_orthotropic(Eo, nuo, Go)
            SV = tt.Hyperelastic(tt.models.hyperelastic.saint_venant_kirchhoff_orthotropic, mu=muo, lmbda=lmb, r1=[1, 0, 0], r2=[0, 1, 0])
            I1 = np.eye(3).reshape(3, 3, 1, 1)
            Ao = np.asarray(OR.hessian([I1, None])[0], float).reshape(3, 3, 3, 3, -1)[..., 0]
            As = np.asarray(SV.hessian([I1, None])[0], float).reshape(3, 3, 3, 3, -1)[..., 0]
            rec.close("orthotropic=svk-tangent-at-I", relmax(Ao, As, float(np.abs(Ao).max())), 1e-10)
            # the linear law: stress = elasticity : displacement gradient (and the large-strain twin's energy / stress access)
            Po = np.asarray(OR.gradient([F.copy(), None])[0], float)
            rec.close("orthotropic-stress=C:H", relmax(Po, np.einsum("ijkl,kl...->ij...", Ao, F - I), float(np.abs(Ao).max()) * case["amp"]), 1e-11)
            # material axes not aligned with the global ones: the tangent is the rotated orthotropic tangent
            from scipy.spatial.transform import Rotation

            Rm = Rotation.random(random_state=int(case["oseed"] % 2**31)).as_matrix()
            if case["oseed"] % 4 == 0:
                Rm = np.eye(3)[:, [1, 2, 0]]  # cyclic permutation of the axes
            kw3 = {} if case["oseed"] % 2 else {"r3": Rm[:, 2].tolist()}
            SVr = tt.Hyperelastic(tt.models.hyperelastic.saint_venant_kirchhoff_orthotropic, mu=muo, lmbda=lmb, r1=Rm[:, 0].tolist(), r2=Rm[:, 1].tolist(), **kw3)
            Ar = np.asarray(SVr.hessian([I1, None])[0], float).reshape(3, 3, 3, 3, -1)[..., 0]
            Aref = np.einsum("ia,jb,kc,ld,abcd->ijkl", Rm, Rm, Rm, Rm, Ao)
            rec.close("orthotropic=svk-tangent-at-I(rotated material axes)", relmax(Ar, Aref, float(np.abs(Ao).max())), 1e-10)
            # compliance check: strain response to uniaxial stress along axis 1 has -nu12/E1 in direction 2
            C6 = np.array([[Ao[i, i, j, j] for j in range(3)] for i in range(3)])
            Sinv = np.linalg.inv(C6)
            rec.close("orthotropic-compliance", float(np.abs(Sinv - S).max() / np.abs(S).max()), 1e-9, {"E": Eo, "nu": nuo})
            rec.close("orthotropic-shear", max(abs(Ao[0, 1, 0, 1] - Go[0]), abs(Ao[1, 2, 1, 2] - Go[1]), abs(Ao[0, 2, 0, 2] - Go[2])) / max(Go), 1e-12)
            # isotropic special case equals LinearElastic
            ISO = fem.LinearElasticOrthotropic(E=[E] * 3, nu=[nu] * 3, G=[mu] * 3)
            rec.close("orthotropic-isotropic-case", relmax(np.asarray(ISO.hessian([I1, None])[0]).reshape(3, 3, 3, 3, -1)[..., 0], Aa6[..., 0, 0], sc), 1e-12)
        else:
            LS = fem.LinearElasticLargeStrain(E=E, nu=nu)
            I1 = np.eye(3).reshape(3, 3, 1, 1)
            A = np.asarray(LS.hessian([I1, None])[0], float).reshape(3, 3, 3, 3, -1)[..., 0]
            rec.close("large-strain-tangent-at-I", relmax(A, Aa6[..., 0, 0], sc), 1e-9)


def mod_strategy(name, tier):
    base = name.replace("(delta=0)", "")
    return st.fixed_dictionaries({"params": gmat.REG[base]["params"]})


def mod_check(name, case, rec):
    base = name.replace("(delta=0)", "")
    e = gmat.REG[base]
    p = dict(case["params"])
    if name.endswith("(delta=0)"):
        p["delta"] = 0.0
        mu0, K0 = p["Gc"] + p["Ge"], 0.0
    elif base.endswith("van_der_waals"):
        mu0, K0 = p["mu"], 0.0
    else:
        mu0, K0 = e["mu0"](p), e["K0"](p)
    um = gmat.build(base, p)
    batch = (2, 2) if e["backend"] == "jax" else (1, 1)
    I = np.eye(3).reshape(3, 3, 1, 1) * np.ones((1, 1) + batch)
    sv = gmat.virgin_state(base, batch)
    noarg = e["nstate"] == 0 and e["backend"] != "hand"
    A = np.array(um.hessian([I, None if noarg else sv])[0], dtype=float).reshape(3, 3, 3, 3, -1)[..., 0]
    rec.nontrivial = True
    d = np.eye(3)
    lam = K0 - 2 / 3 * mu0
    ref = lam * np.einsum("ij,kl->ijkl", d, d) + mu0 * (np.einsum("ik,jl->ijkl", d, d) + np.einsum("il,jk->ijkl", d, d))
    sc = max(mu0, abs(K0), 1e-12)
    tol = 1e-8
    if e["spectral"] or e["reg"] or name.endswith("(delta=0)"):
        tol = 1e-5
    if base.endswith("van_der_waals"):
        # 1e-4 regularisation of the invariant: |mu0/mu - 1| <= 3 (eta0 + a sqrt(5e-5)), eta0 = sqrt(1e-4 / (limit^2 - 3))
        tol = 3 * (np.sqrt(1e-4 / (p["limit"] ** 2 - 3)) + p["a"] * np.sqrt(5e-5)) + 1e-6
    if e["reg"] and not base.endswith("van_der_waals"):
        tol = 5e-2
    rec.close("initial-tangent", float(np.abs(A - ref).max()) / sc, tol, {"params": p, "mu0": mu0, "K0": K0,
                                                                        "mu-measured": float(A[0, 1, 0, 1]), "K-measured": float(A[0, 0, 1, 1] + 2 / 3 * A[0, 1, 0, 1])})


FAMILIES = [
    Family("pairs", PAIRS, pair_check, strategy=pair_strategy, n={"quick": 6, "thorough": 120}, chunk=60, weight=3),
    Family("moduli", MODULI, mod_check, strategy=mod_strategy, n={"quick": 6, "thorough": 100}, chunk=100),
]

LEVEL_TEXT = (
    "All implementation pairs and all models with a documented initial modulus enumerated; Hypothesis draws "
    "parameters, states and engineering constants; differential comparison on identical inputs and comparison with "
    "the closed-form isotropic tangent at F = I."
)
LEVEL_NOTE = "disagreement bounded by the documented backend regularisation where one exists; jax in x64 mode"
TECHNIQUE = "differential property-based testing (Hypothesis): two implementations on identical generated inputs + closed-form oracle"
