"""C05 - quadrature schemes integrate polynomials exactly up to their stated degree."""
import itertools
from functools import lru_cache
from math import factorial

import numpy as np
from hypothesis import strategies as st

from vf.core import Family, import_felupe

PROPERTY = "C05"
RULE = (
    "finite axis = every scheme/order/dim/permute combination (enumerated completely); family 'monomials' enumerates "
    "the complete monomial basis up to the documented degree (per-axis degree for tensor rules, total degree for "
    "simplex rules, even monomials up to degree 8 for the antipodally symmetrised sphere rule) plus the first "
    "undocumented degree (must NOT be integrated exactly by the table rules: guards vacuity); family 'randpoly' draws "
    "random products of affine forms (Hypothesis) and compares with the closed-form integral of the expanded product; "
    "family 'structure' checks domain membership, weight sum, boundary variants and permutation. "
    "Non-trivial: a polynomial that is not constant (degree >= 1 in some variable) resp. a scheme with > 1 point."
    ' Every scheme must be bit-identical after its auxiliary methods (plot with a stand-in plotter, weighted on/off; inv()).'
)
ASSUMPTIONS = [
    "decimal tables are required exact to the number of digits they print (tolerances per scheme in TOL)",
    "BazantOh is a half-sphere rule with doubled weights: evaluated on the antipodally symmetrised 42-point rule",
]

GL = [["GaussLegendre", o, d, p] for o in range(9) for d in (1, 2, 3) for p in (True, False)]
LO = [["GaussLobatto", o, d, None] for o in range(6) for d in (1, 2, 3)]
TRI = [["Triangle", o, 2, None] for o in (1, 2, 3, 5)]
TET = [["Tetrahedron", o, 3, None] for o in (1, 2, 3, 5)]
SPH = [["BazantOh", 21, 3, None]]
GLB = [["GaussLegendreBoundary", o, d, p] for o in range(9) for d in (2, 3) for p in (True, False)]
LOB = [["GaussLobattoBoundary", o, d, None] for o in range(6) for d in (2, 3)]


@lru_cache(maxsize=None)
def scheme(kind, order, dim, permute):
    fem = import_felupe()
    if kind == "GaussLegendre":
        return fem.GaussLegendre(order, dim, permute=permute)
    if kind == "GaussLobatto":
        return fem.GaussLobatto(order, dim)
    if kind == "Triangle":
        return fem.TriangleQuadrature(order)
    if kind == "Tetrahedron":
        return fem.TetrahedronQuadrature(order)
    if kind == "BazantOh":
        return fem.BazantOh(n=order)
    if kind == "GaussLegendreBoundary":
        return fem.GaussLegendreBoundary(order, dim, permute=permute)
    if kind == "GaussLobattoBoundary":
        return fem.GaussLobattoBoundary(order, dim)
    raise KeyError(kind)


def degree(kind, order):
    if kind.startswith("GaussLegendre"):
        return 2 * (order + 1) - 1
    if kind.startswith("GaussLobatto"):
        return 2 * (order + 2) - 3
    if kind in ("Triangle", "Tetrahedron"):
        return order
    return 9


def tol(kind, order):
    if kind == "Triangle" and order == 5:
        return 2e-12  # 13 printed digits
    if kind == "Tetrahedron" and order == 2:
        return 5e-8  # 8 printed digits
    if kind == "Tetrahedron" and order == 5:
        return 1e-13
    if kind == "BazantOh":
        return 2e-11  # 12 printed digits
    return 2e-13


def dfact(n):  # double factorial with (-1)!! = 1
    r = 1
    while n > 1:
        r *= n
        n -= 2
    return r


def exact(kind, e):
    e = tuple(int(k) for k in e)
    if kind in ("GaussLegendre", "GaussLobatto"):
        return float(np.prod([0.0 if k % 2 else 2.0 / (k + 1) for k in e]))
    if kind in ("Triangle", "Tetrahedron"):
        return float(np.prod([factorial(k) for k in e])) / factorial(sum(e) + len(e))
    if kind == "BazantOh":  # mean over the unit sphere
        if any(k % 2 for k in e):
            return 0.0
        return dfact(e[0] - 1) * dfact(e[1] - 1) * dfact(e[2] - 1) / dfact(sum(e) + 1)
    raise KeyError(kind)


def rule(ax):
    kind, order, dim, permute = ax
    q = scheme(kind, order, dim, permute)
    x = np.asarray(q.points, dtype=float)
    w = np.asarray(q.weights, dtype=float)
    if kind == "BazantOh":
        x = np.vstack([x, -x])
        w = np.concatenate([w, w]) / 2
    return x, w


# ---- family monomials -------------------------------------------------------------------------
def mono_cases(ax, tier):
    kind, order, dim, permute = ax
    deg = degree(kind, order)
    if kind in ("GaussLegendre", "GaussLobatto"):
        for e in itertools.product(range(deg + 1), repeat=dim):
            yield {"e": list(e), "expect": "exact"}
        for k in range(dim):
            e = [0] * dim
            e[k] = deg + 1
            yield {"e": e, "expect": "inexact"}
    else:
        top = 8 if kind == "BazantOh" else deg
        for e in itertools.product(range(top + 1), repeat=dim):
            if sum(e) <= top:
                yield {"e": list(e), "expect": "exact"}
        if kind != "BazantOh":
            for e in itertools.product(range(deg + 2), repeat=dim):
                if sum(e) == deg + 1:
                    yield {"e": list(e), "expect": "next"}


def mono_check(ax, case, rec):
    kind, order, dim, permute = ax
    x, w = rule(ax)
    e = case["e"]
    val = float((w * np.prod(x ** np.array(e), axis=1)).sum())
    ref = exact(kind, e)
    rec.nontrivial = sum(e) >= 1
    if case["expect"] == "exact":
        rec.close("exact", abs(val - ref), tol(kind, order), {"e": e, "got": val, "ref": ref})
    elif case["expect"] == "inexact":
        # a Gauss rule with n points cannot integrate x^(2n) (Gauss-Lobatto: x^(2n-2)): the rule is not over-sized
        rec.require("degree-is-sharp", abs(val - ref) > 1e-6, {"e": e})
    else:
        rec.label("next-degree-error=%.1e" % abs(val - ref))


# ---- family randpoly --------------------------------------------------------------------------
def rand_strategy(ax, tier):
    kind, order, dim, permute = ax
    deg = degree(kind, order)
    top = 8 if kind == "BazantOh" else deg
    top = min(top, 9)
    return st.fixed_dictionaries(
        {
            "k": st.integers(1, max(1, top)),
            "seed": st.integers(0, 2**32 - 1),
            "amp": st.sampled_from([0.3, 1.0, 3.0]),
        }
    )


def expand(forms, dim):
    """coefficient array of prod_j (c_j0 + sum_i c_ji x_i)"""
    coef = np.ones((1,) * dim)
    for c in forms:
        new = np.zeros(tuple(s + 1 for s in coef.shape))
        new[tuple(slice(0, s) for s in coef.shape)] += c[0] * coef
        for i in range(dim):
            sl = [slice(0, s) for s in coef.shape]
            sl[i] = slice(1, coef.shape[i] + 1)
            new[tuple(sl)] += c[1 + i] * coef
        coef = new
    return coef


def rand_check(ax, case, rec):
    kind, order, dim, permute = ax
    deg = degree(kind, order)
    k = case["k"]
    if kind == "BazantOh":
        k = 2 * (k // 2) if k > 1 else 2  # even total degree <= 8 carries the statement on the symmetrised rule
        k = min(k, 8)
    k = min(k, deg) if deg >= 1 else 0
    rng = np.random.default_rng(case["seed"])
    forms = rng.uniform(-1, 1, size=(k, dim + 1)) * case["amp"]
    forms[:, 0] += np.sign(forms[:, 0] + 1e-300) * 0.1
    x, w = rule(ax)
    vals = np.ones(len(x))
    for c in forms:
        vals = vals * (c[0] + x @ c[1:])
    got = float((w * vals).sum())
    coef = expand(forms, dim)
    ref, scale = 0.0, 0.0
    for e in itertools.product(*[range(s) for s in coef.shape]):
        if coef[e] != 0.0:
            t = coef[e] * exact(kind, e)
            ref += t
            scale += abs(coef[e]) * abs(exact(kind, tuple(2 * (i // 2) for i in e)) or 1.0)
    rec.nontrivial = k >= 1
    rec.label(f"deg={k}")
    rec.close("randpoly", abs(got - ref) / max(scale, 1e-300), tol(kind, order) * 4, {"got": got, "ref": ref})


# ---- family structure -------------------------------------------------------------------------
def struct_cases(ax, tier):
    yield {"what": "structure"}


def _md(a, b):
    a, b = np.asarray(a, float), np.asarray(b, float)
    return float(np.abs(a - b).max()) if a.shape == b.shape else float("inf")


def struct_check(ax, case, rec):
    fem = import_felupe()
    kind, order, dim, permute = ax
    q = scheme(kind, order, dim, permute)
    x = np.asarray(q.points, float)
    w = np.asarray(q.weights, float)
    rec.nontrivial = len(w) > 1
    rec.require("shape", x.shape == (len(w), dim) and q.dim == dim and q.npoints == len(w), str(x.shape))
    # a scheme object is shared freely (region templates keep one default instance): using its auxiliary methods must not
    # change the rule. plot() is driven with a stand-in plotter (no rendering).

    class _Plotter:
        def add_points(self, *a, **k):
            pass

    x_before, w_before = x.copy(), w.copy()
    for weighted in (True, False):
        q.plot(plotter=_Plotter(), weighted=weighted)
    if hasattr(q, "inv"):
        q.inv()
    rec.require("rule-unchanged-by-plot()/inv()", np.array_equal(np.asarray(q.points, float), x_before) and np.array_equal(np.asarray(q.weights, float), w_before),
                {"weights-sum-before": float(w_before.sum()), "after": float(np.asarray(q.weights).sum())})
    x = np.asarray(q.points, float)
    w = np.asarray(q.weights, float)
    t = tol(kind.replace("Boundary", ""), order)
    if kind in ("GaussLegendre", "GaussLobatto"):
        rec.close("weights-sum", abs(w.sum() - 2.0**dim), t)
        rec.close("inside", max(0.0, float(np.abs(x).max() - 1.0)), 1e-14)
        rec.require("weights-positive", (w > 0).all())
        if kind == "GaussLobatto":
            # Lobatto rules contain both end points on every axis
            rec.close("endpoints", abs(np.abs(x).max() - 1.0), 1e-14)
        if kind == "GaussLegendre":
            q0 = scheme(kind, order, dim, False)
            a = sorted(map(tuple, np.c_[x, w].round(12).tolist()))
            b = sorted(map(tuple, np.c_[q0.points, q0.weights].round(12).tolist()))
            rec.require("permute-only-reorders", a == b)
            # unpermuted rule is the tensor rule: first axis fastest
            g, gw = np.polynomial.legendre.leggauss(order + 1)
            P = np.array(list(itertools.product(g, repeat=dim)))[:, ::-1]
            W = np.array([np.prod(c) for c in itertools.product(gw, repeat=dim)])
            rec.close("tensor-layout", max(_md(q0.points, P), _md(q0.weights, W)), 1e-14)
            if permute and dim > 1 and order >= 1:
                # "according to the cell point orderings": same per-axis rank pattern as the Lagrange cell points
                if order == 1:
                    el = (fem.Quad() if dim == 2 else fem.Hexahedron()).points
                elif order == 2:
                    el = (fem.BiQuadraticQuad() if dim == 2 else fem.element.TriQuadraticHexahedron()).points
                else:
                    el = fem.ArbitraryOrderLagrangeElement(order=order, dim=dim).points
                ok = all(
                    np.array_equal(
                        np.unique(x[:, k].round(10), return_inverse=True)[1],
                        np.unique(np.asarray(el)[:, k].round(10), return_inverse=True)[1],
                    )
                    for k in range(dim)
                )
                rec.require("permute-follows-cell-points", ok)
    elif kind in ("Triangle", "Tetrahedron"):
        rec.close("weights-sum", abs(w.sum() - 1.0 / factorial(dim)), t)
        bary = np.c_[x, 1 - x.sum(1)]
        rec.close("inside", max(0.0, float(-bary.min())), 1e-12, {"min-barycentric": float(bary.min())})
    elif kind == "BazantOh":
        rec.close("weights-sum", abs(w.sum() - 1.0), t)
        rec.close("on-sphere", float(np.abs(np.linalg.norm(x, axis=1) - 1).max()), 2e-11)
        rec.require("weights-positive", (w > 0).all())
    else:  # boundary variants
        base = "GaussLegendre" if kind == "GaussLegendreBoundary" else "GaussLobatto"
        ql = scheme(base, order, dim - 1, permute)
        rec.require("boundary-last-column", bool(np.all(x[:, -1] == -1.0)))
        rec.close("boundary-is-lower-rule", max(_md(x[:, :-1], ql.points), _md(w, ql.weights)), 0.0)


AXIS_ALL = GL + LO + TRI + TET + SPH
FAMILIES = [
    Family("monomials", AXIS_ALL, mono_check, cases=mono_cases),
    Family("randpoly", AXIS_ALL, rand_check, strategy=rand_strategy, n={"quick": 25, "thorough": 400}, chunk=400),
    Family("structure", AXIS_ALL + GLB + LOB, struct_check, cases=struct_cases),
]

LEVEL_TEXT = (
    "Exhaustive enumeration of all schemes x the complete monomial basis up to the documented degree (complete by "
    "linearity), plus Hypothesis-drawn random polynomials and structural checks; decides the property for the shipped "
    "tables up to the printed-digit tolerance."
)
LEVEL_NOTE = "closed-form monomial integrals; float64 arithmetic; decimal tables judged at their printed precision"
TECHNIQUE = "exhaustive enumeration + property-based testing (Hypothesis) against closed-form integrals"
