"""C09 - homogeneous deformation problems are solved exactly, independent of the mesh."""
import numpy as np
from hypothesis import strategies as st
from scipy.optimize import brentq

from vf.core import Family, import_felupe
from vf.gen import materials as gmat
from vf.gen import meshes as gm

PROPERTY = "C09"
RULE = (
    "family 'patch': finite axis = element family (hexahedron 8/20/27, tetra 4/10, quad 4/8/9, triangle 3/6, "
    "Lagrange quad 2-3 / hex 2; 2-D families as plane strain); Hypothesis draws cells per axis, graded axes, interior "
    "jitter (mid-points inserted afterwards: straight edges; curved mid-nodes only where the template's rule stays "
    "exact: quad 8/9, triangle 6), an affine map of the mesh, the prescribed displacement gradient |H| <= 0.25 and a "
    "compressible hyperelastic material from the registry. Oracle: u = H X at every point with cells, F = I + H "
    "everywhere. family 'loadcase': uniaxial / biaxial CharacteristicCurve jobs on distorted hex / plane-strain quad "
    "meshes with generated box dimensions, symmetry choices and ramp subdivisions (1-6 substeps, non-monotone); "
    "oracle: job.x = ramp, job.y = P * A0 with the transverse stretch from an own root search on the material's "
    "stress at a single diagonal F, F uniform. family 'view': material-level uniaxial / planar / biaxial curves "
    "(compressible and incompressible views) against the same root search. Non-trivial: |H| or |stretch - 1| >= "
    "0.05, >= 2 cells with a moved interior point."
    ' Patch tests may be preceded by a post-processing call (extrapolate) on another region of the same template (shared default quadrature must stay unchanged); a third of the compressible view cases uses a soft NeoHooke with 8-30 stretches from 0.6 to 2.5 (restart branches of the lateral-stretch solver).'
)
ASSUMPTIONS = [
    "materials have a unique homogeneous solution in the generated range (compressible models, stretches in [0.75, 1.45])",
    "for automatic-differentiation models the model's own stress at a single diagonal F is the constitutive input of the oracle; the finite-element chain is what is tested",
    "tolerances: displacement / F 1e-7 (Newton tolerance 1e-10), reaction force 1e-6 relative",
]

PATCH = ["hexahedron", "hexahedron20", "hexahedron27", "tetra", "tetra10", "quad", "quad8", "quad9", "triangle", "triangle6",
         "lagrange-quad-2", "lagrange-quad-3", "lagrange-hex-2"]
CURVE_OK = {"quad8", "quad9", "triangle6", "hexahedron20"}
MATS = ["NeoHooke", "NeoHookeCompressible", "tt:saint_venant_kirchhoff", "tt:storakers", "tt:blatz_ko", "LinearElasticLargeStrain", "yeoh+volumetric",
        "jax:blatz_ko"]


def fl(lo, hi, nd=3):
    return st.floats(lo, hi, allow_nan=False).map(lambda v: round(v, nd))


def st_mat():
    def params(n):
        if n == "yeoh+volumetric":
            return st.fixed_dictionaries({"name": st.just(n), "params": st.fixed_dictionaries({"C10": fl(0.3, 1.5), "C20": fl(0.0, 0.1), "C30": fl(0.0, 0.05), "bulk": fl(2, 20)})})
        return st.fixed_dictionaries({"name": st.just(n), "params": gmat.REG[n]["params"]})

    return st.sampled_from(MATS).flatmap(params)


def make_umat(fem, m):
    if m["name"] == "yeoh+volumetric":
        p = dict(m["params"])
        bulk = p.pop("bulk")
        return fem.CompositeMaterial(gmat.build("tt:yeoh", p), fem.Volumetric(bulk=bulk))
    p = dict(m["params"])
    if m["name"] == "NeoHooke" and not m.get("soft"):
        p["bulk"] = max(p["bulk"], 2 * p["mu"])  # keep the compressible response well conditioned
    return gmat.build(m["name"], p)


def patch_strategy(kind, tier):
    lag3d = kind == "lagrange-hex-2"
    return st.fixed_dictionaries(
        {
            "mesh": gm.st_mesh(kind, tier, max_n=3 if gm.kind_dim(kind) == 3 else 4, distort=not lag3d, curved=kind in CURVE_OK, min_n=3 if not kind.startswith("lagrange") else 2),
            "H": st.lists(fl(-0.25, 0.25), min_size=9, max_size=9),
            "mat": st_mat(),
        }
    )


def patch_check(kind, case, rec):
    fem = import_felupe()
    mesh, info = gm.build(case["mesh"])
    dim = info["dim"]
    if case["mesh"]["kind"] in ("quad", "hexahedron") and case["mesh"].get("jseed", 0) % 2 == 0:
        # an earlier post-processing call on another region of the same template (the templates share one default
        # quadrature instance per class) must not change what a region created afterwards computes
        r0 = gm.region(mesh, info)
        q_before = (np.array(r0.quadrature.points, float), np.array(r0.quadrature.weights, float))
        fem.tools.extrapolate(np.ones((3, 3) + r0.dV.shape), r0, mean=False)
        rec.require("post-processing-leaves-the-quadrature-unchanged", np.array_equal(q_before[0], np.asarray(r0.quadrature.points, float))
                    and np.array_equal(q_before[1], np.asarray(r0.quadrature.weights, float)))
        rec.label("after-extrapolate-on-another-region")
    if case["mesh"].get("cseed", 0) % 3 == 2:
        # the region existed before the mesh got its final point positions: points moved in place, then a plain region.reload()
        final = np.array(mesh.points)
        r_ = np.random.default_rng(case["mesh"].get("cseed", 0))
        pre = final + np.where(info["boundary"][:, None], 0.0, 0.15 * info["h"] * r_.uniform(-1, 1, final.shape))
        mesh.points[:] = pre
        import warnings

        with warnings.catch_warnings():
            warnings.simplefilter("ignore")
            region = gm.region(mesh, info)
        mesh.points[:] = final
        region.reload()
        rec.label("region-reloaded-after-in-place-point-update")
    else:
        region = gm.region(mesh, info)
    if case["mesh"].get("jseed", 0) % 3 == 2:
        # a copy of the region was taken for a geometry variant (its own points moved in place, then reloaded): the original region
        # and its mesh are not affected
        import warnings

        variant = region.copy()
        r_ = np.random.default_rng(case["mesh"].get("jseed", 0) + 3)
        with warnings.catch_warnings():
            warnings.simplefilter("ignore")
            variant.mesh.points[:] = np.asarray(variant.mesh.points) + np.where(info["boundary"][:, None], 0.0, 0.12 * info["h"] * r_.uniform(-1, 1, np.asarray(variant.mesh.points).shape))
            variant.reload()
        rec.label("after-a-modified-copy-of-the-region")
    X = np.array(mesh.points)
    ps = dim == 2
    fld = fem.FieldPlaneStrain(region, dim=2) if ps else fem.Field(region, dim=3)
    fc = fem.FieldContainer([fld])
    H = np.array(case["H"]).reshape(3, 3)[:dim, :dim]
    if np.linalg.det(np.eye(dim) + H) < 0.4:
        H = 0.5 * H
    um = make_umat(fem, case["mat"])
    body = fem.SolidBody(um, fc)
    c = X.mean(0)
    uex = (X - c) @ H.T
    bmask = info["boundary"]
    bval = uex[bmask]
    if case["mesh"].get("jseed", 0) % 3 == 1:
        bval = np.asfortranarray(bval)  # the same numbers in column-major memory order (e.g. from (H @ X.T).T)
        rec.label("fortran-ordered-boundary-values")
    bounds = {"all": fem.Boundary(fc[0], mask=bmask, value=bval)}
    dof0, dof1 = fem.dof.partition(fc, bounds)
    ext0 = fem.dof.apply(fc, bounds, dof0)
    interior = int((~bmask).sum())
    try:
        res = fem.newtonrhapson(items=[body], dof0=dof0, dof1=dof1, ext0=ext0, tol=1e-10, maxiter=30)
    except ValueError as e:
        # |H| <= 0.25 with a compressible hyperelastic material from zero start: never observed to fail on a sound tree
        rec.require("patch-problem-converges", False, {"material": case["mat"]["name"], "kind": kind, "error": str(e)[:80]})
        return
    rec.require("patch-problem-converges", True)
    used = np.zeros(len(X), bool)
    used[np.unique(mesh.cells)] = True
    u = res.x[0].values
    L = float(np.ptp(X, axis=0).max())
    rec.nontrivial = bool(np.abs(H).max() >= 0.05 and interior >= 1 and mesh.ncells >= 2)
    rec.label(f"interior-points={min(interior, 5)}")
    rec.close("u=HX-at-every-point", float(np.abs(u - uex)[used].max()) / L, 1e-7, {"material": case["mat"]["name"], "kind": kind})
    F = np.asarray(res.x.extract()[0])
    Fex = np.eye(3)
    Fex[:dim, :dim] += H
    rec.close("F-uniform", float(np.abs(F - Fex.reshape(3, 3, 1, 1)).max()), 1e-7, {"material": case["mat"]["name"]})


# ---------------------------------------------------------------------------------------------------------------
def P_diag(um, lams):
    F = np.diag(lams).reshape(3, 3, 1, 1)
    nst = int(np.prod(um.x[-1].shape)) if hasattr(um, "x") else 0
    return np.asarray(um.gradient([F.copy(), np.zeros((nst, 1, 1)) if nst else None])[0], float)[:, :, 0, 0]


def root_near_one(g):
    """root of g closest to 1 (the physically relevant branch): bracket by scanning outward from 1"""
    g1 = g(1.0)
    if g1 == 0:
        return 1.0
    for k in range(1, 60):
        for t in (1.0 + 0.02 * k, 1.0 - 0.02 * k):
            if t <= 0.05:
                continue
            gt = g(t)
            if gt == 0:
                return t
            if gt * g1 < 0:
                return brentq(g, min(1.0, t), max(1.0, t), xtol=1e-13)
    raise ValueError("no homogeneous solution found near 1")


def solve_transverse(um, mode, l1, l2=None):
    """stretches of the homogeneous solution: mode 'uniaxial' (P22 = P33 = 0, l2 = l3), 'planestrain-uniaxial'
    (l3 = 1, P22 = 0), 'biaxial' (l1, l2 given, P33 = 0), 'planar' (l2 = 1, P33 = 0)."""
    if mode == "uniaxial":
        g = lambda t: P_diag(um, [l1, t, t])[1, 1]  # noqa
        t = root_near_one(g)
        return [l1, t, t]
    if mode == "planestrain-uniaxial":
        g = lambda t: P_diag(um, [l1, t, 1.0])[1, 1]  # noqa
        return [l1, root_near_one(g), 1.0]
    if mode == "biaxial":
        g = lambda t: P_diag(um, [l1, l2, t])[2, 2]  # noqa
        return [l1, l2, root_near_one(g)]
    if mode == "planar":
        g = lambda t: P_diag(um, [l1, 1.0, t])[2, 2]  # noqa
        return [l1, 1.0, root_near_one(g)]
    raise KeyError(mode)


def try_solve(um, mode, l1, l2=None):
    try:
        return solve_transverse(um, mode, l1, l2)
    except ValueError:
        return None


LOAD = ["uniaxial-3d", "uniaxial-planestrain", "biaxial-3d"]


def load_strategy(name, tier):
    dim = 2 if name.endswith("planestrain") else 3
    return st.fixed_dictionaries(
        {
            "size": st.lists(fl(0.5, 2.5), min_size=3, max_size=3),
            "n": st.lists(st.integers(2, 4 if dim == 2 else 3), min_size=3, max_size=3),
            "jitter": st.sampled_from([0.0, 0.1, 0.2]), "jseed": st.integers(0, 2**16), "curve": st.sampled_from([0.0, 0.04, 0.08]),
            "kind": st.sampled_from(["quad", "quad8", "quad9"] if dim == 2 else ["hexahedron", "hexahedron20"]),
            "mat": st_mat(),
            "ramp": st.lists(fl(-0.2, 0.4), min_size=1, max_size=6),
            "ramp2": fl(-0.15, 0.3),
            "sym_axis": st.booleans(),
            "axis": st.integers(0, 2),
        }
    )


def load_check(name, case, rec):
    fem = import_felupe()
    dim = 2 if name.endswith("planestrain") else 3
    size = np.array(case["size"][:dim])
    n = tuple(case["n"][:dim])
    if case.get("curve", 0.0) and case["kind"] in ("quad8", "quad9", "hexahedron20"):
        n = tuple(max(3, k) for k in n)  # curved interior edges need interior edges: at least two cells per axis
    mesh = (fem.Rectangle if dim == 2 else fem.Cube)(b=tuple(size), n=n)
    X = np.array(mesh.points)
    if case["jitter"]:
        r = np.random.default_rng(case["jseed"])
        inner = ~np.any((np.abs(X) < 1e-12) | (np.abs(X - size) < 1e-12), axis=1)
        h = float(min(size / (np.array(n) - 1)))
        X[inner] += case["jitter"] * h / np.sqrt(dim) * r.uniform(-1, 1, (int(inner.sum()), dim))
        mesh.update(points=X)
    if case["kind"] in ("quad8", "hexahedron20"):
        mesh = mesh.add_midpoints_edges()
    elif case["kind"] == "quad9":
        mesh = mesh.add_midpoints_edges().add_midpoints_faces()
    if case.get("curve", 0.0) and case["kind"] in ("quad8", "quad9", "hexahedron20"):
        # curved interior edges: the inserted (non-vertex) points inside the body are moved independently
        P = np.array(mesh.points)
        nv = len(X)
        inner2 = ~np.any((np.abs(P) < 1e-12) | (np.abs(P - size) < 1e-12), axis=1)
        inner2[:nv] = False
        h2 = float(min(size / (np.array(n) - 1)))
        P[inner2] += case["curve"] * h2 / np.sqrt(dim) * np.random.default_rng(case["jseed"] + 1).uniform(-1, 1, (int(inner2.sum()), dim))
        mesh.update(points=P)
        rec.label("curved-interior-edges")
    tmpl = {"quad": fem.RegionQuad, "quad8": fem.RegionQuadraticQuad, "quad9": fem.RegionBiQuadraticQuad, "hexahedron": fem.RegionHexahedron,
            "hexahedron20": fem.RegionQuadraticHexahedron}[case["kind"]]
    region = tmpl(mesh)
    fld = fem.FieldPlaneStrain(region, dim=2) if dim == 2 else fem.Field(region, dim=3)
    fc = fem.FieldContainer([fld])
    um = make_umat(fem, case["mat"])
    # the documented item multiplier (e.g. a quarter model scaled to the full cross-section): the recorded force scales with it,
    # whichever way the curve takes its forces
    mult = (None, 2.0, 1.0, 0.5)[(case["jseed"] + case["n"][0] + len(case["ramp"])) % 4]
    body = fem.SolidBody(um, fc, multiplier=mult)
    if mult not in (None, 1.0):
        rec.label("body-with-a-multiplier")
    axis = case["axis"] % dim
    L = float(size[axis])
    ramp = [v * L for v in case["ramp"]]
    rec.nontrivial = bool(max(abs(v) for v in case["ramp"]) >= 0.05 and mesh.ncells >= 2)
    other = [a for a in range(dim) if a != axis]
    A0 = float(np.prod(size[other])) if dim == 3 else float(size[other[0]])
    # every fourth case: the boundaries live on a separate global field container handed over as x0 (multi-body workflow);
    # after the job that container holds the solution
    separate = case["jseed"] % 4 == 1
    fcb = fc.copy() if separate else fc
    if separate:
        rec.label("separate-global-field-x0")
    if name.startswith("uniaxial"):
        sym = [True] * 3
        if not case["sym_axis"]:
            sym[axis] = False
        if case["jseed"] % 3 == 0:
            # full model without symmetry planes: the left end face is held in the loading direction only, the remaining rigid
            # body modes are removed by pins on an edge (3-d) / a point (2-d) of that face, selected with mode="and"; the
            # pinned unknowns vanish in the homogeneous solution
            bounds, lc = fem.dof.uniaxial(fcb, clamped=False, move=0.0, axis=axis, sym=False)
            for t in other:
                skip = [1] * dim
                skip[t] = 0
                bounds[f"pin-{t}"] = fem.Boundary(fcb[0], mode="and", skip=tuple(skip), **{"f" + "xyz"[axis]: 0.0, "f" + "xyz"[t]: 0.0})
            rec.label("full-model-with-pins(mode=and)")
        else:
            bounds, lc = fem.dof.uniaxial(fcb, clamped=False, move=0.0, axis=axis, sym=tuple(sym))
        track = bounds["move"]
        step = fem.Step([body], ramp={track: np.array(ramp)}, boundaries=bounds)
        mode = "uniaxial" if dim == 3 else "planestrain-uniaxial"
    else:
        a2 = (axis + (1 if case["jseed"] % 2 else 2)) % 3
        move2 = case["ramp2"] * float(size[a2])
        symb = [True] * 3
        if not case["sym_axis"]:
            symb[a2] = False  # the second axis is loaded on both end faces: left face by -move, right face by +move
        bounds, lc = fem.dof.biaxial(fcb, moves=(0.0, move2), axes=(axis, a2), clampes=(False, False), sym=tuple(symb))
        track = bounds[f"move-right-{axis}"]
        step = fem.Step([body], ramp={track: np.array(ramp)}, boundaries=bounds)
        mode = "biaxial"
        rec.label("biaxial-both-faces" if not symb[a2] else "biaxial-symmetric")
    # the reaction is taken from the residual of the last Newton iterate or (items given) from the items' own force vectors
    jkw = {"items": [body]} if case["ramp"] and int(round(abs(case["ramp"][0]) * 1e3)) % 2 else {}
    if jkw:
        rec.label("curve-from-item-forces")
        if name.startswith("uniaxial") and not separate:
            # a second item of the step that is NOT among the curve's items: a follower pressure on the moved (flat,
            # displacement-controlled) end face adds to the reaction there, leaves the homogeneous solution alone and must not enter
            # the recorded force
            btm = {"quad": fem.RegionQuadBoundary, "quad8": fem.RegionQuadraticQuadBoundary, "quad9": fem.RegionBiQuadraticQuadBoundary,
                   "hexahedron": fem.RegionHexahedronBoundary, "hexahedron20": fem.RegionQuadraticHexahedronBoundary}[case["kind"]]
            Pm = np.array(mesh.points)
            kwb = {"ensure_3d": True} if dim == 2 else {}
            rbp = btm(mesh, mask=np.isclose(Pm[:, axis], size[axis]), **kwb)
            fbp = fem.FieldContainer([fem.FieldPlaneStrain(rbp, dim=2) if dim == 2 else fem.Field(rbp, dim=3)])
            step = fem.Step([body, fem.SolidBodyPressure(fbp, pressure=0.35)], ramp={track: np.array(ramp)}, boundaries=bounds)
            rec.label("step-holds-a-pressure-item-that-is-not-among-the-curve's-items")
    job = fem.CharacteristicCurve([step], boundary=track, **jkw)
    try:
        job.evaluate(tol=1e-10, **({"x0": fcb} if separate else {}))
    except ValueError:
        rec.reject("Newton did not converge for the generated ramp")
        return
    rec.require("one-result-per-substep", len(job.x) == len(ramp) and len(job.y) == len(ramp), [len(job.x), len(ramp)])
    worst_f, worst_x = 0.0, 0.0
    modulus = abs(P_diag(um, [1.05, 1, 1])[0, 0] - P_diag(um, [1.0, 1, 1])[0, 0]) * 20
    for x, y, v in zip(job.x, job.y, ramp):
        l1 = 1 + v / L
        if mode == "biaxial":
            # second axis: right face +move; if it has no symmetry plane the left face moves by -move (code) or
            # -move/2 (docstring wording): both total stretches are admissible
            l2s = [1 + case["ramp2"]] if case["sym_axis"] else [1 + 2 * case["ramp2"], 1 + 1.5 * case["ramp2"]]
            cands = [c_ for c_ in (try_solve(um, mode, l1, l2) for l2 in l2s) if c_ is not None]
            if len(cands) < len(l2s):
                cands = []  # one of the admissible readings has no homogeneous solution for this material: undecidable
        else:
            cands = [c_ for c_ in [try_solve(um, mode, l1)] if c_ is not None]
        if not cands:
            rec.reject("the material has no homogeneous solution at this stretch (e.g. Saint-Venant Kirchhoff in strong tension)")
            return
        errs_ = []
        for lam in cands:
            P = P_diag(um, lam)
            ref = P[0, 0] * A0 * (1.0 if mult is None else mult)
            scale = max(abs(ref), A0 * modulus * (1.0 if mult is None else mult))  # force scale: reference area times the initial stiffness
            errs_.append(abs(np.asarray(y)[axis] - ref) / scale)
        worst_f = max(worst_f, min(errs_))
        worst_x = max(worst_x, abs(np.asarray(x)[axis] - v))
    rec.close("job.y=P*A0", worst_f, 1e-6, {"material": case["mat"]["name"], "mode": mode})
    rec.close("job.x=ramp", worst_x, 1e-14)
    F = np.asarray(fcb.extract()[0])  # the container the boundaries live on (the global field if there is one)
    rec.close("F-uniform", float(np.abs(F - F[..., :1, :1]).max()), 1e-7)
    # final transverse stretch equals the analytic one
    l1 = 1 + ramp[-1] / L
    got = sorted(np.linalg.eigvalsh(F[..., 0, 0].T @ F[..., 0, 0]) ** 0.5)
    if mode == "biaxial":
        l2s = [1 + case["ramp2"]] if case["sym_axis"] else [1 + 2 * case["ramp2"], 1 + 1.5 * case["ramp2"]]
        cands = [c_ for c_ in (try_solve(um, mode, l1, l2) for l2 in l2s) if c_ is not None]
    else:
        cands = [c_ for c_ in [try_solve(um, mode, l1)] if c_ is not None]
    if not cands:
        return
    rec.close("stretches=analytic", min(float(np.abs(np.array(got) - np.array(sorted(lam))).max()) for lam in cands), 1e-7)


# ---------------------------------------------------------------------------------------------------------------
VIEW = ["view", "view-incompressible"]


def view_strategy(name, tier):
    usual = st.fixed_dictionaries({"mat": st_mat(), "ux": st.lists(fl(0.75, 1.45), min_size=1, max_size=4), "ps": st.lists(fl(1.0, 1.4), min_size=1, max_size=3),
                                   "bx": st.lists(fl(1.0, 1.3), min_size=1, max_size=3)})

    # soft volumetric response and long stretch ranges that include compression: the lateral-stretch solver of the compressible
    # view has to leave its incompressible start guess (restart branches)
    def ramp(lo, hi):
        return st.tuples(fl(*lo), fl(*hi), st.integers(8, 30)).map(lambda t: np.round(np.linspace(t[0], t[1], t[2]), 4).tolist())

    soft = st.fixed_dictionaries({"mat": st.fixed_dictionaries({"name": st.just("NeoHooke"), "soft": st.just(True),
                                                                "params": st.tuples(fl(0.5, 2), fl(0.5, 2)).map(lambda t: {"mu": t[0], "bulk": round(t[0] * t[1], 3)})}),
                                  "ux": ramp((0.6, 0.9), (1.5, 2.5)), "ps": ramp((0.7, 0.95), (1.4, 2.0)), "bx": ramp((0.6, 0.9), (1.5, 2.5))})
    return st.one_of(usual, usual, soft) if name == "view" else usual


def view_check(name, case, rec):
    fem = import_felupe()
    um = make_umat(fem, case["mat"])
    ux, ps, bx = np.array(case["ux"]), np.array(case["ps"]), np.array(case["bx"])
    rec.nontrivial = bool(np.abs(ux - 1).max() >= 0.05)
    import warnings

    with warnings.catch_warnings(record=True) as caught:
        warnings.simplefilter("always")
        if name == "view":
            data = fem.ViewMaterial(um, ux=ux, ps=ps, bx=bx).evaluate()
        else:
            data = fem.ViewMaterialIncompressible(um, ux=ux, ps=ps, bx=bx).evaluate()
    # points at which the lateral equilibrium was found at det(F) <= 0 are returned as NaN together with a warning
    declined = {str(w.message).split(" ")[0] for w in caught if "volume ratio det(F) <= 0" in str(w.message)}
    sc = abs(P_diag(um, [1.05, 1, 1])[0, 0]) * 20
    rec.require("three-load-cases", len(data) == 3, len(data))
    for (lam, P, label), st_ in zip(data, (ux, ps, bx)):
        lam, P = np.asarray(lam), np.asarray(P)
        rec.require("stretches-returned", lam.shape == st_.shape and np.allclose(lam, st_), label)
        ref = []
        for l in st_:
            if name == "view":
                if label.startswith("Uniaxial"):
                    s = solve_transverse(um, "uniaxial", l)
                elif label.startswith("Planar"):
                    s = solve_transverse(um, "planar", l)
                else:
                    s = solve_transverse(um, "biaxial", l, l)
                ref.append(P_diag(um, s)[0, 0])
            else:
                if label.startswith("Uniaxial"):
                    s = [l, l**-0.5, l**-0.5]
                elif label.startswith("Planar"):
                    s = [l, 1.0, 1 / l]
                else:
                    s = [l, l, l**-2.0]
                Pd = P_diag(um, s)
                ref.append(Pd[0, 0] - s[2] / s[0] * Pd[2, 2])
        ref = np.array(ref)
        if P.shape != ref.shape:
            dev = float("inf")
        else:
            keep = np.isfinite(P)
            if not keep.all() and label.split(" ")[0] not in declined:
                dev = float("inf")  # NaN without the warning
            else:
                if not keep.all():
                    rec.label("declined-points-with-warning")
                dev = float(np.abs(P - ref)[keep].max()) / sc if keep.any() else 0.0
        rec.close("curve:" + label.split(" ")[0], dev, 1e-7, {"material": case["mat"]["name"]})


def vhist_strategy(name, tier):
    peaks = st.lists(fl(1.1, 2.2), min_size=1, max_size=3)
    return st.fixed_dictionaries({"mu": fl(0.5, 2), "bulkratio": fl(2, 20), "r": fl(1.5, 4), "m": fl(0.3, 1.5), "beta": fl(0.0, 0.4), "peaks": peaks,
                                  "num": st.integers(3, 6), "case": st.sampled_from(["ux", "ps", "bx", "all", "ps+bx"]), "incompressible": st.booleans()})


def vhist_check(name, case, rec):
    """material-level curve of a pseudo-elastic (history) material along a cyclic stretch path (one load case, as documented):
    primary loading follows the base material, un-/reloading is softened by eta(W, Wmax) with the running maximum of W"""
    fem = import_felupe()
    from scipy.special import erf

    base = fem.NeoHooke(mu=case["mu"], bulk=case["mu"] * case["bulkratio"])
    um = fem.OgdenRoxburgh(base, r=case["r"], m=case["m"], beta=case["beta"])
    path = [1.0]
    for pk in case["peaks"]:
        path += [pk, 1.0]
    if case["num"] % 2:
        path = path[:-1]  # the path ends at its last peak (monotonic for one peak) instead of returning to the undeformed state
        rec.label("path-ends-at-a-peak")
    lam = np.asarray(fem.math.linsteps(path, num=case["num"]), float)
    kw = {"ux": None, "ps": None, "bx": None}
    wanted = {"all": ["ux", "ps", "bx"], "ps+bx": ["ps", "bx"]}.get(case["case"], [case["case"]])
    for w_ in wanted:
        kw[w_] = lam  # several load cases in one view: each curve starts from the initial (virgin) state
    inc = case["incompressible"]
    if inc:
        base = fem.NeoHooke(mu=case["mu"])
        um = fem.OgdenRoxburgh(base, r=case["r"], m=case["m"], beta=case["beta"])
        view = fem.ViewMaterialIncompressible(um, **kw)
        rec.label("incompressible-view")
    else:
        view = fem.ViewMaterial(um, **kw)
    data = view.evaluate()
    rec.nontrivial = len(case["peaks"]) >= 2
    rec.label(f"load-cases={len(wanted)}")
    if not rec.require("one-curve-per-load-case", len(data) == len(wanted), len(data)):
        return
    if len(wanted) > 1:
        # a second evaluation of the same view starts from the initial state again
        again = view.evaluate()
        rec.require("second-evaluate-same-curves", len(again) == len(data) and all(np.allclose(a_[1], b_[1], rtol=1e-12, atol=0) for a_, b_ in zip(again, data)))
    for which, (got_l, got_P, label) in zip(wanted, data):
        vhist_compare(rec, case, base, lam, inc, which, got_l, got_P)


def vhist_compare(rec, case, base, lam, inc, which, got_l, got_P):
    from scipy.special import erf

    mode = {"ux": "uniaxial", "ps": "planar", "bx": "biaxial"}[which]
    ref, wmax = [], 0.0
    for l in lam:
        if inc:
            s_ = {"uniaxial": [l, l**-0.5, l**-0.5], "planar": [l, 1.0, 1 / l], "biaxial": [l, l, l**-2.0]}[mode]
        else:
            s_ = solve_transverse(base, mode, l, l) if mode == "biaxial" else solve_transverse(base, mode, l)
        F = np.diag(s_).reshape(3, 3, 1, 1)
        W = float(np.asarray(base.function([F, None])[0]).ravel()[0])
        wmax = max(wmax, W)
        eta = 1 - erf((wmax - W) / (case["m"] + case["beta"] * wmax)) / case["r"]
        Pd = eta * P_diag(base, s_)
        ref.append(Pd[0, 0] - s_[2] / s_[0] * Pd[2, 2] if inc else Pd[0, 0])
    ref = np.array(ref)
    sc = max(float(np.abs(ref).max()), 1e-9)
    rec.require("stretches-returned", np.asarray(got_l).shape == lam.shape and np.allclose(got_l, lam))
    rec.close("history-curve:" + mode, float(np.abs(np.asarray(got_P) - ref).max()) / sc if np.asarray(got_P).shape == ref.shape else float("inf"), 1e-7,
              {"peaks": case["peaks"]})


# ---------------------------------------------------------------------------------------------------------------
# uniaxial load case of a body whose symmetry faces are NOT at the origin: symmetry(x=, y=, z=) called directly
# ---------------------------------------------------------------------------------------------------------------
def symc_strategy(name, tier):
    return st.fixed_dictionaries({"origin": st.lists(fl(-3, 3, 2), min_size=3, max_size=3), "size": st.lists(fl(0.5, 2.5), min_size=3, max_size=3),
                                  "n": st.lists(st.integers(2, 3), min_size=3, max_size=3), "jseed": st.integers(0, 2**16), "move": fl(-0.15, 0.3),
                                  "mu": fl(0.5, 2), "bulkratio": fl(2, 10), "axis": st.integers(0, 2)})


def symc_check(name, case, rec):
    fem = import_felupe()
    dim = 2 if name == "planestrain" else 3
    a0 = np.array(case["origin"][:dim])
    size = np.array(case["size"][:dim])
    n = tuple(case["n"][:dim])
    mesh = (fem.Rectangle if dim == 2 else fem.Cube)(a=tuple(a0), b=tuple(a0 + size), n=n)
    X = np.array(mesh.points)
    inner = ~np.any((np.abs(X - a0) < 1e-12) | (np.abs(X - a0 - size) < 1e-12), axis=1)
    X[inner] += 0.1 * float(min(size / (np.array(n) - 1))) * np.random.default_rng(case["jseed"]).uniform(-1, 1, (int(inner.sum()), dim))
    mesh.update(points=X)
    region = (fem.RegionQuad if dim == 2 else fem.RegionHexahedron)(mesh)
    fld = fem.FieldPlaneStrain(region, dim=2) if dim == 2 else fem.Field(region, dim=3)
    fc = fem.FieldContainer([fld])
    axis = case["axis"] % dim
    um = fem.NeoHooke(mu=case["mu"], bulk=case["mu"] * case["bulkratio"])
    kwc = dict(zip("xyz", [float(v) for v in a0]))
    bounds = fem.dof.symmetry(fld, axes=(True,) * dim, **kwc)
    skip = [1] * dim
    skip[axis] = 0
    move = case["move"] * float(size[axis])
    bounds["move"] = fem.Boundary(fld, **{"f" + "xyz"[axis]: float(a0[axis] + size[axis])}, skip=tuple(skip), value=move)
    rec.nontrivial = abs(case["move"]) >= 0.05 and float(np.abs(a0).max()) >= 0.25 and len({round(float(v), 2) for v in a0}) == dim
    dof0, dof1 = fem.dof.partition(fc, bounds)
    ext0 = fem.dof.apply(fc, bounds, dof0)
    try:
        res = fem.newtonrhapson(items=[fem.SolidBody(um, fc)], dof0=dof0, dof1=dof1, ext0=ext0, tol=1e-11)
    except ValueError:
        rec.require("symmetric-block-is-solvable", False, {"origin": case["origin"]})
        return
    l1 = 1 + case["move"]
    lam = try_solve(um, "uniaxial" if dim == 3 else "planestrain-uniaxial", l1)
    if lam is None:
        rec.reject("no homogeneous solution")
        return
    # stretches: l1 along the loading axis, the transverse one(s) from the analytic solution
    lt = lam[1]
    stretch = np.full(dim, lt)
    stretch[axis] = l1
    uref = (stretch - 1.0)[None, :] * (X - a0[None, :])
    sc = max(float(np.abs(uref).max()), 1e-3 * float(size.max()))
    rec.close("displacement=affine-map-about-the-symmetry-planes", float(np.abs(np.asarray(res.x[0].values)[:, :dim] - uref).max()) / sc, 1e-7, {"origin": case["origin"]})
    F = np.asarray(res.x.extract()[0])
    rec.close("F-uniform", float(np.abs(F - F[..., :1, :1]).max()), 1e-7)


FAMILIES = [
    Family("symmetry-centres", ["3d", "planestrain"], symc_check, strategy=symc_strategy, n={"quick": 6, "thorough": 150}, chunk=6, weight=2),
    Family("view-history", ["ogden-roxburgh"], vhist_check, strategy=vhist_strategy, n={"quick": 16, "thorough": 300}, chunk=4),
    Family("patch", PATCH, patch_check, strategy=patch_strategy, n={"quick": 6, "thorough": 150}, chunk=6, weight=3),
    Family("loadcase", LOAD, load_check, strategy=load_strategy, n={"quick": 8, "thorough": 200}, chunk=4, weight=4),
    Family("view", VIEW, view_check, strategy=view_strategy, n={"quick": 10, "thorough": 150}, chunk=10),
]

LEVEL_TEXT = (
    "Element families and load cases enumerated; Hypothesis draws meshes (density, distortion, affine map), affine "
    "boundary data, materials, box dimensions and ramp subdivisions; computed displacement fields, deformation "
    "gradients and recorded reaction forces are compared with the closed-form homogeneous solution (transverse "
    "stretch from an own root search)."
)
LEVEL_NOTE = "the material's stress at one diagonal F is the constitutive input of the oracle (materials decided by C03/C11/C12)"
TECHNIQUE = "property-based testing (Hypothesis) with analytic-solution oracle (patch test, homogeneous load cases)"
