"""C06 - regions measure geometry and differentiate fields exactly where theory says so."""
import itertools
import re
import warnings

import numpy as np
from hypothesis import strategies as st

from vf.core import Family, import_felupe
from vf.gen import meshes as gm

PROPERTY = "C06"
RULE = (
    "finite axis = mesh/region kind (line, quad 4/8/9, hexahedron 8/20/27, triangle 3/6/MINI, tetra 4/10/MINI, "
    "Lagrange quad 2-4 / hex 2-3) [x field kind for family 'polynomial']; Hypothesis draws the mesh spec (cells per "
    "axis, graded axes, interior-vertex jitter, curved mid-nodes, affine map with rotation and translation up to 100), "
    "polynomial coefficients, float32 copy flag, flipped cell. Oracles: closed-form volume |det A| prod(b-a) (outer "
    "boundary fixed by construction), per-cell shoelace / triple product / exact trilinear volume, polynomial value, "
    "gradient and hessian at independently mapped quadrature positions, high-order re-integration of gradient products. "
    "Non-trivial: >= 2 cells and (distorted or curved or rotated by a non-right angle or translated by >= 1), "
    "polynomial of exact degree k with all coefficients |c| >= 0.1."
    ' A third of the polynomial cases also compares every array of float64 / float32 / in-place astype() copies with the cast of its own original (hessian arrays included).'
    ' Volume cases also reload a region built on other points through mesh.update(points, callback=region.reload) and take copy(hess=True) / copy(quadrature=) - all arrays equal those of a freshly built region.'
)
ASSUMPTIONS = [
    "curved tetra10 / 3-D Lagrange order 3 cells are generated straight for the volume sum (their default rules do not integrate det J of a curved cell exactly)",
    "enriched (MINI) bubble unknown is 0 when sampling polynomials (hierarchical, not a nodal value)",
    "float32 copies compared with 2e-4 relative tolerance",
    "tolerances: volume 1e-10 rel, interpolation 1e-9, gradient 1e-8, hessian 1e-6 (coordinates up to 100, h down to 0.05)",
]

KINDS = list(gm.KINDS)
CURVE_OK = {k: k not in ("tetra10", "lagrange-hex-3") for k in KINDS}


def nontrivial_mesh(spec, mesh):
    aff = spec["affine"]
    moved = aff is not None and (
        any(abs(((a + 45) % 90) - 45) > 5 for a in aff["angles"]) or max([abs(t) for t in aff["t"]] + [0]) >= 1
    )
    return mesh.ncells >= 2 and (spec["jitter"] > 0 or spec["curve"] > 0 or moved)


# ---------------------------------------------------------------------------------------------------------------
# family volume
# ---------------------------------------------------------------------------------------------------------------
def vol_strategy(kind, tier):
    return st.fixed_dictionaries({"mesh": gm.st_mesh(kind, tier, curved=CURVE_OK[kind], distort=(kind != "lagrange-hex-3")), "f32": st.booleans(), "uniform": st.booleans()})


def vol_check(kind, case, rec):
    fem = import_felupe()
    spec = case["mesh"]
    mesh, info = gm.build(spec)
    rec.nontrivial = nontrivial_mesh(spec, mesh)
    if spec["jseed"] % 3 == 1:
        # earlier in the session another region of the same template was used for post-processing (the inverse scheme of its
        # quadrature was asked for, as tools.extrapolate does): templates share their default scheme objects, later regions must
        # not be affected
        with warnings.catch_warnings():
            warnings.simplefilter("ignore")
            prev = gm.region(mesh, info)
        if hasattr(prev.quadrature, "inv"):
            prev.quadrature.inv()
            rec.label("after-quadrature.inv()-on-another-region-of-the-template")
    with warnings.catch_warnings(record=True) as wlist:
        warnings.simplefilter("always")
        region = gm.region(mesh, info)
    rec.require("no-warning-on-valid-mesh", not [w for w in wlist if "Negative volumes" in str(w.message)],
                [str(w.message)[:80] for w in wlist][:1])
    dV = np.array(region.dV)
    scale = info["volume"]
    rec.close("dV-positive", max(0.0, float(-dV.min())) / scale, 0.0, {"min dV": float(dV.min())})
    rec.close("sum-dV=volume", abs(dV.sum() - info["volume"]) / scale, 1e-10, {"sum": float(dV.sum()), "ref": info["volume"]})
    # per-cell volumes of straight-sided cells
    if spec["curve"] == 0 and not kind.startswith("lagrange"):
        ref = gm.cell_volumes_straight(np.array(mesh.points), np.array(mesh.cells), kind)
        rec.close("cell-volumes", float(np.abs(dV.sum(0) - ref).max()) / scale, 1e-10)
    if case["f32"]:
        r32 = region.astype(np.float32)
        rec.require("float32-dtype", r32.dV.dtype == np.float32 and r32.dhdX.dtype == np.float32, str(r32.dV.dtype))
        tol = 5e-4 * max(1.0, max(abs(np.array(mesh.points)).max(), 1.0) / info["h"] / 20)
        rec.close("float32-copy-dV", float(np.abs(r32.dV.astype(float) - dV).max() / np.abs(dV).max()), tol)
        rec.close("float32-copy-dhdX", float(np.abs(r32.dhdX.astype(float) - region.dhdX).max() / np.abs(region.dhdX).max()), tol)
        rec.require("float32-copy-leaves-original", region.dV.dtype == np.float64)
    # uniform path on axis-parallel equidistant grids (documented precondition)
    if (case["uniform"] and spec["jitter"] == 0 and spec["curve"] == 0 and spec["affine"] is None and not spec.get("ratio")
            and not info["simplex"] and not kind.startswith("lagrange") and kind != "line"):
        ru = gm.region(mesh, info, uniform=True)
        rec.label("uniform")
        rec.require("uniform-shapes", ru.dV.shape[-1] == 1 and ru.dhdX.shape[-1] == 1, str(ru.dV.shape))
        rec.close("uniform-dV", float(np.abs(np.broadcast_to(ru.dV, dV.shape) - dV).max()) / scale, 1e-13)
        rec.close("uniform-dhdX", float(np.abs(np.broadcast_to(ru.dhdX, region.dhdX.shape) - region.dhdX).max() / np.abs(region.dhdX).max()), 1e-12)
        # the grid is distorted afterwards and the uniform region re-evaluated the documented way (no uniform argument): it is an
        # ordinary region of the distorted mesh then
        md = mesh.copy()
        ru2 = gm.region(md, info, uniform=True)
        Pd = np.array(mesh.points)
        Pd = Pd + 0.08 * info["h"] * np.sin(2.0 + 3.0 * Pd[:, ::-1] / max(float(np.abs(Pd).max()), 1e-12))
        with warnings.catch_warnings():
            warnings.simplefilter("ignore")
            md.update(points=Pd, callback=ru2.reload)
            fresh_d = gm.region(md, info)
        ok_shape = np.asarray(ru2.dV).shape == np.asarray(fresh_d.dV).shape
        rec.require("reloaded-uniform-region-stores-all-cells", ok_shape, [np.asarray(ru2.dV).shape, np.asarray(fresh_d.dV).shape])
        if ok_shape:
            rec.close("reloaded-uniform-region=fresh-region-of-the-distorted-mesh", float(np.abs(np.asarray(ru2.dhdX) - np.asarray(fresh_d.dhdX)).max() / np.abs(fresh_d.dhdX).max()), 1e-13)
    # a region built on other points and reloaded on this mesh (the documented mesh.update(points, callback=region.reload))
    # and copies with another flag / scheme equal the freshly built region
    def same_arrays(a, b, names):
        worst = 0.0
        for nm in names:
            if not hasattr(a, nm) or not hasattr(b, nm):
                return float("inf")
            x, y = np.asarray(getattr(a, nm)), np.asarray(getattr(b, nm))
            if x.shape != y.shape:
                return float("inf")
            worst = max(worst, float(np.abs(x - y).max()) / max(float(np.abs(y).max()), 1e-300))
        return worst

    names = ["h", "dhdr", "dXdr", "drdX", "dhdX", "dV"]
    rng = np.random.default_rng(spec["jseed"] + 7)
    dim = info["dim"]
    B = np.eye(dim) + rng.uniform(-0.2, 0.2, (dim, dim))
    other = mesh.copy()
    other.update(points=np.array(mesh.points) @ B.T + rng.uniform(-1, 1, dim))
    with warnings.catch_warnings():
        warnings.simplefilter("ignore")
        r0 = gm.region(other, info)
        other.update(points=np.array(mesh.points), callback=r0.reload)
    rec.close("reload-after-mesh-update=fresh-region", same_arrays(r0, region, names), 1e-14)
    rec.require("reload-keeps-the-mesh-object", r0.mesh is other)
    # the other documented route: points changed in place, then a plain reload() without arguments
    other2 = mesh.copy()
    other2.update(points=np.array(mesh.points) @ B.T)
    with warnings.catch_warnings():
        warnings.simplefilter("ignore")
        r1 = gm.region(other2, info)
        other2.points[:] = np.array(mesh.points)
        r1.reload()
    rec.close("plain-reload-after-in-place-point-update=fresh-region", same_arrays(r1, region, names), 1e-14)
    if not kind.startswith("lagrange") and kind != "line":
        if hasattr(region.element, "hessian"):  # elements without second derivatives do not offer hess=True
            fresh_h = gm.region(mesh, info, hess=True)
            rec.close("copy(hess=True)=fresh-region", same_arrays(region.copy(hess=True), fresh_h, names + ["d2hdrdr", "d2hdXdX"]), 1e-14)
        q2 = (fem.TriangleQuadrature(order=5) if dim == 2 else fem.TetrahedronQuadrature(order=5)) if info["simplex"] else fem.GaussLegendre(order=info["order"] + 1, dim=dim)
        rec.close("copy(quadrature=)=fresh-region", same_arrays(region.copy(quadrature=q2), gm.region(mesh, info, quadrature=q2), names), 1e-14)
        rec.close("copy-leaves-the-original", same_arrays(region, gm.region(mesh, info), names), 1e-14)
    # the same mesh in another length unit (nanometres .. kilometres): volumes scale by L^dim, gradients by 1 / L, the positive
    # orientation is seen without a warning
    L = (1e-9, 1e-6, 1e-3, 1e3, 1e6)[(spec["jseed"] + spec["cseed"] + mesh.ncells) % 5]
    ml = mesh.copy(points=np.array(mesh.points) * L)
    with warnings.catch_warnings(record=True) as wl:
        warnings.simplefilter("always")
        rl = gm.region(ml, info)
    rec.require("no-warning-in-another-length-unit", not any("negative" in str(w_.message).lower() or "volume" in str(w_.message).lower() for w_ in wl), [str(w_.message)[:60] for w_ in wl])
    rec.close("dV-in-another-length-unit=L^dim dV", float(np.abs(np.asarray(rl.dV) / L**dim - np.asarray(region.dV)).max() / np.abs(region.dV).max()), 1e-12, {"L": L})
    rec.close("dhdX-in-another-length-unit=dhdX / L", float(np.abs(np.asarray(rl.dhdX) * L - np.asarray(region.dhdX)).max() / np.abs(region.dhdX).max()), 1e-11, {"L": L})
    if kind in ("quad9", "hexahedron27"):
        # the second-order Lagrange element numbers its points like the bi- / tri-quadratic VTK cells: an arbitrary-order region on a
        # mesh made by inserting mid-points (not by the Lagrange mesh generators) measures the same cells
        with warnings.catch_warnings(record=True) as wl:
            warnings.simplefilter("always")
            rlag = fem.RegionLagrange(mesh, order=2, dim=dim)
        rec.require("lagrange-region-on-a-mid-point-mesh:no-warning", len(wl) == 0, [str(w_.message)[:60] for w_ in wl])
        vl, vt = np.asarray(rlag.dV).sum(0), np.asarray(region.dV).sum(0)
        rec.close("lagrange-region-on-a-mid-point-mesh:cell-volumes", float(np.abs(vl - vt).max() / np.abs(vt).max()) if vl.shape == vt.shape else float("inf"), 1e-12)
        rec.require("lagrange-region-on-a-mid-point-mesh:dV-positive", bool((np.asarray(rlag.dV) > 0).all()))
    rec.label("cells>=2" if mesh.ncells >= 2 else "single-cell")
    if spec["curve"] > 0:
        rec.label("curved")
    if spec["jitter"] > 0:
        rec.label("distorted")
    if spec["affine"] and max(abs(t) for t in spec["affine"]["t"]) >= 10:
        rec.label("far-from-origin")


# ---------------------------------------------------------------------------------------------------------------
# family warning: a wrongly oriented cell is reported
# ---------------------------------------------------------------------------------------------------------------
FLIP = {"quad": [0, 3, 2, 1], "hexahedron": [4, 5, 6, 7, 0, 1, 2, 3], "triangle": [0, 2, 1], "tetra": [0, 2, 1, 3],
        "quad8": [0, 3, 2, 1, 7, 6, 5, 4], "triangle6": [0, 2, 1, 5, 4, 3]}


def warn_strategy(kind, tier):
    return st.fixed_dictionaries({"mesh": gm.st_mesh(kind, tier, curved=False), "cells": st.lists(st.integers(0, 10**6), min_size=1, max_size=3)})


def warn_check(kind, case, rec):
    fem = import_felupe()
    mesh, info = gm.build(case["mesh"])
    cells = np.array(mesh.cells)
    bad = sorted({c % len(cells) for c in case["cells"]})
    for c in bad:
        cells[c] = cells[c][FLIP[kind]]
    m2 = fem.Mesh(np.array(mesh.points), cells, mesh.cell_type)
    rec.nontrivial = len(cells) >= 2
    with warnings.catch_warnings(record=True) as wlist:
        warnings.simplefilter("always")
        region = gm.region(m2, info)
    msgs = [str(w.message) for w in wlist if "Negative volumes" in str(w.message)]
    rec.require("warning-raised", len(msgs) == 1, msgs[:2])
    if msgs:
        named = sorted(int(t) for t in re.findall(r"\d+", msgs[0].split("Try")[0]))
        rec.require("warning-names-the-cells", named == bad, {"named": named, "flipped": bad})
    neg = sorted(np.where(np.any(region.dV < 0, axis=0))[0].tolist())
    rec.require("negative-dV-cells", neg == bad, {"neg": neg, "flipped": bad})


# ---------------------------------------------------------------------------------------------------------------
# family polynomial
# ---------------------------------------------------------------------------------------------------------------
FIELDKINDS = {1: ["field"], 2: ["field", "planestrain", "axisymmetric", "container"], 3: ["field", "container"]}
HAS_HESS = {"line", "quad", "quad8", "hexahedron", "triangle", "triangle-mini", "tetra", "tetra-mini"}
POLY_AXIS = [[k, f] for k in KINDS for f in FIELDKINDS[gm.kind_dim(k)]]


def poly_strategy(ax, tier):
    kind, fk = ax
    return st.fixed_dictionaries(
        {
            "mesh": gm.st_mesh(kind, tier, affine=(fk != "axisymmetric")),
            "pseed": st.integers(0, 2**32 - 1),
            "ncomp": st.integers(1, 3),
            "sym": st.booleans(),
        }
    )


def poly_eval(coef, exps, Y):
    """p, grad p, hess p of sum_e c_e y^e at rows of Y."""
    Y = np.asarray(Y, float)
    d = Y.shape[1]
    p = np.zeros(len(Y))
    g = np.zeros((len(Y), d))
    H = np.zeros((len(Y), d, d))
    for c, e in zip(coef, exps):
        e = np.array(e)
        p += c * np.prod(Y**e, axis=1)
        for j in range(d):
            if e[j] == 0:
                continue
            ej = e.copy()
            ej[j] -= 1
            g[:, j] += c * e[j] * np.prod(Y**ej, axis=1)
            for k in range(d):
                if ej[k] == 0:
                    continue
                ek = ej.copy()
                ek[k] -= 1
                H[:, j, k] += c * e[j] * ej[k] * np.prod(Y**ek, axis=1)
    return p, g, H


def poly_check(ax, case, rec):
    fem = import_felupe()
    kind, fk = ax
    spec = dict(case["mesh"])
    if fk == "axisymmetric":
        spec["a"] = [spec["a"][0], abs(spec["a"][1]) + 0.2]  # R >= 0.2
    mesh, info = gm.build(spec)
    dim, order = info["dim"], info["order"]
    hess = kind in HAS_HESS
    region = gm.region(mesh, info, hess=True) if hess else gm.region(mesh, info)
    X = np.array(mesh.points)
    if case["pseed"] % 3 == 0:
        # float64 / float32 copies (and the in-place variant): every array of the copy is the cast of its own original
        for dt, copy in ((np.float64, True), (np.float32, True), (np.float32, False)):
            src = region if copy else region.copy()
            ref = {n_: np.array(getattr(src, n_), dtype=float) for n_ in ("h", "dhdr", "drdX", "dXdr", "dhdX", "dV", "d2hdrdr", "d2hdXdX")
                   if isinstance(getattr(src, n_, None), np.ndarray)}
            rc = src.astype(dt, copy=copy)
            worst, bad = 0.0, None
            for n_, a in ref.items():
                b = np.asarray(getattr(rc, n_))
                if b.dtype != dt or b.shape != a.shape:
                    worst, bad = float("inf"), n_ + ":dtype/shape"
                    break
                d = float(np.abs(b.astype(float) - a).max()) / max(float(np.abs(a).max()), 1e-300)
                if d > worst:
                    worst, bad = d, n_
            rec.close("astype(%s%s): arrays are the casts of their originals" % (np.dtype(dt).name, "" if copy else ", copy=False"), worst,
                      0.0 if dt == np.float64 else 2e-6, {"array": bad, "hess": hess})
        rec.label("dtype-copies")
    # degree: element order on affine cells, 1 otherwise
    k = order if info["affine_cells"] else 1
    rng = np.random.default_rng(case["pseed"])
    ncomp = {"field": case["ncomp"], "planestrain": 2, "axisymmetric": 2, "container": dim}[fk]
    exps = [e for e in itertools.product(range(k + 1), repeat=dim) if sum(e) <= k]
    x0 = X.mean(0)
    # tensor-product families on box-shaped cells under one affine map: the element space holds every product of powers <= k of
    # the grid directions (mixed terms such as xy, xz, xyz for the 8-point hexahedron); the polynomial is then given in the grid
    # coordinates y = A^-1 (x - t) and its derivatives are pushed forward by the chain rule
    tensor = (kind in ("quad", "quad9", "hexahedron", "hexahedron27") or kind.startswith("lagrange")) and info["affine_cells"] and case["pseed"] % 2 == 0
    Ainv = np.linalg.inv(info["A"]) if tensor else np.eye(dim)
    if tensor:
        exps = list(itertools.product(range(k + 1), repeat=dim))
        rec.label("tensor-product-polynomial")
        x0 = info["t"] + info["A"] @ (((X - info["t"]) @ Ainv.T).mean(0))

    def poly_x(c, pts):
        """value, gradient and hessian with respect to x of the polynomial given in y = A^-1 (x - x0) (A = 1 unless tensor)"""
        p_, g_, H_ = poly_eval(c, exps, (np.asarray(pts, float) - x0) @ Ainv.T)
        return p_, g_ @ Ainv, np.einsum("ia,nij,jb->nab", Ainv, H_, Ainv)

    coefs = []
    for i in range(ncomp):
        c = rng.uniform(0.1, 1.0, len(exps)) * rng.choice([-1, 1], len(exps))
        coefs.append(c)
    rec.nontrivial = nontrivial_mesh(spec, mesh) or mesh.ncells >= 2
    rec.label(f"degree={k}")
    vals = np.stack([poly_x(c, X)[0] for c in coefs], axis=1)
    vals[info["bubble"]] = 0.0
    # independent quadrature positions: x_q = sum_a X_a h_a(r_q) over the geometry nodes
    el, qd = region.element, region.quadrature
    cells = np.array(mesh.cells)
    geo = np.arange(cells.shape[1])
    if kind.endswith("mini"):
        geo = geo[:-1]
    Hq = np.array([np.asarray(el.function(q), float)[geo] for q in qd.points])  # (q, a)
    xq = np.einsum("qa,caI->qcI", Hq, X[cells[:, geo]])
    nq, nc = xq.shape[:2]
    P = np.zeros((ncomp, nq, nc))
    G = np.zeros((ncomp, dim, nq, nc))
    HH = np.zeros((ncomp, dim, dim, nq, nc))
    for i, c in enumerate(coefs):
        p, g, H = poly_x(c, xq.reshape(-1, dim))
        P[i] = p.reshape(nq, nc)
        G[i] = np.moveaxis(g.reshape(nq, nc, dim), -1, 0)
        HH[i] = np.moveaxis(np.moveaxis(H.reshape(nq, nc, dim, dim), -1, 0), -1, 0).transpose(1, 0, 2, 3)
    hscale = 1.0 / (info["h"] * (min(spec["affine"]["stretch"]) if spec["affine"] else 1.0))
    tol_i, tol_g, tol_h = 1e-9, 1e-9 * max(1, hscale), 1e-8 * max(1, hscale) ** 2
    sc = max(1.0, float(np.abs(P).max()))

    def md(a, b):
        a, b = np.asarray(a), np.asarray(b)
        return float(np.abs(a - b).max()) if a.shape == b.shape else float("inf")

    if fk == "field":
        f = fem.Field(region, dim=ncomp, values=vals)
        rec.close("interpolate", md(f.interpolate(), P) / sc, tol_i)
        rec.close("grad", md(f.grad(), G) / sc, tol_g)
        if case["sym"] and ncomp == dim:
            rec.close("grad-sym", md(f.grad(sym=True), 0.5 * (G + np.swapaxes(G, 0, 1))) / sc, tol_g)
        if hess:
            rec.close("hess", md(f.hess(), HH) / sc, tol_h, {"jitter": spec["jitter"], "curve": spec["curve"]})
        rec.close("extract-grad+identity", md(f.extract(grad=True, sym=False, add_identity=(ncomp == dim)),
                                               G + (np.eye(dim).reshape(dim, dim, 1, 1) if ncomp == dim else 0)) / sc, tol_g)
        rec.close("extract-values", md(f.extract(grad=False), P) / sc, tol_i)
    elif fk == "planestrain":
        f = fem.FieldPlaneStrain(region, dim=2, values=vals)
        P3 = np.concatenate([P, np.zeros((1, nq, nc))])
        G3 = np.zeros((3, 3, nq, nc))
        G3[:2, :2] = G
        rec.close("interpolate", md(f.interpolate(), P3) / sc, tol_i)
        rec.close("grad", md(f.grad(), G3) / sc, tol_g)
        if case["sym"]:
            rec.close("grad-sym", md(f.grad(sym=True), 0.5 * (G3 + np.swapaxes(G3, 0, 1))) / sc, tol_g)
        if hess:
            H3 = np.zeros((3, 3, 3, nq, nc))
            H3[:2, :2, :2] = HH
            rec.close("hess", md(f.hess(), H3) / sc, tol_h)
        rec.close("extract-grad+identity", md(f.extract(), G3 + np.eye(3).reshape(3, 3, 1, 1)) / sc, tol_g)
    elif fk == "axisymmetric":
        f = fem.FieldAxisymmetric(region, dim=2, values=vals)
        P3 = np.concatenate([P, np.zeros((1, nq, nc))])
        G3 = np.zeros((3, 3, nq, nc))
        G3[:2, :2] = G
        R = xq[..., 1]
        G3[2, 2] = P[1] / R
        rec.close("interpolate", md(f.interpolate(), P3) / sc, tol_i)
        rec.close("grad", md(f.grad(), G3) / sc, tol_g * max(1.0, 1 / R.min()))
        if case["sym"]:
            rec.close("grad-sym", md(f.grad(sym=True), 0.5 * (G3 + np.swapaxes(G3, 0, 1))) / sc, tol_g * max(1.0, 1 / R.min()))
        rec.close("extract-grad+identity", md(f.extract(), G3 + np.eye(3).reshape(3, 3, 1, 1)) / sc, tol_g * max(1.0, 1 / R.min()))
    else:  # container with a second scalar field on the same region
        f = fem.Field(region, dim=dim, values=vals)
        s = fem.Field(region, dim=1, values=vals[:, :1])
        fc = fem.FieldContainer([f, s])
        out = fc.extract(grad=True, sym=case["sym"], add_identity=True)
        Gs = 0.5 * (G + np.swapaxes(G, 0, 1)) if case["sym"] else G
        rec.close("container-extract-F", md(out[0], Gs + np.eye(dim).reshape(dim, dim, 1, 1)) / sc, tol_g)
        rec.close("container-extract-second-field-values", md(out[1], P[:1]) / sc, tol_i)
        out = fc.extract(grad=False)
        rec.close("container-extract-values", md(out[0], P) / sc, tol_i)


# ---------------------------------------------------------------------------------------------------------------
# family default-rule: default quadrature integrates products of shape-function gradients exactly on affine cells
# ---------------------------------------------------------------------------------------------------------------
RULE_AXIS = [k for k in KINDS if not k.endswith("mini")]


def rule_strategy(kind, tier):
    return st.fixed_dictionaries({"mesh": gm.st_mesh(kind, tier, distort=gm.KINDS[kind][5], curved=False, max_n=3)})


def rule_check(kind, case, rec):
    fem = import_felupe()
    mesh, info = gm.build(case["mesh"])
    dim, order = info["dim"], info["order"]
    region = gm.region(mesh, info)
    if info["simplex"]:
        q = fem.TriangleQuadrature(order=5) if dim == 2 else fem.TetrahedronQuadrature(order=5)
        tol = 1e-6 if kind == "tetra10" else 1e-10  # tetra order-2 table prints 8 digits
    else:
        q = fem.GaussLegendre(order=order + 2, dim=dim)
        tol = 1e-11
    ref = gm.region(mesh, info, quadrature=q)
    rec.nontrivial = mesh.ncells >= 2 or case["mesh"]["affine"] is not None
    K = np.einsum("aJqc,bLqc,qc->aJbLc", region.dhdX, region.dhdX, region.dV)
    Kr = np.einsum("aJqc,bLqc,qc->aJbLc", ref.dhdX, ref.dhdX, ref.dV)
    rec.close("grad-grad-exact", float(np.abs(K - Kr).max() / np.abs(Kr).max()), tol)
    rec.close("volume-equal", float(abs(region.dV.sum() - ref.dV.sum()) / ref.dV.sum()), 1e-12)


# ---------------------------------------------------------------------------------------------------------------
# family constant/dual regions: cell-wise constants
# ---------------------------------------------------------------------------------------------------------------
def const_strategy(kind, tier):
    return st.fixed_dictionaries({"mesh": gm.st_mesh(kind, tier), "seed": st.integers(0, 2**32 - 1), "dim": st.integers(1, 3)})


def const_check(kind, case, rec):
    fem = import_felupe()
    mesh, info = gm.build(case["mesh"])
    region = gm.region(mesh, info)
    rng = np.random.default_rng(case["seed"])
    rec.nontrivial = mesh.ncells >= 2
    fd = fem.FieldDual(region, dim=case["dim"])
    n = fd.values.shape[0]
    vals = rng.uniform(-1, 1, fd.values.shape)
    fd.values[...] = vals
    got = fd.interpolate()
    nq = region.dV.shape[0]
    rec.require("dual-one-value-per-cell", n == mesh.ncells, [n, mesh.ncells])
    if n == mesh.ncells:
        ref = np.broadcast_to(vals.T[:, None, :], (case["dim"], got.shape[1], mesh.ncells))
        rec.close("dual-cellwise-constant", float(np.abs(got - ref).max()) if got.shape == ref.shape else float("inf"), 1e-14)
    if kind in ("quad", "hexahedron"):
        R0 = fem.RegionConstantQuad(mesh.dual(points_per_cell=1)) if kind == "quad" else fem.RegionConstantHexahedron(mesh.dual(points_per_cell=1))
        f0 = fem.Field(R0, dim=case["dim"], values=vals)
        g0 = f0.interpolate()
        ref = np.broadcast_to(vals.T[:, None, :], g0.shape)
        rec.close("constant-region", float(np.abs(g0 - ref).max()), 1e-14)


FAMILIES = [
    Family("volume", KINDS, vol_check, strategy=vol_strategy, n={"quick": 40, "thorough": 600}, chunk=100),
    Family("warning", list(FLIP), warn_check, strategy=warn_strategy, n={"quick": 12, "thorough": 100}, chunk=100),
    Family("polynomial", POLY_AXIS, poly_check, strategy=poly_strategy, n={"quick": 25, "thorough": 400}, chunk=100),
    Family("default-rule", RULE_AXIS, rule_check, strategy=rule_strategy, n={"quick": 10, "thorough": 100}, chunk=100),
    Family("dual", ["quad", "hexahedron", "quad8", "hexahedron20"], const_check, strategy=const_strategy, n={"quick": 6, "thorough": 100}, chunk=100),
]

LEVEL_TEXT = (
    "All region templates enumerated; Hypothesis draws meshes (distorted, curved, rotated, translated far from the "
    "origin), polynomials and flags; volumes compared with closed forms, fields with exact polynomial values / "
    "gradients / hessians at independently mapped quadrature positions, default rules with high-order re-integration."
)
LEVEL_NOTE = "felupe mesh generators and element.function are used to build inputs/positions (decided separately by C16/C04); float64"
TECHNIQUE = "property-based testing (Hypothesis) with closed-form and metamorphic oracles over an exhaustively enumerated template axis"
