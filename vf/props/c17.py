"""C17 - batched tensor algebra equals its mathematical definition for every batch item."""
import itertools

import numpy as np
from hypothesis import strategies as st

from vf.core import Family, import_felupe

PROPERTY = "C17"
RULE = (
    "finite axis = every public routine of felupe.math (x mode tuple for dot/ddot/dddot/dya/transpose); Hypothesis "
    "draws tensor dim 1..3, 1-3 trailing batch axes of size 1..4 (incl. size-one axes and broadcasting between the "
    "operands), memory layout (C / F / strided view), flags (sym, determinant, full_output, out=None/fresh/reused, "
    "parallel with >= 4000 items) and a seed for well-conditioned entries. Oracle: per batch item, numpy.linalg / "
    "tensordot / explicit index loops over the documented definition; inputs must be bit-unchanged. Non-trivial: "
    "dim >= 2 and >= 2 batch items with pairwise different entries."
)
ASSUMPTIONS = [
    "inputs well conditioned: A = I + 0.4 U(-1,1) (SPD variants where the routine documents symmetric input)",
    "eigen-decompositions are checked through residuals / reconstruction (sign and order free)",
    "at least one trailing batch axis (documented calling convention)",
]

TOL = 1e-11

DOT = [(2, 2), (1, 1), (4, 4), (2, 1), (1, 2), (2, 3), (3, 2), (4, 1), (1, 4), (2, 4), (4, 2)]
DDOT = [(2, 2), (2, 4), (4, 2), (2, 3), (3, 2), (4, 4)]
AXIS = (
    ["det", "inv", "cof", "dev", "sym", "trace", "identity", "transpose1", "transpose2", "majortranspose", "dya1", "dya2",
     "cdya_ik", "cdya_il", "cdya", "cross", "eig", "eigh", "eigvals", "eigvalsh", "tovoigt", "equivalent_von_mises",
     "inplane", "ravel", "solve_nd", "solve_2d", "rotation_matrix", "strain", "strain_stretch_1d", "linsteps"]
    + [f"dot{a}{b}" for a, b in DOT]
    + [f"ddot{a}{b}" for a, b in DDOT]
    + ["dddot33"]
)


def strategy(ax, tier):
    d = {
        "dim": st.sampled_from([1, 2, 2, 3, 3, 3]),
        "bshape": st.lists(st.integers(1, 4), min_size=1, max_size=3),
        "maskA": st.integers(0, 7),
        "maskB": st.integers(0, 7),
        "layout": st.sampled_from(["C", "C", "F", "strided"]),
        "seed": st.integers(0, 2**32 - 1),
        "out": st.sampled_from(["none", "none", "fresh", "reused"]),
        "flag": st.integers(0, 7),
        "big": st.sampled_from([False] * 9 + [True]),
        "k": st.sampled_from([-2, -1, -0.5, 0, 0.5, 1, 2]),
    }
    if ax == "linsteps":
        d["pts"] = st.lists(st.floats(-5, 5, allow_nan=False).map(lambda v: round(v, 3)), min_size=1, max_size=5)
        d["num"] = st.one_of(st.just(0), st.integers(0, 6), st.lists(st.integers(0, 5), min_size=1, max_size=5))
    if ax == "rotation_matrix":
        d["angle"] = st.one_of(st.sampled_from([0.0, 90.0, 180.0, -90.0, 33.0]), st.floats(-720, 720, allow_nan=False))
    return st.fixed_dictionaries(d)


def make(rng, tshape, bshape, mask, layout, kind="near-identity"):
    """random tensor batch: tensor axes first; batch axes where bit i of mask is set become size 1 (broadcast)."""
    bs = tuple(1 if (mask >> i) & 1 else s for i, s in enumerate(bshape))
    full = tshape + bs
    if layout == "strided":
        big = rng.uniform(-1, 1, tshape + tuple(2 * s for s in bs))
        A = big[(slice(None),) * len(tshape) + tuple(slice(None, None, 2) for _ in bs)]
    else:
        A = rng.uniform(-1, 1, full)
    A = 0.4 * A
    if kind == "near-identity" and len(tshape) == 2 and tshape[0] == tshape[1]:
        A = A + np.eye(tshape[0]).reshape(tshape + (1,) * len(bs))
    if layout == "F":
        A = np.asfortranarray(A)
    elif layout == "strided":
        tmp = np.zeros(tuple(tshape) + tuple(2 * s for s in bs))
        view = tmp[(slice(None),) * len(tshape) + tuple(slice(None, None, 2) for _ in bs)]
        view[...] = A
        A = view
    else:
        A = np.ascontiguousarray(A)
    return A


def bcast(*shapes):
    return np.broadcast_shapes(*shapes)


def items(bs):
    return itertools.product(*[range(s) for s in bs])


def item(A, nt, idx):
    """batch item idx of A (A has nt tensor axes), honouring broadcasting."""
    b = A.shape[nt:]
    off = len(idx) - len(b)
    sel = tuple(0 if b[i] == 1 else idx[off + i] for i in range(len(b)))
    return A[(slice(None),) * nt + sel]


def per_item(fun, ops, nts, nout):
    """apply fun to each batch item; returns array with tensor axes first."""
    bs = bcast(*[A.shape[nt:] for A, nt in zip(ops, nts)])
    first = None
    for idx in items(bs):
        r = np.asarray(fun(*[item(A, nt, idx) for A, nt in zip(ops, nts)]))
        if first is None:
            first = np.zeros(r.shape + tuple(bs))
        first[(slice(None),) * r.ndim + idx] = r
    return first


def maxdiff(a, b):
    a = np.asarray(a)
    b = np.asarray(b)
    if a.shape != b.shape:
        try:
            b = np.broadcast_to(b, a.shape)
        except ValueError:
            return float("inf")
    if a.size == 0:
        return 0.0
    return float(np.abs(a - b).max())


def distinct_items(A, nt):
    b = A.shape[nt:]
    flat = A.reshape(A.shape[:nt] + (-1,))
    if flat.shape[-1] < 2:
        return False
    return bool(np.abs(flat[..., 1:] - flat[..., :1]).max() > 1e-6)


def check(ax, case, rec):
    fem = import_felupe()
    fm = fem.math
    rng = np.random.default_rng(case["seed"])
    d = case["dim"]
    bshape = list(case["bshape"])
    if case["big"]:
        bshape = [8, 520]
    bshape = tuple(bshape)
    lay = case["layout"]
    mA, mB = case["maskA"], case["maskB"]
    if case["big"]:
        mA = mB = 0
    flag = case["flag"]
    par = bool(flag & 1) or case["big"]
    keep = []  # (array, copy) pairs to verify inputs unchanged

    def new(tshape, mask=0, kind="near-identity"):
        A = make(rng, tuple(tshape), bshape, mask, lay, kind)
        keep.append((A, A.copy()))
        return A

    def cmp(name, got, ref, tol=TOL, scale=None):
        ref = np.asarray(ref)
        sc = max(1.0, float(np.abs(ref).max()) if ref.size else 1.0) if scale is None else scale
        got = np.asarray(got)
        if got.shape != np.broadcast_shapes(got.shape, ref.shape) or got.shape != ref.shape:
            # result must have exactly the broadcast batch shape
            if got.size != ref.size or got.shape != ref.shape:
                rec.require(name + "-shape", False, {"got": list(got.shape), "ref": list(ref.shape)})
                return
        rec.close(name, maxdiff(got, ref) / sc, tol)

    def outbuf(shape, fresh_only=False):
        mode = case["out"]
        if mode == "none":
            return None
        buf = np.full(shape, 7.25)
        return buf

    A = None
    nt = 2
    if ax in ("det", "inv", "cof", "dev", "sym", "trace", "transpose1", "tovoigt", "equivalent_von_mises", "eig", "eigh",
              "eigvals", "eigvalsh", "identity", "strain"):
        A = new((d, d), 0 if ax != "identity" else mA)
        if ax in ("eigh", "eigvalsh", "strain") or (ax in ("inv", "cof") and flag & 2):
            S = 0.5 * (A + np.swapaxes(A, 0, 1))
            if ax == "strain":
                S = np.einsum("ki...,kj...->ij...", A, A)
            keep.pop()
            A = np.ascontiguousarray(S) if lay != "F" else np.asfortranarray(S)
            keep.append((A, A.copy()))
        rec.nontrivial = d >= 2 and distinct_items(A, 2)
    bs = A.shape[2:] if A is not None else None

    if ax == "det":
        ref = per_item(np.linalg.det, [A], [2], 0)
        out = outbuf(bs)
        got = fm.det(A, out=out)
        cmp("det", got, ref)
        if out is not None:
            rec.require("det-out-is-result", got is out)
            if case["out"] == "reused":
                got2 = fm.det(A, out=got)
                cmp("det-reused-out", got2, ref)
    elif ax == "inv":
        refd = per_item(np.linalg.det, [A], [2], 0)
        ref = per_item(np.linalg.inv, [A], [2], 2)
        kw = {}
        if flag & 2:
            kw["sym"] = True
        if flag & 4:
            kw["determinant"] = refd.copy()
            keep.append((kw["determinant"], refd.copy()))
        out = outbuf(A.shape)
        if out is not None:
            kw["out"] = out
        full = bool(case["seed"] & 1)
        res = fm.inv(A, full_output=full, **kw)
        if full:
            res, dd = res
            cmp("inv-full-output-det", dd, refd)
        cmp("inv", res, ref)
        if out is not None:
            rec.require("inv-out-is-result", res is out)
            if case["out"] == "reused":
                kw["out"] = res
                res2 = fm.inv(A, **kw)
                cmp("inv-reused-out", res2, ref)
        rec.label("inv:" + ",".join(sorted(k for k in kw)))
    elif ax == "cof":
        ref = per_item(lambda a: np.linalg.det(a) * np.linalg.inv(a).T, [A], [2], 2)
        kw = {"sym": True} if flag & 2 else {}
        out = outbuf(A.shape)
        if out is not None:
            kw["out"] = out
        cmp("cof", fm.cof(A, **kw), ref)
    elif ax == "dev":
        ref = per_item(lambda a: a - np.trace(a) / d * np.eye(d), [A], [2], 2)
        out = outbuf(A.shape)
        got = fm.dev(A, out=out)
        cmp("dev", got, ref)
        if out is not None:
            rec.require("dev-out-is-result", got is out)
    elif ax == "sym":
        ref = per_item(lambda a: (a + a.T) / 2, [A], [2], 2)
        out = outbuf(A.shape)
        cmp("sym", fm.sym(A, out=out), ref)
    elif ax == "trace":
        ref = per_item(np.trace, [A], [2], 0)
        out = outbuf(bs)
        cmp("trace", fm.trace(A, out=out), ref)
    elif ax == "identity":
        I = fm.identity(A)
        rec.require("identity-shape", I.shape == (d, d) + (1,) * (A.ndim - 2), str(I.shape))
        cmp("identity", np.broadcast_to(I, np.broadcast_shapes(I.shape, A.shape)), per_item(lambda a: np.eye(d), [A], [2], 2))
        I2 = fm.identity(dim=d, shape=tuple(bs))
        rec.require("identity-dim-shape", I2.shape == (d, d) + (1,) * len(bs) and np.array_equal(I2.reshape(d, d), np.eye(d)))
    elif ax == "transpose1":
        cmp("transpose", fm.transpose(A), per_item(lambda a: a.T, [A], [2], 2), tol=0.0)
    elif ax in ("transpose2", "majortranspose"):
        A4 = new((d, d, d, d), mA, kind="plain")
        rec.nontrivial = d >= 2 and distinct_items(A4, 4)
        ref = per_item(lambda a: np.transpose(a, (2, 3, 0, 1)), [A4], [4], 4)
        got = fm.majortranspose(A4) if ax == "majortranspose" else fm.transpose(A4, mode=2)
        cmp(ax, got, ref, tol=0.0)
    elif ax in ("dya1", "dya2"):
        n = 1 if ax == "dya1" else 2
        X = new((d,) * n, mA, "plain")
        Y = new((d,) * n, mB, "plain")
        rec.nontrivial = d >= 2 and distinct_items(X, n) and distinct_items(Y, n)
        ref = per_item(np.multiply.outer, [X, Y], [n, n], 2 * n)
        cmp(ax, fm.dya(X, Y, mode=n, parallel=par), ref)
    elif ax in ("cdya_ik", "cdya_il", "cdya"):
        X = new((d, d), mA, "plain")
        Y = new((d, d), mB, "plain")
        rec.nontrivial = d >= 2 and distinct_items(X, 2) and distinct_items(Y, 2)

        def ik(a, b):
            r = np.zeros((d,) * 4)
            for i, j, k, l in itertools.product(range(d), repeat=4):
                r[i, j, k, l] = a[i, k] * b[j, l]
            return r

        def il(a, b):
            r = np.zeros((d,) * 4)
            for i, j, k, l in itertools.product(range(d), repeat=4):
                r[i, j, k, l] = a[i, l] * b[k, j]
            return r

        fref = {"cdya_ik": ik, "cdya_il": il, "cdya": lambda a, b: 0.5 * (ik(a, b) + il(a, b))}[ax]
        ref = per_item(fref, [X, Y], [2, 2], 4)
        kw = {}
        if ax == "cdya" and case["out"] != "none":
            kw["out"] = np.full(ref.shape, 7.25)
        got = getattr(fm, ax)(X, Y, parallel=par, **kw)
        cmp(ax, got, ref)
        if kw and case["out"] == "reused":
            got2 = fm.cdya(X, Y, parallel=par, out=got)
            cmp("cdya-reused-out", got2, ref)
    elif ax == "cross":
        X = new((3,), mA, "plain")
        Y = new((3,), mB, "plain")
        rec.nontrivial = distinct_items(X, 1) and distinct_items(Y, 1)

        def cr(a, b):
            return np.array([a[1] * b[2] - a[2] * b[1], a[2] * b[0] - a[0] * b[2], a[0] * b[1] - a[1] * b[0]])

        cmp("cross", fm.cross(X, Y), per_item(cr, [X, Y], [1, 1], 1))
        # two in-plane vectors: the out-of-plane component, one value per batch item
        X2, Y2 = np.ascontiguousarray(X[:2]), np.ascontiguousarray(Y[:2])
        cmp("cross-2d", np.asarray(fm.cross(X2, Y2)), np.asarray(X2[0] * Y2[1] - X2[1] * Y2[0]))
    elif ax.startswith("dot") or ax.startswith("ddot") or ax.startswith("dddot"):
        nc = 3 if ax.startswith("dddot") else (2 if ax.startswith("ddot") else 1)
        a, b = int(ax[-2]), int(ax[-1])
        X = new((d,) * a, mA, "plain")
        Y = new((d,) * b, mB, "plain")
        rec.nontrivial = d >= 2 and distinct_items(X, a) and distinct_items(Y, b)
        ref = per_item(lambda x, y: np.tensordot(x, y, axes=nc), [X, Y], [a, b], a + b - 2 * nc)
        f = {1: fm.dot, 2: fm.ddot, 3: fm.dddot}[nc]
        kw = {}
        if case["out"] != "none":
            kw["out"] = np.full(ref.shape, 7.25)
        got = f(X, Y, mode=(a, b), parallel=par, **kw)
        cmp(ax, got, ref)
        if kw and case["out"] == "reused":
            got2 = f(X, Y, mode=(a, b), parallel=par, out=got)
            cmp(ax + "-reused-out", got2, ref)
        if par:
            rec.label("parallel")
            cmp(ax + "-parallel=sequential", got, f(X, Y, mode=(a, b), parallel=False), tol=1e-14)
    elif ax in ("eig", "eigh"):
        if ax == "eig":
            # symmetric-positive + small unsymmetric part keeps eigenvalues real and separated in most draws;
            # residual check is valid for complex pairs as well
            pass
        w, v = (fm.eig if ax == "eig" else fm.eigh)(A)
        rec.require(ax + "-shapes", w.shape == (d,) + tuple(bs) and v.shape == (d, d) + tuple(bs), [w.shape, v.shape])
        res = np.einsum("ij...,ja...->ia...", A, v) - v * w[None]
        rec.close(ax + "-residual", float(np.abs(res).max()), 1e-11)
        rec.close(ax + "-unit-vectors", float(np.abs(np.sqrt((np.abs(v) ** 2).sum(0)) - 1).max()), 1e-12)
        if ax == "eigh":
            gram = np.einsum("ia...,ib...->ab...", v, v) - np.eye(d).reshape((d, d) + (1,) * len(bs))
            rec.close("eigh-orthonormal", float(np.abs(gram).max()), 1e-11)
            ref = per_item(np.linalg.eigvalsh, [A], [2], 1)
            cmp("eigh-values-ascending", w, ref)
    elif ax in ("eigvals", "eigvalsh"):
        shear = bool(flag & 2) and d >= 2  # principal shear values need two values (felupe raises for dim 1)
        got = getattr(fm, ax)(A, shear=shear)
        if ax == "eigvalsh":
            ref = per_item(np.linalg.eigvalsh, [A], [2], 1)
        else:
            ref = None
        n_sh = {1: 0, 2: 1, 3: 3}[d] if shear else 0
        rec.require(ax + "-shape", got.shape == (d + n_sh,) + tuple(bs), str(got.shape))
        lam = got[:d]
        if ref is not None:
            cmp(ax, lam, ref)
        else:
            # every returned value is a root of the characteristic polynomial, and the multiset matches trace / det
            I = np.eye(d).reshape((d, d) + (1,) * len(bs))
            dets = [per_item(np.linalg.det, [A - lam[k][None, None] * I], [2], 0) for k in range(d)]
            rec.close("eigvals-char-poly", float(np.abs(np.array(dets)).max()), 1e-10)
            cmp("eigvals-sum=trace", lam.sum(0).real, per_item(np.trace, [A], [2], 0))
            cmp("eigvals-prod=det", np.prod(lam, axis=0).real, per_item(np.linalg.det, [A], [2], 0))
        if shear:
            ij = [(1, 0), (2, 0), (2, 1)] if d == 3 else [(1, 0)]
            cmp(ax + "-shear", got[d:], np.array([lam[i] - lam[j] for i, j in ij]))
    elif ax == "tovoigt":
        strain = bool(flag & 2)
        A = 0.5 * (A + np.swapaxes(A, 0, 1))
        ij = {1: [(0, 0)], 2: [(0, 0), (1, 1), (0, 1)], 3: [(0, 0), (1, 1), (2, 2), (0, 1), (1, 2), (0, 2)]}[d]
        ref = per_item(lambda a: np.array([a[i, j] * (2 if (strain and i != j) else 1) for i, j in ij]), [A], [2], 1)
        cmp("tovoigt", fm.tovoigt(A, strain=strain), ref, tol=0.0)
        if not strain:
            # a tensor that is not symmetric (a deformation gradient, a first Piola-Kirchhoff stress): the components named in the
            # documented order 11, 22, 33, 12, 23, 13 are taken as they are named
            An = A + 0.3 * np.triu(np.ones((d, d)), 1).reshape((d, d) + (1,) * (A.ndim - 2))
            refn = per_item(lambda a: np.array([a[i, j] for i, j in ij]), [An], [2], 1)
            cmp("tovoigt(non-symmetric)", fm.tovoigt(An, strain=False), refn, tol=0.0)
    elif ax == "equivalent_von_mises":
        if d == 1:
            return
        A = 0.5 * (A + np.swapaxes(A, 0, 1))

        def vm(a):
            p = np.zeros((3, 3))
            p[:d, :d] = a
            s = p - np.trace(p) / 3 * np.eye(3)
            return np.sqrt(1.5 * (s * s).sum())

        cmp("von-mises", fm.equivalent_von_mises(A), per_item(vm, [A], [2], 0))
    elif ax == "inplane":
        if d == 1:
            return
        A = new((d, d), mA, "plain")
        rec.nontrivial = distinct_items(A, 2)
        axes = [k for k in range(d) if k != flag % d]
        vec = [np.eye(d)[k] for k in axes]
        ref = per_item(lambda a: a[np.ix_(axes, axes)], [A], [2], 2)
        cmp("inplane", fm.inplane(A, vec), ref, tol=0.0)
    elif ax == "ravel":
        # ravel/reshape helpers are used with their default of two trailing axes (quadrature points, cells)
        bshape = (tuple(bshape) + (2, 3))[:2]
        A4 = new((d, d, d, d), 0, "plain")
        rec.nontrivial = d >= 2
        ta = 2
        got = fm.ravel(A4, trailing_axes=ta)
        cmp("ravel", got, A4.reshape((d**4,) + A4.shape[4:]), tol=0.0)
        cmp("reshape", fm.reshape(got, (d * d, d * d), trailing_axes=ta), A4.reshape((d * d, d * d) + A4.shape[4:]), tol=0.0)
    elif ax in ("solve_nd", "solve_2d"):
        n = 2 if ax == "solve_2d" else 1 + (flag & 1)
        I = np.eye(d**n).reshape((d,) * (2 * n))
        L = new((d,) * (2 * n), mA, "plain")
        keep.pop()
        L = L + 2.0 * I.reshape(I.shape + (1,) * (L.ndim - 2 * n))
        keep.append((L, L.copy()))
        b = new((d,) * n, mB, "plain")
        rec.nontrivial = d >= 2 and distinct_items(L, 2 * n)
        x = fm.solve_2d(L, b) if ax == "solve_2d" else fm.solve_nd(L, b, n=n)
        ref = per_item(lambda l, r: np.linalg.solve(l.reshape(d**n, d**n), r.reshape(d**n)).reshape((d,) * n), [L, b], [2 * n, n], n)
        cmp(ax, x, ref, tol=1e-10)
    elif ax == "rotation_matrix":
        ang = case["angle"]
        dim = 2 if d < 3 else 3
        axis = flag % 3 if dim == 3 else 0
        R = fm.rotation_matrix(ang, dim=dim, axis=axis)
        a = np.deg2rad(ang)
        rec.nontrivial = abs(np.sin(a)) > 1e-3 and abs(np.cos(a)) > 1e-3
        rec.close("rotation-orthogonal", float(np.abs(R @ R.T - np.eye(dim)).max()), 1e-14)
        rec.close("rotation-det", abs(np.linalg.det(R) - 1), 1e-14)
        if dim == 2:
            ref = np.array([[np.cos(a), -np.sin(a)], [np.sin(a), np.cos(a)]])
        else:
            k = np.eye(3)[axis]
            K = np.array([[0, -k[2], k[1]], [k[2], 0, -k[0]], [-k[1], k[0], 0]])
            ref = np.eye(3) + np.sin(a) * K + (1 - np.cos(a)) * K @ K  # Rodrigues: right-handed about e_axis
        rec.close("rotation-matrix", float(np.abs(R - ref).max()), 1e-14)
    elif ax == "strain_stretch_1d":
        lam = np.exp(new((d,), mA, "plain"))
        k = case["k"]
        ref = np.log(lam) if k == 0 else (lam**k - 1) / k
        rec.nontrivial = distinct_items(lam, 1)
        cmp("seth-hill-1d", fm.strain_stretch_1d(lam, k=k), ref, tol=1e-14)
    elif ax == "strain":
        import scipy.linalg as sl

        k = case["k"]
        C = A  # SPD by construction (F^T F)

        def E(c):
            U = sl.sqrtm(c).real
            if k == 0:
                return sl.logm(U).real
            return (sl.fractional_matrix_power(U, k).real - np.eye(d)) / k

        ref = per_item(E, [C], [2], 2)
        got = fm.strain(None, C=C, k=k)
        cmp("strain-tensor", got, ref, tol=1e-9)
        pv = fm.strain(None, C=C, tensor=False, k=k)
        refpv = per_item(lambda e: np.linalg.eigvalsh(0.5 * (e + e.T)), [ref], [2], 1)
        cmp("strain-principal", np.sort(pv, axis=0), refpv, tol=1e-9)
        if d >= 2:
            ij = {2: [(0, 0), (1, 1), (0, 1)], 3: [(0, 0), (1, 1), (2, 2), (0, 1), (1, 2), (0, 2)]}[d]
            refv = per_item(lambda e: np.array([e[i, j] * (2 if i != j else 1) for i, j in ij]), [ref], [2], 1)
            cmp("strain-voigt", fm.strain(None, C=C, asvoigt=True, k=k), refv, tol=1e-9)
        if d == 3 and case["seed"] % 3 == 0:
            # the same measures from a field container (C = F^T F of the field's deformation gradient) and the field helpers
            fem = import_felupe()
            mesh = fem.Cube(n=2)
            fcont = fem.FieldContainer([fem.Field(fem.RegionHexahedron(mesh), dim=3)])
            fcont[0].values[...] = 0.1 * np.random.default_rng(case["seed"]).uniform(-1, 1, fcont[0].values.shape)
            Ff = np.asarray(fcont.extract()[0])
            Cf = np.einsum("ki...,kj...->ij...", Ff, Ff)
            cmp("strain(field)=strain(C=F^T F)", fm.strain(fcont, k=k), fm.strain(None, C=Cf, k=k), tol=1e-12)
            cmp("strain(field, principal)", fm.strain(fcont, tensor=False, k=k), fm.strain(None, C=Cf, tensor=False, k=k), tol=1e-12)
            # a tensor handed over explicitly is the one that is used, whether or not a field comes along ("if None, ... from the field")
            Cx = 1.0 + 0.3 * np.arange(Cf.shape[-1]).reshape(1, 1, 1, -1) / Cf.shape[-1]
            Cx = Cf * Cx + 0.2 * np.eye(3).reshape(3, 3, 1, 1)
            cmp("strain(field, C=given)=strain(C=given)", fm.strain(fcont, C=Cx, k=k), fm.strain(None, C=Cx, k=k), tol=0.0)
            cmp("strain(field, C=given, voigt)", fm.strain(fcont, C=Cx, asvoigt=True, k=k), fm.strain(None, C=Cx, asvoigt=True, k=k), tol=0.0)
            cmp("deformation_gradient(field)", fm.deformation_gradient(fcont), Ff, tol=0.0)
            cmp("right_cauchy_green_deformation(field)", fm.right_cauchy_green_deformation(fcont), Cf, tol=1e-15)
            cmp("displacement(field)", fm.displacement(fcont), fcont[0].values, tol=0.0)
            cmp("values(field)", fm.values(fcont), fcont[0].values.ravel(), tol=0.0)
            if k in (0, 2):
                ev = fcont.evaluate.log_strain() if k == 0 else fcont.evaluate.green_lagrange_strain()
                cmp("field.evaluate.<strain>", ev, fm.strain(None, C=Cf, k=k), tol=1e-12)
    elif ax == "linsteps":
        pts = case["pts"]
        num = case["num"]
        endpoint = bool(flag & 1)
        rec.nontrivial = len(pts) >= 3
        nums = list(num) if isinstance(num, list) else [num]
        nseg = max(0, len(pts) - 1)
        if len(nums) == 1:
            nums = nums * max(1, nseg)
        while len(nums) < nseg:
            nums.append(nums[-1])
        ref = []
        for i in range(nseg):
            a, b, n = pts[i], pts[i + 1], nums[i]
            ref += [a + (b - a) * j / n for j in range(n)]
        if endpoint and len(pts) > 0:
            ref.append(pts[-1])
        if len(pts) == 0:
            return  # points[-1] of an empty sequence is undefined; outside the documented domain
        # edge of the domain, in every case: no samples between the milestones (num=0) - only the end point is left, or nothing
        g0 = np.asarray(fm.linsteps(pts, num=0, endpoint=True), float).ravel()
        rec.require("linsteps(num=0, endpoint=True)=[last milestone]", g0.shape == (1,) and g0[0] == float(pts[-1]), g0.tolist()[:3])
        g1 = np.asarray(fm.linsteps(pts, num=0, endpoint=False), float).ravel()
        rec.require("linsteps(num=0, endpoint=False)=[]", g1.size == 0, g1.tolist()[:3])
        got = fm.linsteps(pts, num=num, endpoint=endpoint)
        rec.require("linsteps-length", len(got) == len(ref), [len(got), len(ref)])
        if len(got) == len(ref):
            rec.close("linsteps", maxdiff(got, np.array(ref, dtype=float)), 1e-12)
            axis = (flag >> 1) % 3  # 0 (the first column - not to be confused with None), 1 or 2
            axes = axis + 1 + (case["seed"] % 2)
            vals = rng.uniform(-1, 1, axes)
            got2 = fm.linsteps(pts, num=num, endpoint=endpoint, axis=axis, axes=axes, values=vals)
            ref2 = np.ones((len(ref), axes)) * np.asarray(vals, float)
            ref2[:, axis] = ref
            rec.require("linsteps-axis-shape", got2.shape == ref2.shape, str(got2.shape))
            if got2.shape == ref2.shape:
                rec.close("linsteps-axis", maxdiff(got2, ref2), 1e-12)
            # whole-number defaults given as Python integers (values=[-1, 0]): the samples in column `axis` stay fractions
            ivals = [int(v_) for v_ in np.round(3 * vals)]
            got2i = fm.linsteps(pts, num=num, endpoint=endpoint, axis=axis, axes=axes, values=ivals)
            ref2i = np.ones((len(ref), axes)) * np.asarray(ivals, float)
            ref2i[:, axis] = ref
            rec.close("linsteps-axis(integer-typed values)", maxdiff(got2i, ref2i) if np.asarray(got2i).shape == ref2i.shape else float("inf"), 1e-12)
            if (flag >> 3) % 2 == 0 or case["seed"] % 3 == 0:
                # without `axes`: as many columns as needed to hold column `axis`; scalar default values (0)
                got3 = fm.linsteps(pts, num=num, endpoint=endpoint, axis=axis)
                ref3 = np.zeros((len(ref), axis + 1))
                ref3[:, axis] = ref
                rec.close("linsteps-axis-without-axes", maxdiff(got3, ref3) if got3.shape == ref3.shape else float("inf"), 1e-12, str(got3.shape))
    else:
        raise KeyError(ax)

    bad = [i for i, (a, c) in enumerate(keep) if not np.array_equal(a, c)]
    rec.require("inputs-unchanged", not bad, bad)
    rec.label(f"dim={d}")
    rec.label(f"nbatchaxes={len(bshape)}")
    if any(s == 1 for s in bshape) or mA or mB:
        rec.label("has-size-one-axis")
    rec.label("layout=" + lay)
    rec.label("out=" + case["out"])


FAMILIES = [Family("math", AXIS, check, strategy=strategy, n={"quick": 40, "thorough": 6000}, chunk=250)]

LEVEL_TEXT = (
    "Every public routine and mode tuple enumerated; Hypothesis draws dims, batch shapes with broadcast axes, memory "
    "layouts and flags; each result compared item-wise with numpy.linalg / tensordot / explicit index loops written "
    "from the docstring definition; inputs verified bit-unchanged."
)
LEVEL_NOTE = "numpy.linalg / scipy.linalg are the trusted reference; well-conditioned inputs; tolerance 1e-11 relative"
TECHNIQUE = "property-based testing (Hypothesis) with per-item reference-implementation oracle"
