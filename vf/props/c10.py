"""C10 - reduced, condensed and fast-path formulations equal their full counterparts."""
import numpy as np
from hypothesis import strategies as st

from vf.core import Family, import_felupe
from vf.gen import materials as gmat

PROPERTY = "C10"
RULE = (
    "finite axis = clause x element family: (1) plane strain vs the extruded slab of thickness t with the out-of-plane "
    "displacement suppressed (quad4-hex8, quad8-hex20, quad9-hex27; forces summed over the layers, stiffness through "
    "the explicit layer-sum matrix); (2) axisymmetric nodal forces vs the finite-difference derivative of the strain "
    "energy integrated over the revolved volume, and convergence (rate) of the revolved hexahedron model's ring "
    "resultants; (3) SolidBodyNearlyIncompressible vs the explicit three-field formulation with cell-wise constant "
    "p and J at convergence (displacements, pressures, volume ratios); (4) uniform-grid regions vs general regions "
    "(vectors, matrices). Hypothesis draws meshes (cells per axis, interior jitter, box sizes), in-plane displacement "
    "states with shear, hyperelastic materials from the registry, thickness, bulk moduli in [1, 5000] mu, load levels. "
    "Non-trivial: non-zero shear in the state, >= 2 cells per axis."
)
ASSUMPTIONS = [
    "the convergence to the revolved 3-D model is decided as a rate over refinements (error ratio >= 2.5 per doubling), not as a limit",
    "condensed vs three-field: both solved to tol = 1e-11; agreement required to 1e-7 relative",
]

MATS = ["NeoHooke", "NeoHookeCompressible", "tt:yeoh+vol", "tt:storakers", "LinearElasticLargeStrain"]


def fl(lo, hi, nd=3):
    return st.floats(lo, hi, allow_nan=False).map(lambda v: round(v, nd))


def st_mat():
    def f(n):
        if n == "tt:yeoh+vol":
            return st.fixed_dictionaries({"name": st.just(n), "params": st.fixed_dictionaries({"C10": fl(0.3, 1.5), "C20": fl(0.0, 0.1), "C30": fl(0.0, 0.05), "bulk": fl(2, 20)})})
        return st.fixed_dictionaries({"name": st.just(n), "params": gmat.REG[n]["params"]})

    return st.sampled_from(MATS).flatmap(f)


def make_umat(fem, m):
    if m["name"] == "tt:yeoh+vol":
        p = dict(m["params"])
        bulk = p.pop("bulk")
        return fem.CompositeMaterial(gmat.build("tt:yeoh", p), fem.Volumetric(bulk=bulk)), None
    um = gmat.build(m["name"], m["params"])
    return um, (um if gmat.REG[m["name"]]["energy"] and gmat.REG[m["name"]]["backend"] == "hand" else None)


def jittered(fem, mesh, amp, seed):
    if amp == 0:
        return mesh
    X = np.array(mesh.points)
    lo, hi = X.min(0), X.max(0)
    inner = ~np.any((np.abs(X - lo) < 1e-12) | (np.abs(X - hi) < 1e-12), axis=1)
    h = float(np.min((hi - lo) / 3))
    r = np.random.default_rng(seed)
    X[inner] += amp * h * r.uniform(-1, 1, (int(inner.sum()), X.shape[1]))
    m = mesh.copy()
    m.update(points=X)
    return m


def smooth_u(X, seed, amp):
    """smooth in-plane displacement with shear: quadratic polynomial of the coordinates"""
    r = np.random.default_rng(seed)
    d = X.shape[1]
    c = X.mean(0)
    Y = X - c
    A = amp * r.uniform(-1, 1, (d, d))
    B = 0.5 * amp * r.uniform(-1, 1, (d, d, d))
    return Y @ A.T + np.einsum("ijk,aj,ak->ai", B, Y, Y)


# ---------------------------------------------------------------------------------------------------------------
def ps_strategy(kind, tier):
    return st.fixed_dictionaries({"n": st.lists(st.integers(2, 4), min_size=2, max_size=2), "size": st.lists(fl(0.5, 2), min_size=2, max_size=2),
                                  "jitter": st.sampled_from([0.0, 0.15, 0.3]), "seed": st.integers(0, 2**16), "t": fl(0.3, 2.5), "amp": st.sampled_from([0.05, 0.15]),
                                  "mat": st_mat(), "layers": st.integers(2, 3)})


def ps_check(kind, case, rec):
    fem = import_felupe()
    base = jittered(fem, fem.Rectangle(b=tuple(case["size"]), n=tuple(case["n"])), case["jitter"], case["seed"])
    t = case["t"]
    m2 = base
    m3 = base.expand(n=case["layers"] if kind == "quad" else 2, z=t)
    if kind == "quad8":
        m2, m3 = base.add_midpoints_edges(), m3.add_midpoints_edges()
        R2, R3 = fem.RegionQuadraticQuad, fem.RegionQuadraticHexahedron
    elif kind == "quad9":
        m2 = base.add_midpoints_edges().add_midpoints_faces()
        m3 = m3.add_midpoints_edges().add_midpoints_faces().add_midpoints_volumes()
        R2, R3 = fem.RegionBiQuadraticQuad, fem.RegionTriQuadraticHexahedron
    else:
        R2, R3 = fem.RegionQuad, fem.RegionHexahedron
    r2, r3 = R2(m2), R3(m3)
    f3 = fem.FieldContainer([fem.Field(r3, dim=3)])
    X2, X3 = np.array(m2.points), np.array(m3.points)
    u2 = smooth_u(X2, case["seed"], case["amp"])
    if (case["seed"] + case["layers"]) % 2:
        # the in-plane state arrives through the constructor argument `values` of the field
        f2 = fem.FieldContainer([fem.FieldPlaneStrain(r2, dim=2, values=u2.copy())])
        rec.label("state-through-the-values-argument")
    else:
        f2 = fem.FieldContainer([fem.FieldPlaneStrain(r2, dim=2)])
        f2[0].values[...] = u2
    key = {tuple(np.round(p, 9)): i for i, p in enumerate(X2)}
    try:
        col = np.array([key[tuple(np.round(p[:2], 9))] for p in X3])
    except KeyError:
        rec.require("slab-nodes-project-onto-2d-nodes", False)
        return
    f3[0].values[:, :2] = u2[col]
    F = np.asarray(f2.extract()[0])
    if np.linalg.det(np.moveaxis(F, (0, 1), (-2, -1))).min() < 0.3:
        rec.reject("det F < 0.3")
        return
    um, _ = make_umat(fem, case["mat"])
    b2, b3 = fem.SolidBody(um, f2), fem.SolidBody(um, f3)
    r_ps = np.asarray(b2.assemble.vector(f2).toarray()).reshape(-1, 2).copy()
    K_ps = np.asarray(b2.assemble.matrix(f2).toarray()).copy()
    r_3d = np.asarray(b3.assemble.vector(f3).toarray()).reshape(-1, 3).copy()
    K_3d = np.asarray(b3.assemble.matrix(f3).toarray()).copy()
    rec.nontrivial = bool(abs(F[0, 1]).max() > 1e-3 and m2.ncells >= 2)
    summed = np.zeros_like(r_ps)
    np.add.at(summed, col, r_3d[:, :2])
    sc = max(float(np.abs(r_ps).max()), 1e-9)
    rec.close("forces: slab = t * plane-strain", float(np.abs(summed - t * r_ps).max()) / (t * sc), 1e-11, {"material": case["mat"]["name"]})
    n2 = len(X2)
    T = np.zeros((len(X3) * 3, n2 * 2))
    for a3, a2 in enumerate(col):
        for i in range(2):
            T[3 * a3 + i, 2 * a2 + i] = 1
    rec.close("stiffness: T^T K_slab T = t * K_ps", float(np.abs(T.T @ K_3d @ T - t * K_ps).max()) / (t * float(np.abs(K_ps).max())), 1e-11)
    # the condensed nearly-incompressible body in both models, asked in the same order: both bodies are created and evaluated on
    # the undeformed fields, the displacements are then changed in place and the matrix (or the vector) is the FIRST thing asked for
    mu_c = 1.0 + (case["seed"] % 7) / 4.0
    g2 = fem.FieldContainer([fem.FieldPlaneStrain(r2, dim=2)])
    g3 = fem.FieldContainer([fem.Field(r3, dim=3)])
    c2 = fem.SolidBodyNearlyIncompressible(fem.NeoHooke(mu=mu_c), g2, bulk=20.0 * mu_c)
    c3 = fem.SolidBodyNearlyIncompressible(fem.NeoHooke(mu=mu_c), g3, bulk=20.0 * mu_c)
    for b_, g_ in ((c2, g2), (c3, g3)):
        b_.assemble.vector(g_)
        b_.assemble.matrix(g_)
    g2[0].values[...] = u2
    g3[0].values[:, :2] = u2[col]
    if case["seed"] % 2:
        Kc2 = np.asarray(c2.assemble.matrix(g2).toarray()).copy()
        Kc3 = np.asarray(c3.assemble.matrix(g3).toarray()).copy()
        rec.close("condensed body, matrix first after an in-place change: T^T K_slab T = t * K_ps", float(np.abs(T.T @ Kc3 @ T - t * Kc2).max()) / (t * float(np.abs(Kc2).max())), 1e-11)
    rc2 = np.asarray(c2.assemble.vector(g2).toarray()).reshape(-1, 2).copy()
    rc3 = np.asarray(c3.assemble.vector(g3).toarray()).reshape(-1, 3).copy()
    sc_c = np.zeros_like(rc2)
    np.add.at(sc_c, col, rc3[:, :2])
    rec.close("condensed body: forces slab = t * plane-strain", float(np.abs(sc_c - t * rc2).max()) / (t * max(float(np.abs(rc2).max()), 1e-9)), 1e-11)
    # ... and the forces after the in-place change are those of the new state: the same body history with the new state handed over in
    # another container gives the same vector (the vector of the condensed body does not depend on its lagging pressure)
    g2b = fem.FieldContainer([fem.FieldPlaneStrain(r2, dim=2)])
    c2b = fem.SolidBodyNearlyIncompressible(fem.NeoHooke(mu=mu_c), g2b, bulk=20.0 * mu_c)
    c2b.assemble.vector(g2b)
    c2b.assemble.matrix(g2b)
    other = fem.FieldContainer([fem.FieldPlaneStrain(r2, dim=2)])
    other[0].values[...] = u2
    rc2b = np.asarray(c2b.assemble.vector(other).toarray()).reshape(-1, 2)
    rec.close("condensed body: forces after an in-place change = forces for the same state from another container", float(np.abs(rc2 - rc2b).max()) / max(float(np.abs(rc2b).max()), 1e-9), 1e-11)
    # out-of-plane: no resultant force in z for a z-independent state
    fz = np.zeros(n2)
    np.add.at(fz, col, r_3d[:, 2])
    rec.close("slab: column-wise out-of-plane forces cancel", float(np.abs(fz).max()) / (t * sc), 1e-11)


# ---------------------------------------------------------------------------------------------------------------
def axi_strategy(kind, tier):
    return st.fixed_dictionaries({"n": st.lists(st.integers(2, 3), min_size=2, max_size=2), "size": st.lists(fl(0.5, 1.5), min_size=2, max_size=2),
                                  "r0": fl(0.3, 2.0), "jitter": st.sampled_from([0.0, 0.2]), "seed": st.integers(0, 2**16), "amp": st.sampled_from([0.05, 0.12]),
                                  "mat": st.sampled_from(["NeoHooke", "NeoHookeCompressible", "LinearElasticLargeStrain", "Volumetric"]).flatmap(
                                      lambda n: st.fixed_dictionaries({"name": st.just(n), "params": gmat.REG[n]["params"]})),
                                  "cell": st.sampled_from(["quad", "quad8", "triangle", "triangle6", "triangle-mini"])})


def axi_check(kind, case, rec):
    fem = import_felupe()
    mesh = fem.Rectangle(a=(0.0, case["r0"]), b=(case["size"][0], case["r0"] + case["size"][1]), n=tuple(case["n"]))
    mesh = jittered(fem, mesh, case["jitter"], case["seed"])
    cell = case["cell"] if kind == "energy" else "triangle-mini" if kind == "energy-mini" else "quad"
    if kind == "energy-mini":
        kind = "energy"
    if cell.startswith("triangle"):
        mesh = mesh.triangulate()
    if cell in ("quad8", "triangle6"):
        mesh = mesh.add_midpoints_edges()
    if cell == "triangle-mini":
        mesh = mesh.add_midpoints_faces()  # the bubble unknown of the MINI element (hierarchical: it carries no geometry)
    Rcls = {"quad": fem.RegionQuad, "quad8": fem.RegionQuadraticQuad, "triangle": fem.RegionTriangle, "triangle6": fem.RegionQuadraticTriangle,
            "triangle-mini": fem.RegionTriangleMINI}[cell]
    if case["seed"] % 2 == 0:
        # the region (and an axisymmetric field on it) existed before the mesh got its final radial position: the mesh is moved
        # and the region re-evaluated the documented way (mesh.update(points, callback=region.reload)); a field created
        # afterwards has to see the new radii
        final = np.array(mesh.points)
        mesh.update(points=final + np.array([0.0, 1.7]))
        region = Rcls(mesh)
        fem.FieldAxisymmetric(region, dim=2)
        mesh.update(points=final, callback=region.reload)
        rec.label("region-reloaded-after-radial-move")
    else:
        region = Rcls(mesh)
    fa = fem.FieldContainer([fem.FieldAxisymmetric(region, dim=2)])
    X = np.array(mesh.points)
    um = gmat.build(case["mat"]["name"], case["mat"]["params"])
    ua = smooth_u(X, case["seed"], case["amp"])
    fa[0].values[...] = ua
    F = np.asarray(fa.extract()[0])
    if np.linalg.det(np.moveaxis(F, (0, 1), (-2, -1))).min() < 0.3:
        rec.reject("det F < 0.3")
        return
    body = fem.SolidBody(um, fa)
    rvec = np.asarray(body.assemble.vector(fa).toarray()).ravel().copy()
    rec.nontrivial = mesh.ncells >= 2
    if kind == "energy":
        # the same body in another length unit (coordinates and displacements times L, e.g. metres instead of millimetres or
        # nanometres): the deformation gradient is the same, the nodal forces (energy per length) scale by L^2
        L = (1e-9, 1e-6, 1e-3, 1e3, 1e-9)[(case["seed"] // 2 + case["n"][0] + case["n"][1]) % 5]
        mesh_l = mesh.copy(points=X * L)
        region_l = Rcls(mesh_l)
        fl_ = fem.FieldContainer([fem.FieldAxisymmetric(region_l, dim=2)])
        fl_[0].values[...] = ua * L
        rl = np.asarray(fem.SolidBody(um, fl_).assemble.vector(fl_).toarray()).ravel()
        rec.close("axisymmetric forces in another length unit = L^2 forces", float(np.abs(rl / L**2 - rvec).max()) / max(float(np.abs(rvec).max()), 1e-9), 1e-9, {"L": L})
        rec.label("length-unit=%g" % L)

        # radial coordinate of the quadrature points from the geometry nodes of the cells (the bubble unknown of a MINI element
        # carries no geometry) - not the radius the field computed for itself
        cells_ = np.asarray(mesh.cells)
        geo = np.arange(cells_.shape[1] - (1 if cell == "triangle-mini" else 0))
        Hq = np.array([np.asarray(region.element.function(q_), float)[geo] for q_ in region.quadrature.points])
        Rq = np.einsum("qa,ca->qc", Hq, X[cells_[:, geo], 1])

        def energy(uv):
            fa[0].values[...] = uv.reshape(-1, 2)
            Fq = np.asarray(fa.extract()[0])
            W = np.asarray(um.function([Fq, None])[0])
            return float((2 * np.pi * Rq * region.dV * W).sum())

        g = np.zeros_like(rvec)
        h = 1e-6
        for j in range(g.size):
            e = np.zeros(g.size)
            e[j] = h
            g[j] = (energy(ua.ravel() + e) - energy(ua.ravel() - e)) / (2 * h)
        fa[0].values[...] = ua
        rec.close("axisymmetric forces = d(2 pi int W R dA)/du", float(np.abs(g - rvec).max()) / max(float(np.abs(rvec).max()), 1e-9), 2e-6, {"material": case["mat"]["name"], "cell": cell})
        return
    # ---- convergence of the revolved hexahedron model (ring resultants)
    Uf = lambda P: smooth_u(P, case["seed"], case["amp"]) if False else None  # noqa
    c = X.mean(0)
    r = np.random.default_rng(case["seed"])
    A = case["amp"] * r.uniform(-1, 1, (2, 2))
    B = 0.5 * case["amp"] * r.uniform(-1, 1, (2, 2, 2))

    def U(P):
        Y = P - c
        return Y @ A.T + np.einsum("ijk,aj,ak->ai", B, Y, Y)

    fa[0].values[...] = U(X)
    ra = np.asarray(fem.SolidBody(um, fa).assemble.vector(fa).toarray()).reshape(-1, 2).copy()
    errs = []
    for nrev in ([9, 17] if kind == "revolve-quick" else [9, 17, 33]):
        m3 = mesh.revolve(n=nrev, phi=360, axis=0)
        r3 = fem.RegionHexahedron(m3)
        f3 = fem.FieldContainer([fem.Field(r3, dim=3)])
        X3 = np.array(m3.points)
        R = np.hypot(X3[:, 1], X3[:, 2])
        u2 = U(np.c_[X3[:, 0], R])
        f3[0].values[...] = np.c_[u2[:, 0], u2[:, 1] * X3[:, 1] / R, u2[:, 1] * X3[:, 2] / R]
        r3d = np.asarray(fem.SolidBody(um, f3).assemble.vector(f3).toarray()).reshape(-1, 3)
        npl = mesh.npoints
        fz = r3d[:, 0].reshape(nrev - 1, npl).sum(0)
        fr = ((r3d[:, 1] * X3[:, 1] + r3d[:, 2] * X3[:, 2]) / R).reshape(nrev - 1, npl).sum(0)
        errs.append(max(float(np.abs(fz - ra[:, 0]).max()), float(np.abs(fr - ra[:, 1]).max())) / float(np.abs(ra).max()))
    rec.label("revolve-errors=" + ",".join("%.0e" % e for e in errs))
    rec.close("revolved model within discretisation error", errs[0], 0.2)
    for a_, b_ in zip(errs[:-1], errs[1:]):
        rec.close("error decreases under refinement (rate)", b_ / max(a_, 1e-300), 0.4, {"errors": errs})


# ---------------------------------------------------------------------------------------------------------------
def cond_strategy(kind, tier):
    return st.fixed_dictionaries({"n": st.lists(st.integers(2, 3), min_size=3, max_size=3), "jitter": st.sampled_from([0.0, 0.2]), "seed": st.integers(0, 2**16),
                                  "mu": fl(0.5, 2), "bulkratio": st.sampled_from([1.0, 5.0, 50.0, 500.0, 5000.0]), "move": fl(-0.2, 0.4), "clamped": st.booleans(),
                                  "mat": st.sampled_from(["NeoHooke", "tt:yeoh", "tt:mooney_rivlin", "NeoHooke", "OgdenRoxburgh"])})


def cond_check(kind, case, rec):
    fem = import_felupe()
    dim3 = kind.startswith("hexahedron")
    axi = kind.endswith("-axi")
    if dim3:
        mesh = jittered(fem, fem.Cube(n=tuple(case["n"])), case["jitter"], case["seed"])
        if kind == "hexahedron20":
            mesh = mesh.add_midpoints_edges()
        region = (fem.RegionQuadraticHexahedron if kind == "hexahedron20" else fem.RegionHexahedron)(mesh)
    else:
        # axisymmetric bodies: a ring at a drawn distance from the axis (x = axial, y = radial coordinate)
        r0 = (0.0, 0.4, 1.5)[case["seed"] % 3] if axi else 0.0
        mesh = jittered(fem, fem.Rectangle(a=(0.0, r0), b=(1.0, r0 + 1.0), n=tuple(case["n"][:2])), case["jitter"], case["seed"])
        if kind.startswith("quad8"):
            mesh = mesh.add_midpoints_edges()
        region = (fem.RegionQuadraticQuad if kind.startswith("quad8") else fem.RegionQuad)(mesh)
    mu = case["mu"]
    bulk = case["bulkratio"] * mu
    if case["mat"] == "NeoHooke":
        um = fem.NeoHooke(mu=mu)
    elif case["mat"] == "tt:yeoh":
        um = gmat.build("tt:yeoh", {"C10": mu / 2, "C20": 0.05, "C30": 0.01})
    elif case["mat"] == "OgdenRoxburgh":
        # pseudo-elastic softening: a material with state variables (documented for both formulations); decided on a load
        # path with unloading, where the committed maximum energy matters
        um = fem.OgdenRoxburgh(fem.NeoHooke(mu=mu), r=3.0, m=mu, beta=0.1)
        rec.label("material-with-state-variables")
    else:
        um = gmat.build("tt:mooney_rivlin", {"C10": mu / 3, "C01": mu / 6})
    stateful = case["mat"] == "OgdenRoxburgh"
    ps = not dim3 and not axi
    f1 = fem.FieldContainer([fem.FieldAxisymmetric(region, dim=2) if axi else fem.FieldPlaneStrain(region, dim=2) if ps else fem.Field(region, dim=3)])
    s1 = fem.SolidBodyNearlyIncompressible(um, f1, bulk=bulk)
    r0vec = np.asarray(s1.assemble.vector(f1).toarray()).ravel().copy()
    K0 = np.asarray(s1.assemble.matrix(f1).toarray())
    rec.close("condensed: no forces in the undeformed body", float(np.abs(r0vec).max()) / float(np.abs(K0).max()), 1e-12)
    prestart = case["seed"] % 4 == 1
    if prestart:
        # start values: both bodies are created on fields that already carry a volume-changing displacement (restart, second
        # analysis stage); the reference volumes are those of the undeformed mesh all the same
        ustart = np.zeros_like(f1[0].values)
        ustart[:, 0] = 0.05 * (np.asarray(mesh.points)[:, 0] - np.asarray(mesh.points)[:, 0].min())
        f1[0].values[...] = ustart
        rec.label("bodies-created-on-a-deformed-field")
    s1 = fem.SolidBodyNearlyIncompressible(um, f1, bulk=bulk)
    if case["seed"] % 3 == 0:
        # earlier in the session another mixed container was created with the documented non-default disconnect=False
        # (continuous dual fields on a Q2 region): default containers created afterwards are not affected
        mq = fem.Rectangle(n=3).add_midpoints_edges().add_midpoints_faces()
        fem.FieldsMixed(fem.RegionBiQuadraticQuad(mq), n=3, disconnect=False)
        rec.label("after-a-container-with-disconnect=False")
    f2 = fem.FieldsMixed(region, n=3, planestrain=ps, axisymmetric=axi)
    if axi and case["seed"] % 2 == 1:
        # a second analysis on a radially moved mesh of the same topology that takes over the dual (p, J) field objects
        # of an earlier one (already used in an assembly there) together with a new displacement field
        far = mesh.copy()
        far.update(points=np.array(mesh.points) + np.array([0.0, 0.9]))
        rfar = type(region)(far)
        prev = fem.FieldsMixed(rfar, n=3, axisymmetric=True)
        fem.SolidBody(fem.NearlyIncompressible(um, bulk=bulk), prev).assemble.vector(prev)
        f2 = fem.FieldContainer([fem.FieldAxisymmetric(region, dim=2), prev[1], prev[2]])
        rec.label("dual-fields-taken-over-from-another-analysis")
    if prestart:
        f2[0].values[...] = ustart
    # the explicit (u, p, J) formulation: either of the two wrappers (the three-field variation evaluates the material, incl. its
    # volumetric part, at the modified deformation gradient; for a state-free material both describe the same problem)
    if case["seed"] % 2 == 0 and not stateful:
        full = fem.NeoHooke(mu=mu, bulk=bulk) if case["mat"] == "NeoHooke" else fem.CompositeMaterial(um, fem.Volumetric(bulk=bulk))
        explicit = lambda: fem.ThreeFieldVariation(full)  # noqa
        rec.label("explicit=ThreeFieldVariation")
    else:
        explicit = lambda: fem.NearlyIncompressible(um, bulk=bulk)  # noqa
    s2 = fem.SolidBody(explicit(), f2)
    def solve(solid, field, steps):
        res = None
        levels = [case["move"] * k / steps for k in range(1, steps + 1)] + ([case["move"] * 0.4] if stateful else [])
        for level in levels:
            _, lc = fem.dof.uniaxial(field, clamped=case["clamped"], move=level)
            try:
                res = fem.newtonrhapson(items=[solid], **lc, tol=1e-11, maxiter=40)
            except ValueError:
                # for bulk / mu = 5000 the residual norm stalls at its round-off floor of 1-4e-11: continue from the last
                # iterate (kept in the field) with a tolerance above that floor; a genuine failure fails again
                res = fem.newtonrhapson(items=[solid], **lc, tol=1e-9, maxiter=8)
                rec.label("round-off-floor-retry")
        return res

    def attempt(steps):
        out = []
        for solid, field in ((s1, f1), (s2, f2)):
            try:
                out.append(solve(solid, field, steps))
            except ValueError:
                out.append(None)
        return out

    res1, res2 = attempt(1)
    if res1 is None or res2 is None:
        # a one-sided failure in one step is retried as a four-step ramp from scratch before it counts
        f1[0].values[...] = 0
        for f in f2:
            f.values[...] = 0
        f2[2].values[...] = 1
        s1 = fem.SolidBodyNearlyIncompressible(um, f1, bulk=bulk)
        s2 = fem.SolidBody(explicit(), f2)
        res1, res2 = attempt(4)
        rec.label("ramped")
    if res1 is None and res2 is None:
        rec.reject("Newton did not converge in either formulation")
        return
    rec.require("both-formulations-converge", res1 is not None and res2 is not None,
                {"condensed": res1 is not None, "three-field": res2 is not None, "bulk/mu": case["bulkratio"], "move": case["move"]})
    if res1 is None or res2 is None:
        return
    rec.nontrivial = abs(case["move"]) >= 0.05 and case["clamped"]
    u1, u2 = res1.x[0].values, res2.x[0].values
    # Newton started far from equilibrium may end in a spurious root with inverted cells (det F <= 0, outside the domain of the
    # material laws; seen for stiff bodies released from a deformed start state): such a pair of runs decides nothing
    for res_ in (res1, res2):
        Fr = np.asarray(res_.x.extract()[0])
        if float(np.linalg.det(np.moveaxis(Fr, (0, 1), (-2, -1))).min()) <= 0.05:
            rec.reject("Newton ended in a state with inverted cells")
            return
    # scale: the converged displacements, or the start values the iteration came from (a body released from a deformed start
    # state returns to u = 0 up to the Newton tolerance)
    uscale = max(float(np.abs(u2).max()), 0.05 if prestart else 0.0, 1e-9)
    rec.close("displacements", float(np.abs(u1 - u2).max()) / uscale, 1e-7, {"bulk/mu": case["bulkratio"]})
    # settle the condensed state at the converged displacements
    s1.assemble.vector(res1.x)
    p1, J1 = np.asarray(s1.results.state.p).ravel(), np.asarray(s1.results.state.J).ravel()
    p2, J2 = res2.x[1].values.ravel(), res2.x[2].values.ravel()
    rec.require("cell-wise-constant-duals", p2.size == mesh.ncells and p1.size == mesh.ncells, [p1.size, p2.size, mesh.ncells])
    if p1.size == p2.size:
        rec.close("pressures", float(np.abs(p1 - p2).max()) / max(float(np.abs(p2).max()), mu * 1e-3), 1e-6, {"bulk/mu": case["bulkratio"]})
        rec.close("volume-ratios", float(np.abs(J1 - J2).max()), 1e-8)
        # J is the cell volume ratio v / V of the converged state
        fv = fem.FieldContainer([(fem.FieldAxisymmetric if axi else fem.Field)(region, dim=mesh.dim, values=u2[:, : mesh.dim])])
        Fq = np.asarray(fv.extract()[0])
        detF = np.linalg.det(np.moveaxis(Fq, (0, 1), (-2, -1)))
        dV = region.dV * fv[0].radius if axi else region.dV  # the factor 2 pi cancels in the ratio
        Jc = (detF * dV).sum(0) / dV.sum(0)
        rec.close("J = v/V", float(np.abs(J2 - Jc).max()), 1e-8)
        # the condensed tangent is the Schur complement of the three-field tangent at the common converged state
        K1 = np.asarray(s1.assemble.matrix(res1.x).toarray())
        K2 = np.asarray(s2.assemble.matrix(res2.x).toarray())
        nu = K1.shape[0]
        S = K2[:nu, :nu] - K2[:nu, nu:] @ np.linalg.solve(K2[nu:, nu:], K2[nu:, :nu])
        rec.close("condensed tangent = Schur complement of the three-field tangent", float(np.abs(K1 - S).max()) / float(np.abs(S).max()), 1e-6, {"bulk/mu": case["bulkratio"]})
        rec.close("p = K (J - 1)", float(np.abs(p2 - bulk * (J2 - 1)).max()) / max(float(np.abs(p2).max()), mu * 1e-3), 1e-7)
    if not stateful:
        # the used condensed body asked about a state that arrives in ANOTHER container object (a copy, x + dx in a hand-written
        # loop): it answers like a body built from scratch on a container holding that state (both settled by repeated evaluation)
        xo = res1.x.copy()
        xo[0].values[...] = 0.9 * np.asarray(res1.x[0].values)
        fF = fem.FieldContainer([fem.FieldAxisymmetric(region, dim=2) if axi else fem.FieldPlaneStrain(region, dim=2) if ps else fem.Field(region, dim=3)])
        fF[0].values[...] = xo[0].values
        sF = fem.SolidBodyNearlyIncompressible(um, fF, bulk=bulk)
        for _ in range(4):
            ra_ = np.asarray(s1.assemble.vector(xo).toarray()).ravel().copy()
            rb_ = np.asarray(sF.assemble.vector(fF).toarray()).ravel().copy()
        rec.close("used-condensed-body-on-another-container=fresh-body", float(np.abs(ra_ - rb_).max()) / max(float(np.abs(rb_).max()), 1e-12), 1e-8)


# ---------------------------------------------------------------------------------------------------------------
def uni_strategy(kind, tier):
    return st.fixed_dictionaries({"n": st.lists(st.integers(2, 4), min_size=3, max_size=3), "size": st.lists(fl(0.5, 2), min_size=3, max_size=3), "seed": st.integers(0, 2**16),
                                  "amp": st.sampled_from([0.05, 0.15]), "mat": st_mat(), "parallel": st.booleans()})


def uni_check(kind, case, rec):
    fem = import_felupe()
    axi = kind.endswith("-axi")
    kind = kind[:-4] if axi else kind
    dim = 2 if kind.startswith("quad") else 3
    a0 = (0.0, (0.0, 0.3, 1.2)[case["seed"] % 3]) if axi else (0.0,) * dim  # axisymmetric: distance of the grid from the axis
    mesh = (fem.Rectangle if dim == 2 else fem.Cube)(a=tuple(a0), b=tuple(np.array(a0) + np.array(case["size"][:dim])), n=tuple(case["n"][:dim]))
    if kind in ("quad8", "hexahedron20"):
        mesh = mesh.add_midpoints_edges()
    if kind == "quad9":
        mesh = mesh.add_midpoints_edges().add_midpoints_faces()
    R = {"quad": fem.RegionQuad, "quad8": fem.RegionQuadraticQuad, "quad9": fem.RegionBiQuadraticQuad, "hexahedron": fem.RegionHexahedron, "hexahedron20": fem.RegionQuadraticHexahedron}[kind]
    ru, rn = R(mesh, uniform=True), R(mesh)
    mk = (lambda r: fem.FieldAxisymmetric(r, dim=2)) if axi else (lambda r: fem.FieldPlaneStrain(r, dim=2)) if dim == 2 else (lambda r: fem.Field(r, dim=3))
    fu, fn = fem.FieldContainer([mk(ru)]), fem.FieldContainer([mk(rn)])
    u = smooth_u(np.array(mesh.points), case["seed"], case["amp"])
    if axi:
        Rp = np.array(mesh.points)[:, 1]
        u[:, 1] *= Rp / Rp.max()  # no radial displacement on the axis
    fu[0].values[...] = u
    fn[0].values[...] = u
    if np.linalg.det(np.moveaxis(np.asarray(fn.extract()[0]), (0, 1), (-2, -1))).min() < 0.3:
        rec.reject("det F < 0.3")
        return
    um, _ = make_umat(fem, case["mat"])
    su, sn = fem.SolidBody(um, fu), fem.SolidBody(um, fn)
    par = case["parallel"]
    rec.nontrivial = mesh.ncells >= 4
    rec.require("uniform-storage", ru.dV.shape[-1] == 1 and rn.dV.shape[-1] == mesh.ncells, [ru.dV.shape, rn.dV.shape])
    a = np.asarray(su.assemble.vector(fu, parallel=par).toarray())
    b = np.asarray(sn.assemble.vector(fn, parallel=par).toarray())
    rec.close("vector", float(np.abs(a - b).max()) / max(float(np.abs(b).max()), 1e-12), 1e-12)
    A = np.asarray(su.assemble.matrix(fu, parallel=par).toarray())
    B = np.asarray(sn.assemble.matrix(fn, parallel=par).toarray())
    rec.close("matrix", float(np.abs(A - B).max()) / float(np.abs(B).max()), 1e-12)
    Fu, Fn = np.asarray(fu.extract()[0]), np.asarray(fn.extract()[0])
    rec.close("deformation-gradient", float(np.abs(Fu - Fn).max()), 1e-13)
    if axi:
        rec.close("radius", float(np.abs(np.asarray(fu[0].radius) - np.asarray(fn[0].radius)).max()), 1e-13)
        # the condensed body on the uniform grid as well
        cu, cn = fem.SolidBodyNearlyIncompressible(fem.NeoHooke(mu=1.0), fu, bulk=50.0), fem.SolidBodyNearlyIncompressible(fem.NeoHooke(mu=1.0), fn, bulk=50.0)
        a = np.asarray(cu.assemble.vector(fu).toarray())
        b = np.asarray(cn.assemble.vector(fn).toarray())
        rec.close("condensed-vector", float(np.abs(a - b).max()) / max(float(np.abs(b).max()), 1e-12), 1e-12)
        return  # (the mass matrix of axisymmetric bodies is not available)
    if dim == 3 or True:
        Mu = np.asarray(fem.SolidBody(um, fu, density=1.3).assemble.mass().toarray())
        Mn = np.asarray(fem.SolidBody(um, fn, density=1.3).assemble.mass().toarray())
        rec.close("mass", float(np.abs(Mu - Mn).max()) / float(np.abs(Mn).max()), 1e-12)


FAMILIES = [
    Family("planestrain-vs-slab", ["quad", "quad8", "quad9"], ps_check, strategy=ps_strategy, n={"quick": 24, "thorough": 900}, chunk=8, weight=3),
    Family("axisymmetric", ["energy", "revolve-quick", "energy-mini"], axi_check, strategy=axi_strategy, n={"quick": 8, "thorough": 80}, chunk=4, weight=4),
    Family("axisymmetric-rate", ["revolve-thorough"], axi_check, strategy=axi_strategy, n={"quick": 1, "thorough": 30}, chunk=3, weight=6),
    Family("condensed-vs-threefield", ["hexahedron", "quad", "quad-axi", "quad8", "quad8-axi"], cond_check, strategy=cond_strategy, n={"quick": 20, "thorough": 800}, chunk=5, weight=3),
    Family("condensed-vs-threefield-q", ["hexahedron20"], cond_check, strategy=cond_strategy, n={"quick": 6, "thorough": 60}, chunk=2, weight=8),
    Family("uniform-vs-general", ["quad", "quad8", "quad9", "hexahedron", "hexahedron20", "quad-axi", "quad8-axi", "quad9-axi"], uni_check, strategy=uni_strategy, n={"quick": 18, "thorough": 800}, chunk=6),
]

LEVEL_TEXT = (
    "All four equivalence clauses enumerated over the element families available in both formulations; Hypothesis draws "
    "meshes, states, materials, thickness, bulk moduli and loads; the two formulations are run on identical inputs "
    "(differential / metamorphic oracle); the axisymmetric forces are additionally compared with finite differences "
    "of an independently assembled energy."
)
LEVEL_NOTE = "mesh.expand / mesh.revolve build the 3-D counterparts (decided by C16); convergence to the revolved model is a rate check"
TECHNIQUE = "differential / metamorphic property-based testing (Hypothesis): reduced vs full formulation on identical generated inputs"
