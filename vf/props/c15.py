"""C15 - load histories: ramps apply in order, history variables follow converged steps."""
import numpy as np
from hypothesis import strategies as st

from vf.core import Family, import_felupe

PROPERTY = "C15"
RULE = (
    "finite axis = material class (elastic, Ogden-Roxburgh hand-coded / automatic differentiation, small-strain "
    "plasticity, mixed elastic); Hypothesis draws a HISTORY: 1-3 steps, each with a ramp of 1-6 values (monotone, "
    "cyclic, repeated values), an optional injected non-converging substep (ramp value that inverts the cells), the "
    "mesh size, distortion and material parameters. The history is executed through Step.generate() / Job and a "
    "reference model is advanced in lock-step: after EVERY yielded substep the ramped unknowns carry the i-th ramp "
    "value, a repeated value converges at once from the previous converged state, state variables equal the trial "
    "state of the converged iterate recomputed from the previously committed one, the running maximum energy / "
    "yield condition / monotone plastic strain hold, nothing is yielded after a failure, the exception propagates and "
    "state variables stay bit-equal to the last committed copy. Elastic: two generated subdivisions of the same end "
    "value give the same final state. Non-trivial: >= 1 load reversal or repeated value, or an injected failure."
    " family 'ramped-items': PointLoad (also axisymmetric) and gravity ramped by a Step through item.update; class 'mixed-or': a history material inside the three-field wrapper; class 'or-composite': a history material as first part of a composite (a & b)."
    ' Family user-strain-material (a user law behind MaterialStrain returning its state as a new array: stored state, strain and stress after every converged substep); job.timetrack; steps built from one re-used ramp dictionary; ramp tables from linsteps(axis=0); state consistency of the condensed body.'
)
ASSUMPTIONS = [
    "a non-converging substep is injected with a NaN ramp value (deterministic ValueError of the Newton solver); generated large jumps may additionally fail to converge and are treated as legitimate failures",
    "tolerances: ramp values exact to 4 ulp, state recomputation 1e-9, subdivision independence 1e-7",
]

CLASSES = ["elastic", "or-hand", "or-ad", "or-composite", "plastic", "mixed", "mixed-or", "condensed"]


class SplitBase:
    """reference behaviour of 'softened isochoric part & volumetric part': energy of the part that softens, stress of the sum."""

    def __init__(self, iso, total):
        self.function = iso.function
        self.gradient = total.gradient


def fl(lo, hi, nd=3):
    return st.floats(lo, hi, allow_nan=False).map(lambda v: round(v, nd))


def st_ramp(mx=6):
    return st.one_of(
        st.lists(fl(-0.25, 0.6), min_size=1, max_size=mx),
        st.lists(fl(0.05, 0.5), min_size=2, max_size=5).map(lambda v: sorted(v)),
        st.lists(fl(0.05, 0.5), min_size=2, max_size=4).map(lambda v: sorted(v) + sorted(v, reverse=True)[1:]),
        st.lists(fl(0.05, 0.5), min_size=1, max_size=3).map(lambda v: [x for x in v for _ in (0, 1)]),
    )


def strategy(cls, tier):
    return st.fixed_dictionaries(
        {
            "n": st.lists(st.integers(2, 3), min_size=3, max_size=3),
            "jitter": st.sampled_from([0.0, 0.1]),
            "jseed": st.integers(0, 2**16),
            "steps": st.lists(st.fixed_dictionaries({"ramp": st_ramp(6 if tier == "quick" else 10), "fail_at": st.one_of(st.none(), st.none(), st.integers(0, 5))}), min_size=1, max_size=3 if tier == "quick" else 4),
            "mu": fl(0.5, 2), "bulk": st.sampled_from([2.0, 10.0]), "r": fl(1.5, 4), "m": fl(0.3, 1.5), "beta": fl(0.0, 0.4),
            "use_job": st.booleans(), "x0": st.booleans(),
            "split": st.lists(fl(0.1, 0.9), min_size=0, max_size=4),
        }
    )


def setup(cls, case, fem):
    mesh = fem.Cube(b=(1.0, 0.8, 0.6), n=tuple(case["n"]))
    if case["jitter"]:
        r = np.random.default_rng(case["jseed"])
        X = np.array(mesh.points)
        lo, hi = X.min(0), X.max(0)
        inner = ~np.any((np.abs(X - lo) < 1e-12) | (np.abs(X - hi) < 1e-12), axis=1)
        h = min((hi - lo) / (np.array(case["n"]) - 1))
        X[inner] += case["jitter"] * h * r.uniform(-1, 1, (int(inner.sum()), 3))
        mesh.update(points=X)
    region = fem.RegionHexahedron(mesh)
    if cls in ("mixed", "mixed-or"):
        fc = fem.FieldsMixed(region, n=3)
    else:
        fc = fem.FieldContainer([fem.Field(region, dim=3)])
    mu, bulk = case["mu"], case["bulk"]
    base = fem.NeoHooke(mu=mu, bulk=bulk)
    scale = 1.0
    if cls == "elastic":
        body = fem.SolidBody(base, fc)
    elif cls == "or-hand":
        body = fem.SolidBody(fem.OgdenRoxburgh(base, r=case["r"], m=case["m"], beta=case["beta"]), fc)
    elif cls == "or-ad":
        import felupe.constitution.tensortrax as tt

        M = tt.models.hyperelastic
        um = tt.Hyperelastic(M.ogden_roxburgh, material=M.neo_hooke, mu=mu, r=case["r"], m=case["m"], beta=case["beta"], nstatevars=1)
        body = fem.SolidBody(fem.CompositeMaterial(um, fem.Volumetric(bulk=bulk)), fc) if False else fem.SolidBody(um, fc)
        # purely isochoric model: add a volumetric body so that the problem is well posed
        vol = fem.SolidBody(fem.Volumetric(bulk=bulk), fc)
        base = fem.NeoHooke(mu=mu)
        # (the body that carries the history is the first or the second item of the step)
        return mesh, region, fc, ([body, vol] if (case["jseed"] + len(case["steps"]) + case["n"][0]) % 2 else [vol, body]), body, base, 1.0
    elif cls == "or-composite":
        # a composite material (a & b) whose FIRST material carries the state variables (documented: "state variables are only
        # considered for the first material")
        iso = fem.NeoHooke(mu=mu)
        vol = fem.Volumetric(bulk=bulk)
        body = fem.SolidBody(fem.OgdenRoxburgh(iso, r=case["r"], m=case["m"], beta=case["beta"]) & vol, fc)
        base = SplitBase(iso, iso & vol)
    elif cls == "plastic":
        body = fem.SolidBody(fem.LinearElasticPlasticIsotropicHardening(E=100.0, nu=0.3, sy=1.0, K=10.0), fc)
        scale = 0.08
    elif cls == "mixed":
        body = fem.SolidBody(fem.ThreeFieldVariation(base), fc)
    elif cls == "mixed-or":
        # history material inside the three-field wrapper: the wrapper has to pass the new state variables through
        body = fem.SolidBody(fem.ThreeFieldVariation(fem.OgdenRoxburgh(base, r=case["r"], m=case["m"], beta=case["beta"])), fc)
    elif cls == "condensed":
        body = fem.SolidBodyNearlyIncompressible(fem.NeoHooke(mu=mu), fc, bulk=50.0)
    return mesh, region, fc, [body], body, base, scale


def energy_density(fem, base, F):
    return np.asarray(base.function([F, None])[0], float)


def check(cls, case, rec):
    fem = import_felupe()
    mesh, region, fc, items, body, base, scale = setup(cls, case, fem)
    bounds, lc = fem.dof.uniaxial(fc, clamped=True, move=0.0)
    move = bounds["move"]
    X = np.array(mesh.points)
    L = float(np.ptp(X[:, 0]))
    # every second elastic history prescribes TWO components on the moved face: the ramp is a 2-d array with one (ux, uy) row per
    # substep (uy = 0.3 ux)
    rowfac = None
    if cls == "elastic" and (len(case["steps"]) + int(round(1000 * case["mu"]))) % 2 == 0:
        xr = float(X[:, 0].max())
        move = fem.Boundary(fc[0], fx=xr, skip=(0, 0, 1))
        bounds["move"] = move
        bounds["right"] = fem.Boundary(fc[0], fx=xr, skip=(1, 1, 0))
        rowfac = np.array([1.0, 0.3])
        rec.label("two-component-ramp-rows")
    mdof = move.dof  # dofs of the first field carrying the ramped value
    has_state = cls in ("or-hand", "or-ad", "or-composite", "plastic", "mixed-or")
    committed = np.array(body.results.statevars, dtype=float).copy() if has_state else None
    wmax_model = None
    alpha_prev = None
    reversal = False
    injected = False
    yielded_total = 0
    last_value = None
    unload_force = {}
    rf_scale = [0.0]
    kwargs = {"tol": 1e-9}
    if case["x0"]:
        kwargs["x0"] = fc
    ended = False
    for si, stp in enumerate(case["steps"]):
        vals = [scale * v for v in stp["ramp"]]
        fail_at = stp["fail_at"]
        if fail_at is not None and fail_at < len(vals):
            vals = list(vals)
            vals[fail_at] = float("nan")  # the Newton iteration of this substep cannot converge (NaN norms -> ValueError)
            injected = True
        else:
            fail_at = None
        fin = [v for v in vals if v == v]
        if any((fin[i + 1] - fin[i]) * (fin[i] - fin[i - 1]) < 0 for i in range(1, len(fin) - 1)) or len(set(fin)) < len(fin):
            reversal = True
        step = fem.Step(items=items, ramp={move: np.array(vals) if rowfac is None else np.array(vals)[:, None] * rowfac[None, :]}, boundaries=bounds)
        gen = step.generate(**kwargs)
        nyield = 0
        raised = False
        while True:
            pre = np.array(body.results.statevars, dtype=float).copy() if has_state else None
            try:
                res = next(gen)
            except StopIteration:
                break
            except ValueError:
                raised = True
                if has_state:
                    rec.require("failure-leaves-committed-state", np.array_equal(np.asarray(body.results.statevars), committed))
                # nothing is yielded after a failure
                try:
                    nxt = next(gen)
                    rec.require("nothing-yielded-after-failure", False)
                except StopIteration:
                    pass
                except ValueError:
                    rec.require("nothing-yielded-after-failure", False, "generator resumed")
                break
            i = nyield
            nyield += 1
            yielded_total += 1
            xv = np.concatenate([f.values.ravel() for f in res.x.fields])
            ulp = 8 * np.finfo(float).eps * max(1.0, abs(vals[i]))
            target = vals[i] if rowfac is None else np.tile(vals[i] * rowfac, len(mdof) // 2)
            rec.close("i-th-result-carries-i-th-ramp-value", float(np.abs(xv[mdof] - target).max()), ulp, {"step": si, "substep": i, "value": vals[i]})
            rec.require("success", bool(res.success))
            # continuation from the previous converged state: a repeated value is already the solution
            if last_value is not None and vals[i] == last_value and cls != "condensed":
                rec.require("repeated-value-converges-at-once", res.iterations == 1 and res.xnorms[0] <= 1e-7 * max(1.0, L),
                            {"iterations": int(res.iterations), "xnorm": float(res.xnorms[0])})
            last_value = vals[i]
            if "x0" in kwargs:
                kwargs["x0"].link(res.x)  # what Job.evaluate does after each completed substep
            F = res.x.extract()[0]
            if float(np.linalg.det(np.moveaxis(np.asarray(F), (0, 1), (-2, -1))).min()) <= 0.05:
                # a large generated jump "converged" to a state with inverted cells (models without a volumetric barrier
                # accept det F < 0): outside the material models' domain, the history ends here
                rec.label("inverted-state-history-ends")
                ended = True
                break
            if cls == "condensed":
                # the internal state of the condensed body after a converged substep is consistent: the pressure is the one of the
                # stored volume ratio, and the stored displacements are those of the converged iterate
                st_ = body.results.state
                rec.close("condensed: p = bulk (J - 1) after a converged substep", float(np.abs(np.asarray(st_.p) - body.bulk * (np.asarray(st_.J) - 1)).max()) / body.bulk, 1e-14, {"substep": i})
                rec.close("condensed: stored displacements = converged iterate", float(np.abs(np.asarray(st_.u) - np.asarray(res.x[0].values)).max()), 0.0)
            if has_state:
                sv = np.asarray(body.results.statevars, float)
                um = body.umat
                if cls == "mixed-or":
                    xq = [np.asarray(a_).copy() for a_ in res.x.extract()]
                    trial = np.asarray(um.gradient(xq + [committed.copy()])[-1], float)
                else:
                    trial = np.asarray(um.gradient([np.asarray(F).copy(), committed.copy()])[-1], float)
                rec.close("state=trial-state-of-converged-iterate", float(np.abs(sv - trial).max()) / max(1.0, float(np.abs(trial).max())), 1e-9, {"step": si, "substep": i})
                if cls == "mixed-or":
                    # the wrapped material sees the determinant-modified deformation gradient (J / det F)^(1/3) F
                    Fq, Jq = np.asarray(xq[0]), np.asarray(xq[2])
                    Fbar = (Jq / np.linalg.det(np.moveaxis(Fq, (0, 1), (-2, -1)))) ** (1 / 3) * Fq
                    W = energy_density(fem, base, Fbar)
                    wmax_model = W.copy() if wmax_model is None else np.maximum(wmax_model, W)
                    rec.close("Wmax=running-maximum", float(np.abs(sv[0] - wmax_model).max()) / max(float(wmax_model.max()), 1e-12), 1e-9, {"step": si, "substep": i})
                if cls.startswith("or"):
                    W = energy_density(fem, base, np.asarray(F))
                    wmax_model = W.copy() if wmax_model is None else np.maximum(wmax_model, W)
                    rec.close("Wmax=running-maximum", float(np.abs(sv[0] - wmax_model).max()) / max(float(wmax_model.max()), 1e-12), 1e-9, {"step": si, "substep": i})
                    # primary loading path equals the base material: where W == Wmax the stress is the base stress
                    P = np.asarray(um.gradient([np.asarray(F).copy(), committed.copy()])[0], float)
                    Pb = np.asarray(base.gradient([np.asarray(F).copy(), None])[0], float)
                    prim = W >= wmax_model * (1 - 1e-12)
                    if prim.any():
                        rec.close("primary-path=base-material", float(np.abs((P - Pb)[..., prim]).max()) / max(float(np.abs(Pb).max()), 1e-12), 1e-9)
                    if cls == "or-hand" and (~prim).any():
                        # off the primary path (documented): P = eta P_base, eta = 1 - erf((Wmax - W) / (m + beta Wmax)) / r
                        from scipy.special import erf

                        eta = 1 - erf((wmax_model - W) / (case["m"] + case["beta"] * wmax_model)) / case["r"]
                        rec.close("unloading-path=eta(W,Wmax)*base-stress", float(np.abs((P - eta * Pb)[..., ~prim]).max()) / max(float(np.abs(Pb).max()), 1e-12), 1e-9)
                        rec.label("softened-points-compared-with-closed-form")
                    # reloading retraces unloading: same value below the maximum -> same reaction force
                    rf = float(np.asarray(res.fun)[mdof].sum())
                    key = round(vals[i], 12)
                    below = bool((W < wmax_model * (1 - 1e-9)).all())
                    rf_scale[0] = max(rf_scale[0], abs(rf))
                    if below and key in unload_force and unload_force[key][1] == float(wmax_model.max()):
                        # relative to the largest reaction force of the history (the force at a fully unloaded state is ~0)
                        rec.close("reload-retraces-unload", abs(rf - unload_force[key][0]) / max(rf_scale[0], 1e-9), 1e-6)
                    if below:
                        unload_force[key] = (rf, float(wmax_model.max()))
                if cls == "plastic":
                    alpha = sv[0]
                    sig = sv[19:28].reshape(3, 3, *sv.shape[1:])
                    s = sig - np.trace(sig) / 3 * np.eye(3).reshape(3, 3, 1, 1)
                    f_y = np.sqrt((s * s).sum((0, 1))) - np.sqrt(2 / 3) * (1.0 + 10.0 * alpha)
                    rec.close("yield-condition", max(0.0, float(f_y.max())), 1e-9)
                    if alpha_prev is not None:
                        rec.close("plastic-strain-monotone", max(0.0, float((alpha_prev - alpha).max())), 0.0)
                    if float(alpha.max()) > 0:
                        rec.label("plastic-flow")
                    alpha_prev = alpha.copy()
                committed = sv.copy()
        if ended:
            break
        if raised and (fail_at is None or nyield < fail_at):
            # a generated jump may legitimately fail to converge: the failure invariants above apply, the history ends here
            rec.label("natural-failure")
            break
        expected = len(vals) if fail_at is None else fail_at
        rec.require("yield-count", nyield == expected, {"yielded": nyield, "expected": expected, "step": si})
        if fail_at is not None:
            rec.require("failure-raises", raised)
            break
    rec.nontrivial = reversal or injected
    if injected:
        rec.label("injected-failure")
    if reversal:
        rec.label("reversal-or-repeat")
    rec.label(f"yields={min(yielded_total, 10)}")
    # ---- elastic: the final state does not depend on the subdivision of the load path
    if cls in ("elastic", "mixed") and not injected and not ended and yielded_total > 0:
        end = last_value
        mesh2, region2, fc2, items2, body2, base2, _ = setup(cls, case, fem)
        b2, _ = fem.dof.uniaxial(fc2, clamped=True, move=0.0)
        cuts = sorted(set(round(c, 3) for c in case["split"]))
        ramp2 = [c * end for c in cuts] + [end]
        if rowfac is not None:
            xr2 = float(np.array(mesh2.points)[:, 0].max())
            b2["move"] = fem.Boundary(fc2[0], fx=xr2, skip=(0, 0, 1))
            b2["right"] = fem.Boundary(fc2[0], fx=xr2, skip=(1, 1, 0))
        st2 = fem.Step(items=items2, ramp={b2["move"]: np.array(ramp2) if rowfac is None else np.array(ramp2)[:, None] * rowfac[None, :]}, boundaries=b2)
        try:
            out = list(st2.generate(tol=1e-9))
        except ValueError:
            rec.label("subdivision-run-did-not-converge")
            return
        a = np.concatenate([f.values.ravel() for f in out[-1].x.fields])
        b = np.concatenate([f.values.ravel() for f in items[0].field.fields])
        Jmin = min(float(np.linalg.det(np.moveaxis(np.asarray(c_.extract()[0]), (0, 1), (-2, -1))).min()) for c_ in (out[-1].x, items[0].field))
        if Jmin <= 0.05:
            rec.label("subdivision-run-reached-an-inverted-state")  # another (non-physical) equilibrium of a large jump
            return
        # relative to the largest displacement of the history (the final state may be the unloaded one, ~0)
        umax = max([abs(v) for s_ in case["steps"] for v in s_["ramp"]] + [float(np.abs(b).max()), 1e-9]) * scale
        rec.close("final-state-independent-of-subdivision", float(np.abs(a - b).max()) / umax, 1e-6)


# ---------------------------------------------------------------------------------------------------------------
# Job / CharacteristicCurve: callback order and job.x / job.y
# ---------------------------------------------------------------------------------------------------------------
def job_strategy(kind, tier):
    return st.fixed_dictionaries({"n": st.lists(st.integers(2, 3), min_size=3, max_size=3),
                                  "steps": st.lists(st_ramp(), min_size=1, max_size=3), "fail": st.one_of(st.none(), st.integers(0, 8)),
                                  "mu": fl(0.5, 2), "items": st.booleans(), "x0": st.booleans()})


def job_check(kind, case, rec):
    fem = import_felupe()
    mesh = fem.Cube(b=(1.0, 0.8, 0.6), n=tuple(case["n"]))
    region = fem.RegionHexahedron(mesh)
    fc = fem.FieldContainer([fem.Field(region, dim=3)])
    body = fem.SolidBody(fem.NeoHooke(mu=case["mu"], bulk=5.0), fc)
    x0 = None
    if case["x0"]:
        # a separate global field container (multi-body workflow): boundaries live on the global field, the job must
        # advance it after every substep
        x0 = fem.FieldContainer([fem.Field(region, dim=3)])
    bounds, lc = fem.dof.uniaxial(x0 if x0 is not None else fc, clamped=True, move=0.0)
    flat = []
    steps = []
    k = 0
    # every other job builds all its steps from ONE ramp dictionary whose entry is replaced between the Step(...) calls (the way a
    # script re-uses a variable): each step keeps the table it was created with
    shared = {} if (len(case["steps"]) + case["n"][0] + case["n"][1]) % 2 == 0 else None
    for ramp in case["steps"]:
        vals = [0.5 * v for v in ramp]  # moderate increments: every substep converges unless a failure is injected
        for j in range(len(vals)):
            if case["fail"] is not None and k == case["fail"]:
                vals[j] = float("nan")
            k += 1
        flat.append(vals)
        if shared is not None:
            shared[bounds["move"]] = np.array(vals)
            steps.append(fem.Step(items=[body], ramp=shared, boundaries=bounds))
        else:
            steps.append(fem.Step(items=[body], ramp={bounds["move"]: np.array(vals)}, boundaries=bounds))
    if shared is not None and len(steps) >= 2:
        rec.label("steps-built-from-one-re-used-ramp-dictionary")
    seen = []

    def cb(stepnumber, substepnumber, substep, **kw):
        seen.append((stepnumber, substepnumber, float(substep.x[0].values[bounds["move"].points[0], 0]), int(substep.iterations), float(substep.xnorms[0])))

    if kind == "curve":
        job = fem.CharacteristicCurve(steps=steps, boundary=bounds["move"], callback=cb, items=[body] if case["items"] else None)
    else:
        job = fem.Job(steps=steps, callback=cb)
    raised = False
    ekw = {}
    if x0 is not None:
        ekw["x0"] = x0
    try:
        job.evaluate(tol=1e-9, **ekw)
    except ValueError:
        raised = True
    expect = []
    stop = False
    for si, vals in enumerate(flat):
        for i, v in enumerate(vals):
            if v != v:
                stop = True
                break
            expect.append((si, i, v))
        if stop:
            break
    rec.nontrivial = len(expect) >= 2
    if raised and not stop:
        # a generated increment may legitimately fail to converge: the callbacks seen so far must be a prefix
        rec.label("natural-failure")
        rec.require("callback-prefix", [(s_[0], s_[1]) for s_ in seen] == [(a, b) for a, b, _ in expect][: len(seen)])
        return
    rec.require("raises-iff-failure", raised == stop)
    rec.require("callback-sequence", [(s_[0], s_[1]) for s_ in seen] == [(a, b) for a, b, _ in expect], {"seen": len(seen), "expected": len(expect)})
    if len(seen) == len(expect) and seen and hasattr(job, "timetrack"):
        # the job's own time axis: one stamp per converged substep, counted through all steps
        tt = [float(t_) for t_ in job.timetrack]
        rec.require("timetrack=0,1,2,...-through-all-steps", tt == [float(i_) for i_ in range(len(expect))], tt[:12])
    if len(seen) == len(expect) and seen:
        rec.close("callback-sees-ramp-values", max(abs(s_[2] - e[2]) for s_, e in zip(seen, expect)), 1e-15)
        # every substep starts from the previous converged state: a repeated ramp value is already the solution
        for k_ in range(1, len(seen)):
            if expect[k_][2] == expect[k_ - 1][2]:
                rec.require("repeated-value-converges-at-once", seen[k_][3] == 1 and seen[k_][4] <= 1e-7, {"iterations": seen[k_][3], "xnorm": seen[k_][4], "x0": case["x0"]})
        if x0 is not None and not stop:
            rec.close("x0-holds-the-final-state", float(np.abs(x0[0].values - body.field[0].values).max()), 0.0)
            rec.close("x0-carries-the-last-ramp-value", abs(float(x0[0].values[bounds["move"].points[0], 0]) - expect[-1][2]), 1e-15)
    if x0 is not None:
        rec.label("separate-x0")
    if kind == "curve" and len(seen) == len(expect) and seen:
        xs = np.array([np.asarray(x)[0] for x in job.x])
        rec.close("job.x=ramp-values", float(np.abs(xs - np.array([e[2] for e in expect])).max()), 1e-15)
        rec.require("job.y-length", len(job.y) == len(expect))
    if kind == "curve" and len(seen) == len(expect) and seen and not stop:
        # reaction force of the last substep = sum of nodal forces on the boundary's points
        r = np.asarray(body.assemble.vector(body.field).toarray()).reshape(-1, 3)
        ref = r[bounds["move"].points].sum(0)
        rec.close("job.y=sum-of-boundary-forces", float(np.abs(np.asarray(job.y[-1]) - ref).max()) / max(float(np.abs(ref).max()), 1e-12), 1e-8)


def ustrain_strategy(kind, tier):
    return st.fixed_dictionaries({"n": st.lists(st.integers(2, 3), min_size=3, max_size=3), "steps": st.lists(st_ramp(), min_size=1, max_size=3),
                                  "mu": fl(0.5, 2), "lmbda": fl(0.5, 3), "c": fl(0.0, 2.0), "fail": st.one_of(st.none(), st.none(), st.integers(0, 8))})


def ustrain_check(kind, case, rec):
    """a user-defined small-strain law behind MaterialStrain (documented interface fun(de, en, sn, zn, **kw) -> dsde, s, z) whose state
    variable is returned as a NEW array: z = zn + |de| (the length of the strain path). After every converged substep the body holds
    the path length over the converged strains, the converged strain and the converged stress; a failed substep commits nothing."""
    fem = import_felupe()
    from felupe.math import cdya, dya, identity, trace

    mu, lm, c = case["mu"], case["lmbda"], case["c"]

    def law(de, en, sn, zn, **kwargs):
        I = identity(de)
        path = zn[0] + np.sqrt(np.einsum("ij...,ij...->...", de, de))[None]  # a fresh array, zn is left alone
        s_new = sn + 2 * mu * de + lm * trace(de) * I
        dsde = 2 * mu * cdya(I, I) + lm * dya(I, I)
        return dsde, s_new, [path]

    mesh = fem.Cube(b=(1.0, 0.8, 0.6), n=tuple(case["n"]))
    region = fem.RegionHexahedron(mesh)
    fc = fem.FieldContainer([fem.Field(region, dim=3)])
    um = fem.MaterialStrain(material=law, dim=3, statevars=((1,),))
    body = fem.SolidBody(um, fc)
    bounds, lc = fem.dof.uniaxial(fc, clamped=True, move=0.0)
    steps, flat, k = [], [], 0
    for ramp in case["steps"]:
        vals = [0.1 * v for v in ramp]
        for j in range(len(vals)):
            if case["fail"] is not None and k == case["fail"]:
                vals[j] = float("nan")
            k += 1
        flat += vals
        steps.append(fem.Step(items=[body], ramp={bounds["move"]: np.array(vals)}, boundaries=bounds))
    eps_seen, state_seen = [], []

    def cb(stepnumber, substepnumber, substep, **kw):
        H = np.asarray(substep.x.extract(grad=True, sym=False, add_identity=False)[0])
        eps_seen.append(0.5 * (H + np.swapaxes(H, 0, 1)))
        state_seen.append(np.array(body.results.statevars, float))

    raised = False
    try:
        fem.Job(steps=steps, callback=cb).evaluate(tol=1e-9)
    except ValueError:
        raised = True
    nok = next((i for i, v in enumerate(flat) if v != v), len(flat))
    rec.require("raises-iff-failure", raised == (nok < len(flat)))
    if not rec.require("one-callback-per-converged-substep", len(eps_seen) == nok, [len(eps_seen), nok]):
        return
    rec.nontrivial = nok >= 2 and max(abs(v) for v in flat[:nok]) > 0
    path = np.zeros(eps_seen[0].shape[2:]) if eps_seen else None
    prev = np.zeros_like(eps_seen[0]) if eps_seen else None
    worst_p, worst_e, worst_s = 0.0, 0.0, 0.0
    for e_, sv in zip(eps_seen, state_seen):
        path = path + np.sqrt(((e_ - prev) ** 2).sum((0, 1)))
        prev = e_
        sig = 2 * mu * e_ + lm * np.trace(e_) * np.eye(3).reshape(3, 3, 1, 1)
        worst_p = max(worst_p, float(np.abs(sv[0] - path).max()))
        worst_e = max(worst_e, float(np.abs(sv[1:10].reshape(e_.shape) - e_).max()))
        worst_s = max(worst_s, float(np.abs(sv[10:19].reshape(e_.shape) - sig).max()))
    if eps_seen:
        sc = max(float(path.max()), 1e-6)
        rec.close("stored-user-state=strain-path-length-over-the-converged-substeps", worst_p / sc, 1e-7, {"substeps": nok})
        rec.close("stored-strain=converged-strain", worst_e / sc, 1e-9)
        rec.close("stored-stress=stress-of-the-converged-strain", worst_s / (sc * (2 * mu + 3 * lm)), 1e-7)
        rec.require("state-after-the-job=state-of-the-last-converged-substep", np.array_equal(np.array(body.results.statevars, float), state_seen[-1]))
    if raised:
        rec.label("failure-injected")


def ramp_strategy(kind, tier):
    return st.fixed_dictionaries({"n": st.lists(st.integers(2, 3), min_size=3, max_size=3), "seed": st.integers(0, 2**16), "mu": fl(0.5, 2),
                                  "ramp": st_ramp(6 if tier == "quick" else 10), "r0": st.sampled_from([0.0, 0.4, 1.3])})


def ramp_check(kind, case, rec):
    """items whose values are ramped by a Step (Step calls item.update(value_i) in the i-th substep): the load assembled for
    the converged i-th substep is the load of the i-th ramp value (with every flag / scale the item was created with)"""
    fem = import_felupe()
    axi = kind.endswith("axi")
    rng = np.random.default_rng(case["seed"])
    if axi:
        mesh = fem.Rectangle(a=(0.0, case["r0"]), b=(1.0, case["r0"] + 0.8), n=tuple(k + 1 for k in case["n"][:2]))
        region = fem.RegionQuad(mesh)
        fc = fem.FieldContainer([fem.FieldAxisymmetric(region, dim=2)])
        dim = 2
    else:
        mesh = fem.Cube(b=(1.0, 0.8, 0.6), n=tuple(case["n"]))
        region = fem.RegionHexahedron(mesh)
        fc = fem.FieldContainer([fem.Field(region, dim=3)])
        dim = 3
    X = np.array(mesh.points)
    body = fem.SolidBody(fem.NeoHooke(mu=case["mu"], bulk=5.0), fc)
    bounds = {"fix": fem.Boundary(fc[0], fx=0.0)}
    right = np.where(np.isclose(X[:, 0], X[:, 0].max()))[0]
    pts = np.sort(rng.choice(right, size=min(3, len(right)), replace=False))
    amp = 0.05
    ramp = [amp * v for v in case["ramp"]]
    direction = rng.uniform(-1, 1, (len(pts), dim))
    if kind.startswith("pointload"):
        item = fem.PointLoad(fc, points=pts, values=0.0 * direction, axisymmetric=axi)
        table = np.array([v * direction for v in ramp])
    elif kind == "formitem":
        # a weak-form item with several keyword arguments; the ramped one is addressed by its index (ramp_item) or by name
        from felupe.math import dot  # noqa

        gdir = np.zeros(dim)
        gdir[:] = rng.uniform(-1, 1, dim)
        which = case["seed"] % 3  # 0: first by index (default), 1: second by index, 2: by name

        @fem.Form(v=fc)
        def lform():
            def L(v, value, multiplier, **kw):
                f_ = (value if which != 1 else multiplier) * (multiplier if which != 1 else value)
                return -f_ * sum(gdir[i_] * v[i_] for i_ in range(dim))

            return [L]

        kwf = {"value": 0.0, "multiplier": 3.0} if which != 1 else {"value": 3.0, "multiplier": 0.0}
        item = fem.FormItem(linearform=lform, kwargs=kwf, ramp_item=(0, 1, "value")[which])
        table = np.array(ramp)
        rec.label("formitem-ramp_item=%s" % (["index 0", "index 1", "name"][which]))
    else:
        dens = 1.7
        item = fem.SolidBodyGravity(fc, gravity=[0.0] * 3, density=dens)
        g = np.zeros(3)
        g[:dim] = rng.uniform(-1, 1, dim)
        table = np.array([v * g for v in ramp])
        if (case["seed"] + len(ramp) + case["n"][0]) % 2 == 0 and len(ramp) >= 2:
            # gravity along the FIRST axis, the table of ramp rows built by the library's own helper as in its examples:
            # linsteps(values, num=1, axis=0, axes=3) -> rows (value_i, 0, 0)
            g[1:] = 0.0
            table = np.array([v * g for v in ramp])
            made = np.asarray(fem.math.linsteps([v * g[0] for v in ramp], num=1, axis=0, axes=3))
            if not rec.require("linsteps(axis=0, axes=3)-gives-the-rows-(value_i, 0, 0)", made.shape == table.shape and bool(np.allclose(made, table, rtol=0, atol=1e-15)), str(made.shape)):
                return
            table = made
            rec.label("ramp-table-from-linsteps(axis=0)")
    step = fem.Step(items=[body, item], ramp={item: table}, boundaries=bounds)
    rec.nontrivial = len(ramp) >= 2
    n = 0
    iters = []
    try:
        for i, res in enumerate(step.generate(tol=1e-9)):
            n += 1
            iters.append(int(res.iterations))
            f = np.asarray(item.assemble.vector(res.x).toarray()).reshape(-1, dim)
            if kind == "formitem":
                V = float(region.dV.sum())
                ref = -3.0 * table[i] * gdir * V
                rec.close("load-of-substep-i=load-of-ramp-value-i", float(np.abs(f.sum(0) - ref).max()), 1e-12 * max(1.0, float(np.abs(ref).max())), {"substep": i})
                rec.require("other-keyword-arguments-untouched", item.kwargs[("multiplier", "value", "multiplier")[which]] == 3.0, dict(item.kwargs))
            elif kind.startswith("pointload"):
                ref = np.zeros_like(f)
                ref[pts] = table[i] * (2 * np.pi * X[pts, 1:2] if axi else 1.0)
                rec.close("load-of-substep-i=load-of-ramp-value-i", float(np.abs(f - ref).max()), 1e-13 * max(1.0, float(np.abs(ref).max())), {"substep": i})
            else:
                V = float(region.dV.sum())
                ref = dens * table[i][:dim] * V
                rec.close("load-of-substep-i=load-of-ramp-value-i", float(np.abs(f.sum(0) - ref).max()), 1e-12 * max(1.0, float(np.abs(ref).max())), {"substep": i})
    except ValueError:
        rec.label("natural-failure")
        return
    rec.require("yield-count", n == len(ramp), [n, len(ramp)])
    # an iteration limit that is exactly the number of iterations the hardest substep needs: still one result per substep
    if iters and kind != "formitem":
        for f_ in fc.fields:
            f_.values[...] = 0.0
        body2 = fem.SolidBody(fem.NeoHooke(mu=case["mu"], bulk=5.0), fc)
        item.update(table[0] * 0)
        step2 = fem.Step(items=[body2, item], ramp={item: table}, boundaries=bounds)
        try:
            n2 = len(list(step2.generate(tol=1e-9, maxiter=max(iters))))
        except ValueError:
            n2 = -1
        rec.require("maxiter=needed-iterations:all-substeps-yielded", n2 == len(ramp), {"yielded": n2, "substeps": len(ramp), "maxiter": max(iters)})
    # a step without a ramp is one substep with the items and boundaries as they are (the last ramp value stays applied)
    x_before = np.concatenate([f.values.ravel() for f in fc.fields]).copy()
    out = list(fem.Step(items=[body, item], boundaries=bounds).generate(tol=1e-9))
    rec.require("step-without-ramp:one-substep", len(out) == 1, len(out))
    if len(out) == 1:
        x_after = np.concatenate([f.values.ravel() for f in out[0].x.fields])
        rec.close("step-without-ramp:state-is-already-the-solution", float(np.abs(x_after - x_before).max()), 1e-7)


FAMILIES = [
    Family("ramped-items", ["pointload", "pointload-axi", "gravity", "formitem"], ramp_check, strategy=ramp_strategy, n={"quick": 6, "thorough": 150}, chunk=3),
    Family("user-strain-material", ["path-length"], ustrain_check, strategy=ustrain_strategy, n={"quick": 8, "thorough": 200}, chunk=4),
    Family("history", CLASSES, check, strategy=strategy, n={"quick": 8, "thorough": 200}, chunk=4, weight=4),
    Family("job", ["job", "curve"], job_check, strategy=job_strategy, n={"quick": 10, "thorough": 200}, chunk=5, weight=2),
]

LEVEL_TEXT = (
    "Load histories (steps x ramps x injected failures) are generated by Hypothesis and executed through Step / Job; a "
    "reference model of the history (ramp cursor, committed state, running maximum energy, plastic strain) is advanced "
    "in lock-step and compared after every yielded substep."
)
LEVEL_NOTE = "materials' stress updates are trusted here (C03); histories of <= 3 steps x 6 substeps on <= 8-cell meshes"
TECHNIQUE = "stateful / model-based property testing (Hypothesis-generated histories, invariants after every step)"
