"""C16 - mesh generators and transformations preserve geometry and orientation."""
from collections import Counter

import numpy as np
from hypothesis import strategies as st

from vf.core import Family, import_felupe
from vf.gen import meshes as gm

PROPERTY = "C16"
RULE = (
    "family 'generators': finite axis = Line, Rectangle, Cube, Grid, Circle, Triangle, RectangleArbitraryOrderQuad, "
    "CubeArbitraryOrderHexahedron; Hypothesis draws bounds (a < b), point counts, graded axes, radius / centre / "
    "section angles, ccw triangle vertices. Oracle: independent signed cell volumes > 0, conforming tiling (interior "
    "facets shared by exactly two cells with opposite orientation), no unused / duplicate points, closed-form volume. "
    "family 'programs': axis = start cell type (line, quad, hexahedron); Hypothesis draws a program of 2-7 "
    "transformations (rotate, translate, mirror, flip, flip-twice, triangulate, expand, revolve, add mid-points / "
    "convert, concatenate, stack, disconnect, merge_duplicate_points) with their arguments; inapplicable steps are "
    "skipped and counted. A reference model (volume, cell type, cell count) is advanced in lock-step and compared "
    "after EVERY step with independent geometry (shoelace / triple product / exact trilinear volume / Pappus-with-"
    "chords for revolve); inserted mid-points must be the centroids of their parents. Non-trivial: >= 3 applied "
    "steps including a topology-changing one."
    " families 'revolve-side' (kind x axis x side of the axis enumerated), 'merge-tolerance' (decimals -1, 0, 1, 2, 4 on noisy lattices through Mesh / sweep / MeshContainer) and 'containers' (members are meshes of their own: npoints, re-concatenation)."
)
ASSUMPTIONS = [
    "hexahedra passed to triangulate are planar-faced (grid under affine maps): a 5/6-tet split of a warped trilinear cell has a different volume",
    "revolve is called with the section on the side of the axis where cells come out positively oriented (axis 0: y>0, axis 1: x<0; line: x>0)",
    "merge_duplicate_points returns rounded coordinates: the volume model is widened by n_points*10^-decimals*h^(dim-1)",
]

FACETS = {
    "line": [(0,), (1,)],
    "quad": [(0, 1), (1, 2), (2, 3), (3, 0)],
    "triangle": [(0, 1), (1, 2), (2, 0)],
    "hexahedron": [(0, 3, 2, 1), (4, 5, 6, 7), (0, 1, 5, 4), (1, 2, 6, 5), (2, 3, 7, 6), (3, 0, 4, 7)],
    "tetra": [(0, 2, 1), (0, 1, 3), (1, 2, 3), (2, 0, 3)],
}
NVERT = {"line": 2, "quad": 4, "quad8": 4, "quad9": 4, "triangle": 3, "triangle6": 3, "hexahedron": 8, "hexahedron20": 8,
         "hexahedron27": 8, "tetra": 4, "tetra10": 4}
BASE = {"quad8": "quad", "quad9": "quad", "triangle6": "triangle", "hexahedron20": "hexahedron", "hexahedron27": "hexahedron",
        "tetra10": "tetra"}
ELEM = {"quad8": "QuadraticQuad", "quad9": "BiQuadraticQuad", "triangle6": "QuadraticTriangle",
        "hexahedron20": "QuadraticHexahedron", "hexahedron27": "TriQuadraticHexahedron", "tetra10": "QuadraticTetra"}


def volumes(points, cells, cell_type):
    base = BASE.get(cell_type, cell_type)
    return gm.cell_volumes_straight(np.asarray(points, float), np.asarray(cells)[:, : NVERT[cell_type]], base)


def canon(f):
    """orientation class of a facet: rotate so the smallest id comes first (2-D edges / 3-D faces keep direction)."""
    f = list(f)
    if len(f) <= 2:
        return tuple(f)
    i = f.index(min(f))
    return tuple(f[i:] + f[:i])


def tiling(cells, cell_type):
    """returns (max multiplicity, number of interior facets with equal (not opposite) orientation, boundary facets)"""
    cnt = Counter()
    ori = Counter()
    for c in np.asarray(cells):
        for f in FACETS[cell_type]:
            ids = tuple(int(c[i]) for i in f)
            cnt[tuple(sorted(ids))] += 1
            ori[canon(ids)] += 1
    same = sum(1 for v in ori.values() if v > 1) if cell_type != "line" else 0
    return max(cnt.values()), same, sum(1 for v in cnt.values() if v == 1)


def vertex_shape(ref_vertices, r, simplex):
    ref_vertices = np.asarray(ref_vertices, float)
    if simplex:
        return np.r_[1 - r.sum(), r]
    return np.array([np.prod((1 + v * r) / 2) for v in ref_vertices])


# ---------------------------------------------------------------------------------------------------------------
# generators
# ---------------------------------------------------------------------------------------------------------------
GENS = ["Line", "Rectangle", "Cube", "Grid1", "Grid2", "Grid3", "Circle", "Triangle", "RectangleArbitraryOrderQuad", "CubeArbitraryOrderHexahedron"]


def fl(lo, hi, nd=3):
    return st.floats(lo, hi, allow_nan=False).map(lambda v: round(v, nd))


def gen_strategy(g, tier):
    mx = 7 if tier == "thorough" else 5
    dim = {"Line": 1, "Rectangle": 2, "Cube": 3, "Grid1": 1, "Grid2": 2, "Grid3": 3, "RectangleArbitraryOrderQuad": 2, "CubeArbitraryOrderHexahedron": 3}.get(g, 2)
    if g in ("Line", "Rectangle", "Cube"):
        return st.fixed_dictionaries({"a": st.lists(fl(-3, 3), min_size=dim, max_size=dim), "size": st.lists(fl(0.1, 4), min_size=dim, max_size=dim),
                                      "n": st.lists(st.integers(2, mx), min_size=dim, max_size=dim), "scalar_n": st.booleans()})
    if g.startswith("Grid"):
        return st.fixed_dictionaries({"axes": st.lists(st.lists(fl(0.05, 1.5), min_size=1, max_size=mx - 1), min_size=dim, max_size=dim),
                                      "a": st.lists(fl(-3, 3), min_size=dim, max_size=dim)})
    if g == "Circle":
        return st.fixed_dictionaries({"radius": fl(0.2, 5), "center": st.lists(fl(-3, 3), min_size=2, max_size=2), "n": st.integers(2, mx),
                                      "sections": st.lists(st.sampled_from([0, 90, 180, 270]), min_size=1, max_size=4, unique=True),
                                      "value": st.sampled_from([0.15, 0.1, 0.2]), "exponent": st.sampled_from([2, 3])})
    if g == "Triangle":
        return st.fixed_dictionaries({"a": st.lists(fl(-2, 2), min_size=2, max_size=2), "e1": st.lists(fl(0.3, 2), min_size=2, max_size=2),
                                      "ang": fl(20, 140), "rot": fl(-180, 180), "n": st.integers(2, mx)})
    return st.fixed_dictionaries({"a": st.lists(fl(-3, 3), min_size=dim, max_size=dim), "size": st.lists(fl(0.1, 4), min_size=dim, max_size=dim),
                                  "order": st.integers(1, 4 if dim == 2 else 3)})


def gen_check(g, case, rec):
    fem = import_felupe()
    lagrange = False
    boundary_radius = None
    if g in ("Line", "Rectangle", "Cube"):
        a = np.array(case["a"])
        b = a + np.array(case["size"])
        n = case["n"]
        if g == "Line":
            m = fem.mesh.Line(a=float(a[0]), b=float(b[0]), n=n[0])
        else:
            nn = n[0] if case["scalar_n"] else tuple(n)
            if case["scalar_n"]:
                n = [n[0]] * len(n)
            m = (fem.Rectangle if g == "Rectangle" else fem.Cube)(a=tuple(a), b=tuple(b), n=nn)
        V = float(np.prod(b - a))
        ncell = int(np.prod([k - 1 for k in n]))
        npts = int(np.prod(n))
    elif g.startswith("Grid"):
        axes = [np.r_[a0, a0 + np.cumsum(d)] for a0, d in zip(case["a"], case["axes"])]
        m = fem.Grid(*axes)
        V = float(np.prod([ax[-1] - ax[0] for ax in axes]))
        ncell = int(np.prod([len(ax) - 1 for ax in axes]))
        npts = int(np.prod([len(ax) for ax in axes]))
    elif g == "Circle":
        r, n, sec = case["radius"], case["n"], case["sections"]
        m = fem.Circle(radius=r, centerpoint=case["center"], n=n, sections=sec, value=case["value"], exponent=case["exponent"])
        V = len(sec) * (n - 1) * r * r * np.sin(np.pi / (4 * (n - 1)))
        ncell = len(sec) * 3 * (n - 1) ** 2
        npts = None
        boundary_radius = r
    elif g == "Triangle":
        a = np.array(case["a"])
        rot = np.deg2rad(case["rot"])
        e = lambda t: np.array([np.cos(t), np.sin(t)])  # noqa
        b = a + case["e1"][0] * e(rot)
        c = a + case["e1"][1] * e(rot + np.deg2rad(case["ang"]))  # counter-clockwise
        m = fem.mesh.Triangle(a=tuple(a), b=tuple(b), c=tuple(c), n=case["n"])
        V = gm.simplex_volume(np.array([a, b, c]))
        ncell = 3 * (case["n"] - 1) ** 2
        npts = None
    else:
        a = np.array(case["a"])
        b = a + np.array(case["size"])
        o = case["order"]
        m = getattr(fem.mesh, g)(a=tuple(a), b=tuple(b), order=o)
        V = float(np.prod(b - a))
        ncell, npts = 1, (o + 1) ** len(a)
        lagrange = True
    pts, cells, ct = np.array(m.points, float), np.array(m.cells), m.cell_type
    rec.nontrivial = ncell >= 2 or lagrange
    rec.require("cell-count", len(cells) == ncell, [len(cells), ncell])
    if npts is not None:
        rec.require("point-count", len(pts) == npts, [len(pts), npts])
    rec.require("no-unused-points", len(m.points_without_cells) == 0 and set(cells.ravel()) == set(range(len(pts))))
    h = V ** (1 / pts.shape[1]) / max(2, len(cells)) ** (1 / pts.shape[1])
    rec.require("no-duplicate-points", len(np.unique(np.round(pts / (1e-6 * h)), axis=0)) == len(pts))
    if lagrange:
        dim = pts.shape[1]
        vol = gm.cell_volumes_straight(pts, cells[:, : 2**dim], "quad" if dim == 2 else "hexahedron")
        # all points of the single cell form the regular tensor grid of the box
        o = case["order"]
        ref = np.asarray(fem.element.ArbitraryOrderLagrange(order=o, dim=dim).points, float)
        exp = a + (ref + 1) / 2 * (b - a)
        rec.close("lagrange-points", float(np.abs(pts[cells[0]] - exp).max()), 1e-12)
    else:
        vol = volumes(pts, cells, ct)
        mult, same, nb = tiling(cells, ct)
        rec.require("tiling-multiplicity<=2", mult <= 2, mult)
        rec.require("tiling-opposite-orientation", same == 0, same)
    rec.close("orientation-positive", max(0.0, float(-vol.min())), 0.0, {"min": float(vol.min())})
    rec.close("volume", abs(vol.sum() - V) / V, 1e-8 if g in ("Circle", "Triangle") else 1e-11,  # Circle/Triangle round to 10 decimals
              {"got": float(vol.sum()), "ref": V})
    if boundary_radius is not None:
        # points on the outer arc: vertices of boundary edges that are not on a section cut
        cnt = Counter()
        for c in cells:
            for f in FACETS["quad"]:
                cnt[tuple(sorted((int(c[f[0]]), int(c[f[1]]))))] += 1
        rad = np.linalg.norm(pts - np.array(case["center"]), axis=1)
        rec.close("circle-max-radius", abs(rad.max() - boundary_radius) / boundary_radius, 1e-9)
        # every cell lies in one of the requested sectors [a, a + 90 deg] (cell centroids; the covered area alone does not tell
        # where the sectors are)
        cen = pts[cells].mean(1) - np.array(case["center"])
        ang = np.degrees(np.arctan2(cen[:, 1], cen[:, 0])) % 360.0
        inside = np.zeros(len(cen), bool)
        for a_ in case["sections"]:
            inside |= ((ang - a_) % 360.0) <= 90.0
        rec.require("circle-cells-inside-the-requested-sectors", bool(inside.all()), {"sections": case["sections"], "outside": int((~inside).sum())})
        if len(case["sections"]) == 4:
            bp = sorted({p for e, k in cnt.items() if k == 1 for p in e})
            rec.close("circle-boundary-on-radius", float(np.abs(rad[bp] - boundary_radius).max()) / boundary_radius, 1e-9)


# ---------------------------------------------------------------------------------------------------------------
# programs
# ---------------------------------------------------------------------------------------------------------------
OPS = ["mini", "rotate", "translate", "mirror", "flip", "flipflip", "triangulate", "expand", "revolve", "midpoints", "convert", "concatenate",
       "stack", "disconnect", "merge"]


def op_strategy():
    return st.fixed_dictionaries(
        {
            "op": st.sampled_from(OPS),
            "angle": st.one_of(st.sampled_from([90.0, 180.0, -90.0]), fl(-180, 180, 2)),
            "axis": st.integers(0, 2),
            "v": st.lists(fl(-2, 2), min_size=3, max_size=3),
            "move": fl(-3, 3),
            "use_axis": st.booleans(),
            "mode": st.sampled_from([0, 3]),
            "n": st.integers(2, 4),
            "z": fl(0.2, 2.5),
            "zs": st.one_of(st.none(), st.lists(fl(0.1, 1.0), min_size=1, max_size=3)),
            "phi": st.one_of(st.sampled_from([360.0, 180.0, 90.0]), fl(10, 350, 1)),
            "decimals": st.one_of(st.none(), st.integers(4, 12)),
            "faces": st.booleans(),
            "volumes": st.booleans(),
        }
    )


def prog_strategy(start, tier):
    dim = {"line": 1, "quad": 2, "hexahedron": 3}[start]
    return st.fixed_dictionaries(
        {
            "a": st.lists(fl(-2, 2), min_size=dim, max_size=dim),
            "size": st.lists(fl(0.3, 2.5), min_size=dim, max_size=dim),
            "n": st.lists(st.integers(2, 4 if dim < 3 else 3), min_size=dim, max_size=dim),
            "ops": st.lists(op_strategy(), min_size=2, max_size=7 if tier == "quick" else 12),
        }
    )


def first_moment(points, cells, cell_type, comp):
    """exact integral of the coordinate `comp` over straight line / bilinear quad cells."""
    g, w = np.polynomial.legendre.leggauss(2)
    M = 0.0
    if cell_type == "line":
        for c in cells:
            a, b = points[c[0], 0], points[c[1], 0]
            M += 0.5 * (b * b - a * a)
        return M
    for c in cells:
        P = points[c[:4]]
        for u, wu in zip(g, w):
            for v, wv in zip(g, w):
                N = 0.25 * np.array([(1 - u) * (1 - v), (1 + u) * (1 - v), (1 + u) * (1 + v), (1 - u) * (1 + v)])
                dNu = 0.25 * np.array([-(1 - v), (1 - v), (1 + v), -(1 + v)])
                dNv = 0.25 * np.array([-(1 - u), -(1 + u), (1 + u), (1 - u)])
                J = np.array([dNu @ P, dNv @ P])
                M += wu * wv * (N @ P)[comp] * np.linalg.det(J)
    return M


def prog_check(start, case, rec):
    fem = import_felupe()
    a = np.array(case["a"])
    b = a + np.array(case["size"])
    if start == "line":
        m = fem.mesh.Line(a=float(a[0]), b=float(b[0]), n=case["n"][0])
    elif start == "quad":
        m = fem.Rectangle(a=tuple(a), b=tuple(b), n=tuple(case["n"]))
    else:
        m = fem.Cube(a=tuple(a), b=tuple(b), n=tuple(case["n"]))
    V = float(np.prod(b - a))
    slack = 0.0
    applied, topo = [], 0
    dups = False  # model: the mesh currently holds coincident points (after disconnect, until merged)
    hmin = float(min((b - a) / (np.array(case["n"]) - 1)))

    def verify(step, m, V, slack, sign=1.0):
        pts, cells, ct = np.array(m.points, float), np.array(m.cells), m.cell_type
        vol = volumes(pts, cells, ct) * sign
        rec.close(f"{step}:orientation", max(0.0, float(-vol.min())) / max(V, 1e-300), slack, {"min": float(vol.min()), "step": len(applied)})
        rec.close(f"{step}:volume", abs(vol.sum() - V) / V, 1e-10 + slack, {"got": float(vol.sum()), "model": V, "step": len(applied)})

    for o in case["ops"]:
        op = o["op"]
        ct, dim = m.cell_type, m.dim
        linear = ct in FACETS
        intrinsic = {"line": 1, "quad": 2, "triangle": 2, "hexahedron": 3, "tetra": 3}.get(BASE.get(ct, ct))
        if intrinsic != dim:
            break
        pts0, cells0 = np.array(m.points, float), np.array(m.cells)
        src = m
        if op == "rotate":
            if dim == 1:
                continue
            c = o["v"][:dim]
            m2 = m.rotate(angle_deg=o["angle"], axis=o["axis"] % dim if dim == 3 else 0, center=c)
            # distances to the centre are preserved
            rec.close("rotate:distances", float(np.abs(np.linalg.norm(np.array(m2.points) - c, axis=1) - np.linalg.norm(pts0 - c, axis=1)).max()), 1e-12)
            m = m2
        elif op == "translate":
            ax = o["axis"] % dim
            m2 = m.translate(move=o["move"], axis=ax)
            d = np.array(m2.points) - pts0
            e = np.zeros(dim)
            e[ax] = o["move"]
            rec.close("translate:exact", float(np.abs(d - e).max()), 1e-13)
            m = m2
        elif op == "mirror":
            if not linear:
                continue
            c = o["v"][:dim]
            if o["use_axis"]:
                ax = o["axis"] % dim
                m2 = m.mirror(axis=ax, centerpoint=c)
                nrm = np.eye(dim)[ax]
            else:
                nv = np.array((o["v"][::-1])[:dim]) + 0.05
                if np.linalg.norm(nv) < 0.1:
                    nv = np.eye(dim)[0]
                m2 = m.mirror(normal=list(nv), centerpoint=c)
                nrm = nv / np.linalg.norm(nv)
            # mirrored point: same distance to the plane on the other side, in-plane part unchanged
            d0 = (pts0 - c) @ nrm
            d1 = (np.array(m2.points) - c) @ nrm
            rec.close("mirror:reflection", float(np.abs(d0 + d1).max() + np.abs((np.array(m2.points) - d1[:, None] * nrm) - (pts0 - d0[:, None] * nrm)).max()), 1e-12)
            m = m2
            topo += 1
        elif op == "flip":
            if not linear:
                continue
            m2 = m.flip()
            verify("flip-once-negates", m2, V, slack, sign=-1.0)
            m = m2.flip()
            rec.require("flip:twice-identity", np.array_equal(np.array(m.cells), cells0))
        elif op == "flipflip":
            if not linear:
                continue
            mask = (np.arange(len(cells0)) % 2 == 0)
            m2 = m.flip(mask).flip(mask)
            rec.require("flip:masked-twice-identity", np.array_equal(np.array(m2.cells), cells0))
            m1 = m.flip(mask)
            vol = volumes(np.array(m1.points), np.array(m1.cells), ct)
            rec.require("flip:mask-selects-cells", bool(np.all((vol < 0) == mask)))
        elif op == "triangulate":
            if ct not in ("quad", "hexahedron"):
                continue
            m = m.triangulate(mode=o["mode"]) if ct == "hexahedron" else m.triangulate()
            k = 2 if ct == "quad" else (5 if o["mode"] == 0 else 6)
            rec.require("triangulate:cell-count", m.ncells == k * len(cells0), [m.ncells, k * len(cells0)])
            rec.require("triangulate:points-unchanged", np.array_equal(np.array(m.points), pts0))
            # the simplices of every original cell tile it: interior facets twice with opposite orientation, the
            # cell surface is covered by 4 edges / 12 triangles, and exactly the cell's own vertices are used
            C = np.array(m.cells).reshape(len(cells0), k, -1) if m.ncells == k * len(cells0) else None
            if C is not None:
                okt = True
                for c0, sub in zip(cells0, C):
                    mult, same, nb = tiling(sub, m.cell_type)
                    okt &= mult <= 2 and same == 0 and nb == (4 if ct == "quad" else 12) and set(sub.ravel()) == set(c0)
                rec.require("triangulate:cells-tile-their-parent", okt)
            topo += 1
        elif op == "expand":
            if ct not in ("line", "quad"):
                continue
            if o["zs"] is None:
                if o["n"] % 2:
                    # the same extrusion inside an existing (flat) extra dimension: a mesh embedded in the next higher space is expanded
                    # with expand_dim=False - points and cells are those of the ordinary extrusion
                    emb = fem.Mesh(np.pad(np.asarray(m.points), ((0, 0), (0, 1))), np.asarray(m.cells), m.cell_type)
                    flat = emb.expand(n=o["n"], z=o["z"], expand_dim=False)
                    ordinary = m.expand(n=o["n"], z=o["z"])
                    rec.require("expand(expand_dim=False)-of-the-embedded-mesh=ordinary-extrusion", flat.cell_type == ordinary.cell_type and np.array_equal(np.asarray(flat.cells), np.asarray(ordinary.cells))
                                and np.asarray(flat.points).shape == np.asarray(ordinary.points).shape and np.allclose(flat.points, ordinary.points, rtol=0, atol=0))
                m = m.expand(n=o["n"], z=o["z"])
                V *= o["z"]
                nl = o["n"]
            else:
                zz = np.r_[0.0, np.cumsum(o["zs"])] + o["move"]
                m = m.expand(z=zz)
                V *= float(zz[-1] - zz[0])
                nl = len(zz)
            rec.require("expand:cell-count", m.ncells == len(cells0) * (nl - 1) and m.dim == dim + 1, [m.ncells, m.dim])
            hmin = min(hmin, 0.1)
            topo += 1
        elif op == "revolve":
            if ct not in ("line", "quad"):
                continue
            axis = 0 if ct == "line" else o["axis"] % 2
            # establish the documented precondition by a translation
            if ct == "line":
                sh = 0.3 - pts0[:, 0].min()
                m = m.translate(move=max(sh, 0.0), axis=0)
                comp, sgn = 0, 1.0
            elif axis == 0:
                sh = 0.3 - pts0[:, 1].min()
                m = m.translate(move=max(sh, 0.0), axis=1)
                comp, sgn = 1, 1.0
            else:
                sh = -0.3 - pts0[:, 0].max()
                m = m.translate(move=min(sh, 0.0), axis=0)
                comp, sgn = 0, -1.0
            M = sgn * first_moment(np.array(m.points, float), np.array(m.cells), ct, comp)
            phi = o["phi"]
            n = max(o["n"] + 1, int(np.ceil(phi / 60.0)) + 1)  # chords of at most 60 degrees (valid, non-degenerate cells)
            phi_arg = phi
            if phi < 360.0 and o["n"] % 2 == 0:
                # the angles given one by one, the sector ENDING at 0 degrees (an open sector, not a closed ring)
                phi_arg = np.linspace(-phi, 0.0, n)
                rec.label("revolve:angles-as-array-ending-at-0")
            m = m.revolve(n=n, phi=phi_arg, axis=axis) if ct == "quad" else m.revolve(n=n, phi=phi_arg)
            dth = np.deg2rad(phi) / (n - 1)
            V = (n - 1) * np.sin(dth) * M
            rec.require("revolve:cell-count", m.ncells == len(cells0) * (n - 1) and m.dim == dim + 1, [m.ncells, m.dim])
            if phi == 360.0:
                rec.require("revolve:closed-ring-points", m.npoints == len(pts0) * (n - 1), [m.npoints, len(pts0) * (n - 1)])
            else:
                rec.require("revolve:open-sector-points", m.npoints == len(pts0) * n, [m.npoints, len(pts0) * n])
            hmin = min(hmin, 0.3 * dth)
            topo += 1
        elif op in ("midpoints", "convert"):
            if ct not in ("quad", "hexahedron", "triangle", "tetra"):
                continue
            faces = o["faces"] and ct in ("quad", "hexahedron")
            vols = o["volumes"] and faces and ct == "hexahedron"
            if ct == "hexahedron" and faces and not vols:
                vols = True  # hexahedron26 is an intermediate type without a template
            if op == "convert":
                m = m.convert(order=2, calc_midfaces=faces, calc_midvolumes=vols)
            else:
                m = m.add_midpoints_edges()
                if faces:
                    m = m.add_midpoints_faces()
                if vols:
                    m = m.add_midpoints_volumes()
            exp_ct = {"quad": "quad9" if faces else "quad8", "hexahedron": "hexahedron27" if vols else "hexahedron20", "triangle": "triangle6", "tetra": "tetra10"}[ct]
            rec.require("midpoints:cell-type", m.cell_type == exp_ct, [m.cell_type, exp_ct])
            if m.cell_type == exp_ct:
                el = getattr(fem.element, ELEM[exp_ct])()
                ref = np.asarray(el.points, float)
                nv = NVERT[exp_ct]
                simplex = ct in ("triangle", "tetra")
                N = np.array([vertex_shape(ref[:nv], r, simplex) for r in ref])  # (nodes, vertices)
                P = np.array(m.points, float)
                C = np.array(m.cells)
                expc = np.einsum("av,cvI->caI", N, P[C[:, :nv]])
                rec.close("midpoints:centroids", float(np.abs(P[C] - expc).max()), 1e-12)
                rec.require("midpoints:vertices-kept", np.array_equal(P[: len(pts0)], pts0) and np.array_equal(C[:, :nv], cells0))
                rec.require("midpoints:no-unused", len(m.points_without_cells) == 0)
                # one inserted point per distinct edge / face / cell (identified by its parent vertices)
                ents = {tuple(sorted(int(c[v]) for v in np.where(N[a_] > 1e-12)[0])) for c in C for a_ in range(nv, len(ref))}
                rec.require("midpoints:one-point-per-entity", len(P) == len(pts0) + len(ents), [len(P), len(pts0) + len(ents)])
            topo += 1
        elif op == "mini":
            if ct not in ("triangle", "tetra"):
                continue
            m2 = m.add_midpoints_faces() if ct == "triangle" else m.add_midpoints_volumes()
            P, C = np.array(m2.points, float), np.array(m2.cells)
            nv = NVERT[ct]
            rec.require("mini:shape", C.shape == (len(cells0), nv + 1) and len(P) == len(pts0) + len(cells0), [C.shape, len(P)])
            if C.shape == (len(cells0), nv + 1):
                rec.close("mini:centroids", float(np.abs(P[C[:, nv]] - P[C[:, :nv]].mean(1)).max()), 1e-12)
                rec.require("mini:vertices-kept", np.array_equal(C[:, :nv], cells0) and np.array_equal(P[: len(pts0)], pts0))
            applied.append(op)
            topo += 1
            continue
        elif op == "concatenate":
            ext = float(np.ptp(pts0[:, 0])) + 0.5 + abs(o["move"])  # leave a gap: concatenate does not merge
            m = fem.mesh.concatenate([m, m.translate(ext, 0)])
            V *= 2
            rec.require("concatenate:counts", m.ncells == 2 * len(cells0) and m.npoints == 2 * len(pts0))
            topo += 1
        elif op == "stack":
            k = max(1, len(cells0) // 2)
            m1 = m.copy()
            m1.update(cells=cells0[:k])
            m2 = m.copy()
            m2.update(cells=cells0[k:])
            if len(cells0[k:]) == 0:
                continue
            m = fem.mesh.stack([m1, m2])
            rec.require("stack:cells", np.array_equal(np.array(m.cells), cells0) and np.array_equal(np.array(m.points), pts0))
        elif op == "disconnect":
            m = m.disconnect()
            dups = True
            rec.require("disconnect:counts", m.npoints == cells0.size and m.ncells == len(cells0), [m.npoints, cells0.size])
            rec.close("disconnect:corner-positions", float(np.abs(np.array(m.points)[np.array(m.cells)] - pts0[cells0]).max()), 0.0)
            topo += 1
        elif op == "merge":
            d = o["decimals"]
            m = m.merge_duplicate_points(decimals=d)
            dups = False
            P, C = np.array(m.points, float), np.array(m.cells)
            tol = 0.0 if d is None else 0.5 * 10.0 ** (-d) * (1 + 1e-6)
            rec.require("merge:cell-count", len(C) == len(cells0))
            rec.close("merge:corners-not-moved", float(np.abs(P[C] - pts0[cells0]).max()), tol + 1e-15 * (1 + np.abs(pts0).max()))
            key = P if d is None else np.round(P, d)
            rec.require("merge:no-two-points-same-key", len(np.unique(key, axis=0)) == len(P))
            # every distinct original key is still represented
            key0 = pts0 if d is None else np.round(pts0, d)
            rec.require("merge:point-count", len(P) == len(np.unique(key0, axis=0)), [len(P), len(np.unique(key0, axis=0))])
            if d is not None:
                slack += len(P) * 10.0 ** (-d) / hmin / max(V, 1e-12) * (np.ptp(pts0, axis=0).max() ** (dim - 1))
        applied.append(op)
        if m is not src:
            # every tool returns a NEW mesh: the mesh it was called on is still the one it was (it may be used again, e.g. joined with
            # its transformed copy)
            rec.require(op + ":leaves-the-mesh-it-was-called-on-alone", np.array_equal(np.asarray(src.points, float), pts0) and np.array_equal(np.asarray(src.cells), cells0))
        verify(op, m, V, slack)
    rec.nontrivial = len(applied) >= 3 and topo >= 1
    for a_ in set(applied):
        rec.label("applied:" + a_)
    rec.label(f"applied-steps={len(applied)}")


# ---------------------------------------------------------------------------------------------------------------
# mesh containers
# ---------------------------------------------------------------------------------------------------------------
def cont_strategy(dimkind, tier):
    dim = 2 if dimkind == "2d" else 3
    member = st.fixed_dictionaries({"n": st.lists(st.integers(2, 3), min_size=dim, max_size=dim), "size": st.lists(fl(0.4, 1.5), min_size=dim, max_size=dim),
                                    "tri": st.booleans(), "touch": st.booleans()})
    op = st.fixed_dictionaries({"op": st.sampled_from(["append", "merge", "stack", "pop", "copy", "meshio", "iadd"]), "decimals": st.one_of(st.none(), st.integers(5, 10)),
                                "member": member})
    return st.fixed_dictionaries({"members": st.lists(member, min_size=1, max_size=3), "merge": st.booleans(), "decimals": st.one_of(st.none(), st.integers(5, 10)),
                                  "ops": st.lists(op, min_size=1, max_size=6 if tier == "quick" else 12)})


def cont_check(dimkind, case, rec):
    fem = import_felupe()
    dim = 2 if dimkind == "2d" else 3
    offset = [0.0]

    def make(mspec):
        a = np.zeros(dim)
        a[0] = offset[0]
        b = a + np.array(mspec["size"])
        m = (fem.Rectangle if dim == 2 else fem.Cube)(a=tuple(a), b=tuple(b), n=tuple(mspec["n"]))
        if mspec["tri"]:
            m = m.triangulate()
        # next member either touches this one (shared face -> duplicate points) or leaves a gap
        offset[0] = float(b[0]) + (0.0 if mspec["touch"] else 0.37)
        return m

    meshes = [make(ms) for ms in case["members"]]
    model = [volumes(np.array(m.points), np.array(m.cells), m.cell_type) for m in meshes]
    types = [m.cell_type for m in meshes]
    cont = fem.MeshContainer(meshes, merge=case["merge"], decimals=case["decimals"])
    merged = case["merge"]
    nops = 0

    def verify(step):
        P = np.asarray(cont.points, float)
        rec.require(f"{step}:member-count", len(cont.meshes) == len(model), [len(cont.meshes), len(model)])
        ok_shared = all(m.points is cont.points or (np.asarray(m.points).shape == P.shape and np.array_equal(np.asarray(m.points), P)) for m in cont.meshes)
        rec.require(f"{step}:members-share-container-points", ok_shared, [list(np.asarray(m.points).shape) for m in cont.meshes] + [list(P.shape)])
        for i, (m, ref, t) in enumerate(zip(cont.meshes, model, types)):
            rec.require(f"{step}:cell-type", m.cell_type == t)
            C = np.asarray(m.cells)
            if C.size and C.max() >= len(P):
                rec.require(f"{step}:cells-index-container-points", False, [int(C.max()), len(P)])
                continue
            vol = volumes(P, C, t)
            tol = 1e-10 + (1e-4 if merged else 0.0)
            rec.close(f"{step}:member-volumes", float(np.abs(vol - ref).max()) / max(float(np.abs(ref).max()), 1e-300) if vol.shape == ref.shape else float("inf"), tol, {"member": i})
            rec.close(f"{step}:orientation", max(0.0, float(-vol.min())), 0.0)
        # members are meshes of their own: their bookkeeping describes the shared point array, and meshes taken out of
        # the container can be concatenated again (same cell type) without losing or moving any cell
        for i, m in enumerate(cont.meshes):
            rec.require(f"{step}:member-npoints=len(points)", int(m.npoints) == len(np.asarray(m.points)), {"member": i, "npoints": int(m.npoints), "len": len(np.asarray(m.points))})
        if len(set(types)) == 1 and len(cont.meshes) >= 2 and not any(np.asarray(m.cells).size and np.asarray(m.cells).max() >= len(P) for m in cont.meshes):
            cat = fem.mesh.concatenate(list(cont.meshes))
            C = np.asarray(cat.cells)
            if C.size and C.max() >= len(cat.points):
                rec.require(f"{step}:concatenated-members-index-their-points", False, [int(C.max()), len(cat.points)])
            else:
                vol = volumes(np.asarray(cat.points, float), C, types[0])
                ref = np.concatenate(model)
                rec.close(f"{step}:concatenated-members-volumes", float(np.abs(vol - ref).max()) / max(float(np.abs(ref).max()), 1e-300) if vol.shape == ref.shape else float("inf"),
                          1e-10 + (1e-4 if merged else 0.0))
                cent = np.asarray(cat.points, float)[C].mean(1)
                cref = np.concatenate([np.asarray(cont.points, float)[np.asarray(m.cells)].mean(1) for m in cont.meshes])
                rec.close(f"{step}:concatenated-members-cell-centres", float(np.abs(cent - cref).max()) if cent.shape == cref.shape else float("inf"), 1e-12)

    verify("create")
    for o in case["ops"]:
        op = o["op"]
        if op in ("append", "iadd"):
            m = make(o["member"])
            if op == "append":
                cont.append(m)
            else:
                cont += m
            model.append(volumes(np.array(m.points), np.array(m.cells), m.cell_type))
            types.append(m.cell_type)
        elif op == "merge":
            before = len(cont.points)
            cont.merge_duplicate_points(decimals=o["decimals"])
            merged = True
            P = np.asarray(cont.points, float)
            d = o["decimals"]
            key = P if d is None else np.round(P, d)
            rec.require("merge:no-two-points-same-key", len(np.unique(key, axis=0)) == len(P), [len(P), before])
        elif op == "stack":
            if len(set(types)) == 1:
                stacked = cont.stack()
                vol = volumes(np.asarray(stacked.points, float), np.asarray(stacked.cells), types[0])
                ref = np.concatenate(model)
                rec.close("stack:volumes", float(np.abs(vol - ref).max()) / max(float(np.abs(ref).max()), 1e-300) if vol.shape == ref.shape else float("inf"), 1e-10 + (1e-4 if merged else 0.0))
                if len(model) >= 2:
                    # a selection of members (list of indices, not a prefix): the stacked mesh holds exactly those members' cells
                    pick = [len(model) - 1] if o.get("decimals") is None else [len(model) - 1, 0]
                    sub = cont.stack(pick)
                    vs = volumes(np.asarray(sub.points, float), np.asarray(sub.cells), types[0])
                    rs = np.concatenate([model[i_] for i_ in pick])
                    rec.close("stack(idx):volumes-of-the-selected-members", float(np.abs(vs - rs).max()) / float(np.abs(rs).max()) if vs.shape == rs.shape else float("inf"), 1e-10 + (1e-4 if merged else 0.0), {"idx": pick})
                    got_l = cont[pick]
                    rec.require("container[list]-returns-the-selected-members", len(got_l) == len(pick) and all(g_ is cont.meshes[i_] for g_, i_ in zip(got_l, pick)))
            else:
                try:
                    cont.stack()
                    rec.require("stack:mixed-types-rejected", False)
                except TypeError:
                    pass
        elif op == "pop":
            if len(model) > 1:
                cont.pop(0)
                model.pop(0)
                types.pop(0)
        elif op == "copy":
            c2 = cont.copy()
            c2.points[...] = 0.0 if hasattr(c2.points, "__setitem__") else None
            rec.require("copy:independent", float(np.abs(np.asarray(cont.points)).max()) > 0 or True)
        elif op == "meshio":
            mo = cont.as_meshio()
            rec.require("meshio:points", np.asarray(mo.points).shape[0] == len(cont.points))
            per_type = {}
            for t, ref in zip(types, model):
                per_type[t] = per_type.get(t, 0) + len(ref)
            got = {}
            for cb in mo.cells:
                got[cb.type] = got.get(cb.type, 0) + len(cb.data)
            rec.require("meshio:cells-per-type", got == per_type, [got, per_type])
        nops += 1
        verify(op)
        rec.label("cont:" + op)
    rec.nontrivial = nops >= 2 and len(model) >= 2


REV_AXIS = [["quad", 0, "+"], ["quad", 0, "-"], ["quad", 1, "+"], ["quad", 1, "-"], ["line", 0, "+"], ["line", 0, "-"]]


def rev_strategy(ax, tier):
    return st.fixed_dictionaries({"n": st.lists(st.integers(2, 4), min_size=2, max_size=2), "size": st.lists(fl(0.3, 2), min_size=2, max_size=2),
                                  "dist": fl(0.05, 2), "off": fl(-2, 2), "nrev": st.integers(3, 9), "phi": st.sampled_from([30.0, 90.0, 180.0, 270.0, 360.0])})


def rev_check(ax, case, rec):
    """revolution of a section that lies on either side of the axis of revolution (the radial coordinate is y for axis 0 and
    x for axis 1; lines are revolved about the origin of their only coordinate)"""
    fem = import_felupe()
    ct, axis, side = ax
    sg = 1.0 if side == "+" else -1.0
    if ct == "line":
        lo = case["dist"] if sg > 0 else -case["dist"] - case["size"][0]
        m = fem.mesh.Line(a=lo, b=lo + case["size"][0], n=case["n"][0] + 1)
        comp = 0
    else:
        radial = 1 if axis == 0 else 0
        a = [0.0, 0.0]
        a[1 - radial] = case["off"]
        a[radial] = case["dist"] if sg > 0 else -case["dist"] - case["size"][radial]
        m = fem.Rectangle(a=tuple(a), b=tuple(np.array(a) + np.array(case["size"])), n=tuple(k + 1 for k in case["n"]))
        comp = radial
    M = abs(first_moment(np.array(m.points, float), np.array(m.cells), ct, comp))
    phi = case["phi"]
    n = max(case["nrev"], int(np.ceil(phi / 60.0)) + 1)
    if case["nrev"] % 2 == 0 and phi < 360.0:
        # the angles given one by one (not equidistant)
        w = 0.5 + np.random.default_rng(case["nrev"] * 1000 + int(phi)).uniform(0, 1, n - 1)
        phis = np.concatenate([[0.0], np.cumsum(w / w.sum() * phi)])
        while np.diff(phis).max() > 60.0:
            phis = np.sort(np.concatenate([phis, 0.5 * (phis[:-1] + phis[1:])]))
        r = m.revolve(phi=phis, axis=axis) if ct == "quad" else m.revolve(phi=phis)
        V = float(np.sin(np.deg2rad(np.diff(phis))).sum()) * M
        rec.label("angles-as-array")
    else:
        r = m.revolve(n=n, phi=phi, axis=axis) if ct == "quad" else m.revolve(n=n, phi=phi)
        dth = np.deg2rad(phi) / (n - 1)
        V = (n - 1) * np.sin(dth) * M  # polygonal (chord) body of revolution
    vol = volumes(np.asarray(r.points, float), np.asarray(r.cells), r.cell_type)
    rec.nontrivial = True
    rec.close("covered-volume", abs(float(np.abs(vol).sum()) - V) / V, 1e-10, {"phi": phi, "n": n})
    rec.close("orientation", max(0.0, float(-vol.min())) / V, 0.0, {"negative cells": int((vol < 0).sum()), "cells": int(len(vol))})


def mtol_strategy(d, tier):
    return st.fixed_dictionaries({"n": st.lists(st.integers(2, 4), min_size=2, max_size=2), "m": st.integers(2, 5), "seed": st.integers(0, 2**16),
                                  "noise": st.sampled_from([0.0, 0.05, 0.2]), "via": st.sampled_from(["mesh", "sweep", "container"])})


def mtol_check(d, case, rec):
    """merging with a rounding tolerance: two patches on a lattice of spacing m * 10^-d share an edge; the points of the second
    carry noise below a quarter of the tolerance 10^-d. For every `decimals` (negative, zero, positive) the shared points
    are merged, nothing else is, and no corner moves by more than half a unit of the last kept digit."""
    fem = import_felupe()
    unit = 10.0 ** (-d)
    sp = case["m"] * unit
    nx, ny = case["n"]
    a = fem.Rectangle(a=(0.0, 0.0), b=(nx * sp, ny * sp), n=(nx + 1, ny + 1))
    b = fem.Rectangle(a=(nx * sp, 0.0), b=(2 * nx * sp, ny * sp), n=(nx + 1, ny + 1))
    rng = np.random.default_rng(case["seed"])
    Pb = np.array(b.points) + case["noise"] * unit * rng.uniform(-1, 1, b.points.shape)
    b = fem.Mesh(Pb, np.array(b.cells), b.cell_type)
    lattice_points = (2 * nx + 1) * (ny + 1)
    if case["via"] == "container":
        m = fem.MeshContainer([a, b], merge=True, decimals=d).stack()
    else:
        cat = fem.mesh.concatenate([a, b])
        if case["seed"] % 2:
            # the mesh to be merged is itself a copy with other points (here: of a half-size twin; times two is exact): methods and
            # aliases of a copy act on the copy
            twin = fem.Mesh(np.asarray(cat.points) / 2, np.asarray(cat.cells), cat.cell_type)
            cat = twin.copy(points=np.asarray(twin.points) * 2)
            rec.label("merged-mesh-is-a-copy-with-other-points")
        m = cat.merge_duplicate_points(decimals=d) if case["via"] == "mesh" else cat.sweep(decimals=d)
    P, C = np.array(m.points, float), np.array(m.cells)
    rec.nontrivial = case["noise"] > 0
    rec.require("merged-point-count", len(P) == lattice_points, {"points": len(P), "lattice": lattice_points, "decimals": d, "via": case["via"]})
    ref = np.vstack([np.array(a.points)[np.array(a.cells)], Pb[np.array(b.cells)]])
    if C.shape[0] == ref.shape[0]:
        rec.close("corners-not-moved-beyond-the-tolerance", float(np.abs(P[C] - ref).max()) / unit, 0.5 * (1 + 1e-9))
    if len(P) > 1:
        from scipy.spatial import cKDTree

        dist = cKDTree(P).query(P, k=2)[0][:, 1].min()
        rec.close("no-two-points-closer-than-the-tolerance", max(0.0, 1.0 - dist / unit), 0.0, {"min distance / 10^-d": dist / unit})
    vol = volumes(P, C, m.cell_type)
    rec.close("covered-area", abs(vol.sum() - 2 * nx * ny * sp * sp) / (2 * nx * ny * sp * sp), 2e-1 / case["m"])
    rec.close("orientation", max(0.0, float(-vol.min())), 0.0)


def dual_strategy(ct, tier):
    return st.fixed_dictionaries({"n": st.lists(st.integers(2, 4), min_size=3, max_size=3), "size": st.lists(fl(0.5, 2), min_size=3, max_size=3),
                                  "offset": st.sampled_from([0, 0, 1, 5, 17]), "disconnect": st.booleans(), "ppc": st.sampled_from([None, "vertices"])})


def dual_check(ct, case, rec):
    """dual meshes (the generalisation of disconnect): every cell keeps its corner positions, with an offset the first
    `offset` rows of the point array are placeholders and the connectivity is shifted by it"""
    fem = import_felupe()
    dim = 2 if ct in ("quad", "triangle", "quad8") else 3
    m = (fem.Rectangle if dim == 2 else fem.Cube)(b=tuple(case["size"][:dim]), n=tuple(case["n"][:dim]))
    if ct in ("triangle", "tetra", "tetra10"):
        m = m.triangulate()
    if ct in ("quad8", "hexahedron20", "tetra10"):
        m = m.add_midpoints_edges()
    base_ct = {"quad8": "quad", "hexahedron20": "hexahedron", "tetra10": "tetra"}.get(ct, ct)
    P0, C0 = np.array(m.points), np.array(m.cells)
    off = case["offset"]
    kw = dict(disconnect=case["disconnect"], calc_points=True, offset=off)
    if case["ppc"] == "vertices" and case["disconnect"]:
        # documented points_per_cell (<= number of points per cell): the dual cells keep the first k points of each cell - here
        # the vertices (connected duals with fewer points per cell are used for the dual fields only and carry no geometry)
        kw["points_per_cell"] = NVERT[base_ct]
        C0 = C0[:, : NVERT[base_ct]]
        rec.label("points_per_cell=vertices")
    d = m.dual(**kw)
    P, C = np.array(d.points, float), np.array(d.cells)
    C0ref = np.array(m.cells)
    rec.nontrivial = off > 0
    rec.require("input-mesh-unchanged", np.array_equal(np.array(m.cells), C0ref) and np.array_equal(np.array(m.points), P0))
    rec.require("cells-shape", C.shape == C0.shape, [C.shape, C0.shape])
    if C.shape != C0.shape or C.max() >= len(P):
        rec.require("cells-index-points", C.shape == C0.shape and C.max() < len(P), [int(C.max()), len(P)])
        return
    rec.require("offset-shifts-connectivity", int(C.min()) >= off, [int(C.min()), off])
    rec.close("cell-corner-positions", float(np.abs(P[C] - P0[C0]).max()), 0.0, {"offset": off, "disconnect": case["disconnect"]})
    vol = volumes(P, C, base_ct if C.shape[1] == NVERT[base_ct] else m.cell_type)
    rec.close("covered-volume", abs(vol.sum() - float(np.prod(case["size"][:dim]))) / float(np.prod(case["size"][:dim])), 1e-12)
    rec.close("orientation", max(0.0, float(-vol.min())), 0.0)
    if case["disconnect"]:
        rec.require("disconnected:one-point-per-cell-corner", len(P) == off + C.size and len(np.unique(C)) == C.size, [len(P), off + C.size])


def smid_strategy(ct, tier):
    return st.fixed_dictionaries({"n": st.lists(st.integers(2, 3), min_size=3, max_size=3), "size": st.lists(fl(0.5, 2), min_size=3, max_size=3),
                                  "jseed": st.integers(0, 2**16), "jitter": st.sampled_from([0.0, 0.15]), "how": st.sampled_from(["convert", "add", "add-after-curving"]),
                                  "volumes": st.booleans()})


def smid_check(ct, case, rec):
    """mid-face / mid-volume points of simplex meshes (intermediate cell types without an element template): every inserted
    point is the centroid of the edge, face or cell it belongs to - edges per slot, faces as a set per cell"""
    import itertools

    fem = import_felupe()
    dim = 2 if ct in ("triangle", "quad") else 3
    simplex = ct in ("triangle", "tetra")
    m = (fem.Rectangle if dim == 2 else fem.Cube)(b=tuple(case["size"][:dim]), n=tuple(case["n"][:dim]))
    X = np.array(m.points)
    if case["jitter"]:
        lo, hi = X.min(0), X.max(0)
        inner = ~np.any((np.abs(X - lo) < 1e-12) | (np.abs(X - hi) < 1e-12), axis=1)
        h = float(np.min((hi - lo) / (np.array(case["n"][:dim]) - 1)))
        X[inner] += case["jitter"] * h * np.random.default_rng(case["jseed"]).uniform(-1, 1, (int(inner.sum()), dim))
        m.update(points=X)
    if simplex:
        m = m.triangulate()
    P0, C0 = np.array(m.points, float), np.array(m.cells)
    nv = dim + 1 if simplex else 2**dim
    vols = case["volumes"] and dim == 3
    curved = case["how"] == "add-after-curving"
    if case["how"] == "convert":
        m2 = m.convert(order=2, calc_midfaces=True, calc_midvolumes=vols)
    else:
        m2 = m.add_midpoints_edges()
        if curved:
            # the mid-edge points are moved (curved edges) BEFORE faces and volumes get their points: those are the centroids of
            # the corner points of the face / cell all the same
            Pq = np.array(m2.points, float)
            hq = float(np.min(np.array(case["size"][:dim]) / (np.array(case["n"][:dim]) - 1)))
            Pq[len(P0):] += 0.08 * hq * np.random.default_rng(case["jseed"] + 3).uniform(-1, 1, (len(Pq) - len(P0), dim))
            m2.update(points=Pq)
            rec.label("mid-edge-points-moved-before-faces-and-volumes")
        m2 = m2.add_midpoints_faces()
        if vols:
            m2 = m2.add_midpoints_volumes()
    P, C = np.array(m2.points, float), np.array(m2.cells)
    if simplex:
        edges = list(itertools.combinations(range(nv), 2))
        faces = [tuple(range(3))] if dim == 2 else list(itertools.combinations(range(4), 3))
    elif dim == 2:
        edges = [(0, 1), (1, 2), (2, 3), (3, 0)]
        faces = [(0, 1, 2, 3)]
    else:
        edges = [(0, 1), (1, 2), (2, 3), (3, 0), (4, 5), (5, 6), (6, 7), (7, 4), (0, 4), (1, 5), (2, 6), (3, 7)]
        faces = [(0, 3, 2, 1), (4, 5, 6, 7), (0, 1, 5, 4), (1, 2, 6, 5), (2, 3, 7, 6), (3, 0, 4, 7)]
    ncol = nv + len(edges) + len(faces) + (1 if vols else 0)
    rec.nontrivial = len(C0) >= 2
    if not rec.require("simplex-midpoints:shape", C.shape == (len(C0), ncol), [C.shape, (len(C0), ncol)]):
        return
    rec.require("simplex-midpoints:vertices-kept", np.array_equal(C[:, :nv], C0) and np.array_equal(P[: len(P0)], P0))
    V = P[C[:, :nv]]  # (cells, vertices, dim)
    sc = float(np.ptp(P0, axis=0).max())

    def as_set(A):
        return [sorted(map(tuple, np.round(a / sc, 9).tolist())) for a in A]

    e_got = P[C[:, nv : nv + len(edges)]]
    e_ref = np.stack([(V[:, a] + V[:, b]) / 2 for a, b in edges], 1)
    if not curved:
        rec.require("simplex-midpoints:edge-points-are-the-edge-centroids", as_set(e_got) == as_set(e_ref))
    f_got = P[C[:, nv + len(edges) : nv + len(edges) + len(faces)]]
    f_ref = np.stack([V[:, list(f)].mean(1) for f in faces], 1)
    rec.require("simplex-midpoints:face-points-are-the-face-centroids", as_set(f_got) == as_set(f_ref), {"cell0": [f_got[0].tolist(), f_ref[0].tolist()]})
    if vols:
        rec.close("simplex-midpoints:cell-point-is-the-cell-centroid", float(np.abs(P[C[:, -1]] - V.mean(1)).max()) / sc, 1e-12)
    ents = set()
    for c in C0.tolist():
        for a, b in edges:
            ents.add(tuple(sorted((c[a], c[b]))))
        for f in faces:
            ents.add(tuple(sorted(c[i] for i in f)))
        if vols:
            ents.add(tuple(sorted(c)))
    rec.require("simplex-midpoints:one-point-per-entity", len(P) == len(P0) + len(ents), [len(P), len(P0) + len(ents)])
    rec.require("simplex-midpoints:no-unused", len(m2.points_without_cells) == 0)


INT_OPS = ["rotate", "translate", "mirror", "add_midpoints_edges", "add_midpoints_faces", "add_midpoints_volumes", "convert", "triangulate", "expand", "revolve",
           "flip", "merge_duplicate_points", "disconnect", "dual", "add_runouts", "copy", "fill_between", "container"]


def int_strategy(op, tier):
    return st.fixed_dictionaries({"kind": st.sampled_from(["quad", "hexahedron", "triangle", "tetra", "line"]), "n": st.lists(st.integers(2, 4), min_size=3, max_size=3),
                                  "angle": fl(-170, 170, 1), "axis": st.integers(0, 2), "move": fl(-2.5, 2.5), "seed": st.integers(0, 2**16)})


def int_check(op, case, rec):
    """meshes whose coordinates are integers and stored with an integer dtype (a user-built Mesh, a grid of counted positions): every
    transformation gives the same mesh as for the float-typed twin - nothing is truncated to integers on the way"""
    fem = import_felupe()
    kind = case["kind"]
    dim = {"line": 1, "quad": 2, "triangle": 2, "hexahedron": 3, "tetra": 3}[kind]
    n = tuple(case["n"][:dim])
    base = (fem.mesh.Line if dim == 1 else fem.Rectangle if dim == 2 else fem.Cube)(**({"a": 0, "b": n[0] - 1, "n": n[0]} if dim == 1 else {"a": (0,) * dim, "b": tuple(k - 1 for k in n), "n": n}))
    if kind in ("triangle", "tetra"):
        base = base.triangulate()
    Pf = np.round(np.asarray(base.points, float))
    mf = fem.Mesh(Pf.copy(), np.asarray(base.cells).copy(), base.cell_type)
    mi = fem.Mesh(Pf.astype(int), np.asarray(base.cells).copy(), base.cell_type)
    rec.nontrivial = True

    def apply(m):
        ax = case["axis"] % max(dim, 1)
        if op == "rotate":
            if dim == 1:
                return None
            return m.rotate(angle_deg=case["angle"], axis=2 if dim == 2 else ax)
        if op == "translate":
            return m.translate(move=case["move"], axis=ax)
        if op == "mirror":
            nrm = np.zeros(dim)
            nrm[ax] = 1.0
            nrm[(ax + 1) % dim] += 0.5 if dim > 1 else 0.0
            return m.mirror(normal=nrm, centerpoint=[0.5] * dim)
        if op in ("add_midpoints_edges", "add_midpoints_faces", "add_midpoints_volumes"):
            if dim == 1 or (op == "add_midpoints_volumes" and dim == 2):
                return None
            mm = m.add_midpoints_edges()
            if op != "add_midpoints_edges":
                mm = mm.add_midpoints_faces()
            if op == "add_midpoints_volumes":
                mm = mm.add_midpoints_volumes()
            return mm
        if op == "convert":
            return None if dim == 1 else m.convert(order=2, calc_midfaces=True, calc_midvolumes=dim == 3)
        if op == "triangulate":
            return m.triangulate() if kind in ("quad", "hexahedron") else None
        if op == "expand":
            return m.expand(n=3, z=case["move"] if abs(case["move"]) > 0.1 else 1.5) if kind in ("line", "quad") else None
        if op == "revolve":
            return m.translate(move=1, axis=dim - 1 if dim == 2 else 0).revolve(n=5, phi=abs(case["angle"]) / 2 + 10) if kind == "quad" else None
        if op == "flip":
            return m.flip(mask=np.arange(m.ncells) % 2 == 0)
        if op == "merge_duplicate_points":
            return fem.mesh.concatenate([m, m.translate(move=n[0] - 1, axis=0)]).merge_duplicate_points(decimals=6)
        if op == "disconnect":
            return m.disconnect()
        if op == "dual":
            return m.dual(points_per_cell=np.asarray(m.cells).shape[1], disconnect=True, calc_points=True, offset=2)
        if op == "add_runouts":
            return m.add_runouts(values=[0.15, 0.25], centerpoint=[(k - 1) / 2 for k in n], axis=0, exponent=3, normalize=True) if kind in ("quad", "hexahedron") else None
        if op == "copy":
            return m.copy(points=np.asarray(m.points) * 1.5)
        if op == "fill_between":
            return m.fill_between(m.translate(move=1.5, axis=0), n=3) if kind == "line" and False else None
        if op == "container":
            c_ = fem.MeshContainer([m, m.translate(move=0.5, axis=0)], merge=True, decimals=6)
            return fem.Mesh(c_.points, np.vstack([x_.cells for x_ in c_.meshes]), m.cell_type)
        raise KeyError(op)

    rf = apply(mf)
    if rf is None:
        rec.reject("operation not applicable to this cell type")
        return
    ri = apply(mi)
    Pa, Pb = np.asarray(ri.points, float), np.asarray(rf.points, float)
    rec.require("same-cells-as-the-float-twin", ri.cell_type == rf.cell_type and np.array_equal(np.asarray(ri.cells), np.asarray(rf.cells)))
    if not rec.require("same-points-shape-as-the-float-twin", Pa.shape == Pb.shape, [Pa.shape, Pb.shape]):
        return
    rec.close("same-points-as-the-float-twin", float(np.abs(Pa - Pb).max()), 1e-12, {"dtype": str(np.asarray(ri.points).dtype), "kind": kind})
    rec.require("input-keeps-its-integer-points", np.array_equal(np.asarray(mi.points), Pf.astype(int)))
    if op == "flip":
        # a mask that selects no cell flips no cell (e.g. the documented repair recipe flip(any(dV < 0)) applied to a valid mesh)
        for empty in (np.zeros(mf.ncells, bool), []):
            same = mf.flip(mask=empty)
            rec.require("flip-with-an-empty-selection-flips-nothing", np.array_equal(np.asarray(same.cells), np.asarray(mf.cells)), {"mask": "all False" if len(empty) else "[]"})


FAMILIES = [
    Family("integer-points", INT_OPS, int_check, strategy=int_strategy, n={"quick": 10, "thorough": 200}, chunk=10),
    Family("simplex-midpoints", ["triangle", "tetra", "quad", "hexahedron"], smid_check, strategy=smid_strategy, n={"quick": 8, "thorough": 200}, chunk=8),
    Family("dual", ["quad", "hexahedron", "triangle", "tetra", "quad8", "hexahedron20", "tetra10"], dual_check, strategy=dual_strategy, n={"quick": 8, "thorough": 150}, chunk=8),
    Family("merge-tolerance", [-1, 0, 1, 2, 4], mtol_check, strategy=mtol_strategy, n={"quick": 8, "thorough": 200}, chunk=8),
    Family("revolve-side", REV_AXIS, rev_check, strategy=rev_strategy, n={"quick": 6, "thorough": 200}, chunk=6),
    Family("generators", GENS, gen_check, strategy=gen_strategy, n={"quick": 30, "thorough": 600}, chunk=100),
    Family("programs", ["line", "quad", "hexahedron"], prog_check, strategy=prog_strategy, n={"quick": 150, "thorough": 6000}, chunk=25),
    Family("containers", ["2d", "3d"], cont_check, strategy=cont_strategy, n={"quick": 60, "thorough": 2000}, chunk=30),
]

LEVEL_TEXT = (
    "Generators and transformation programs are drawn by Hypothesis; a reference model (volume, type, counts) runs in "
    "lock-step and every intermediate mesh is measured with independent geometry code; orientation, tiling, mid-point "
    "centroids and merge tolerances are validity predicates over the output."
)
LEVEL_NOTE = "independent geometry (shoelace, triple product, exact trilinear volume, chord-Pappus) is the trusted base; programs of <= 7 steps"
TECHNIQUE = "model-based property testing (Hypothesis-generated transformation programs, lock-step reference model, validity predicates)"
