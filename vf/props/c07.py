"""C07 - a successful Newton solve returns an equilibrium that honours the constraints."""
import copy

import numpy as np
from hypothesis import strategies as st

from vf.core import Family, import_felupe
from vf.gen import meshes as gm

PROPERTY = "C07"
RULE = (
    "family 'newton': finite axis = problem class (nonlinear elastic, linear, mixed u-p-J, condensed nearly-"
    "incompressible body, history materials with state variables, problems with loads and constraints); Hypothesis "
    "draws the mesh (cell family, cells per axis, distortion), the boundary dictionary (fixed face, prescribed face "
    "with 1-3 components, optional symmetry planes, per-component array values), prescribed values, extra items "
    "(point load, body force, follower pressure, multi-point constraint), tol in 1e-12..1e-4, maxiter in 1..20 and the "
    "start state (zero / continuation from a previously converged state / perturbed). Oracle: prescribed unknowns "
    "carry exactly the prescribed values, the residual re-assembled by FRESH items on a deep copy of the returned "
    "field is below the tolerance relative to the reaction forces, one iteration for linear problems, committed state "
    "variables equal the trial values of the converged iterate; otherwise ValueError and bit-unchanged state "
    "variables. family 'solve': generated sparse systems / partitions against a dense solve. Non-trivial: >= 2 "
    "iterations or the raise path."
    " family 'scalar': Laplace problems with one unknown per point on meshes carrying 0-3 cell-less points anywhere in the numbering; 'solve' re-uses every second partitioned system for two more load cases."
)
ASSUMPTIONS = [
    "condensed body: the independently settled residual may differ from the solver's linearised-J residual by O(|du_last|^2): bound widened by 50 bulk |du_last|^2",
    "maxiter >= 1 (maxiter = 0 is outside the documented domain)",
]

CLASSES = ["nonlinear", "linear", "mixed", "condensed", "history-or", "history-plastic", "loads", "planestrain", "axisymmetric"]


def fl(lo, hi, nd=3):
    return st.floats(lo, hi, allow_nan=False).map(lambda v: round(v, nd))


def strategy(cls, tier):
    if cls in ("planestrain", "axisymmetric"):
        kinds = ["quad", "quad8", "triangle6"]
    elif cls == "mixed":
        kinds = ["hexahedron", "quad", "hexahedron20"]
    elif cls == "condensed":
        kinds = ["hexahedron", "tetra10", "hexahedron20"]
    else:
        kinds = ["hexahedron", "tetra", "quad", "triangle", "hexahedron20", "tetra10", "quad8"]
    return st.fixed_dictionaries(
        {
            "mesh": st.sampled_from(kinds).flatmap(lambda k: gm.st_mesh(k, tier, max_n=3, affine=False, curved=False)),
            "move": st.lists(fl(-0.4, 0.6), min_size=3, max_size=3),
            "ncomp": st.integers(1, 3),
            "sym": st.lists(st.booleans(), min_size=3, max_size=3),
            "arrayvalue": st.booleans(),
            "tolexp": st.integers(4, 12),
            "maxiter": st.one_of(st.integers(1, 4), st.integers(5, 20), st.just(16)),
            "start": st.sampled_from(["zero", "zero", "continuation", "perturbed"]),
            "pseed": st.integers(0, 2**16),
            "load": fl(-0.5, 0.5),
            "extra": st.lists(st.sampled_from(["pointload", "bodyforce", "pressure", "mpc"]), min_size=0, max_size=3, unique=True),
            "mu": fl(0.5, 3), "bulk": st.sampled_from([2.0, 20.0, 200.0]),
            # one step that pushes the moved face through the fixed one: the state cannot be evaluated (log of a negative volume ratio)
            "huge": st.sampled_from([False] * 5 + [True]),
        }
    )


def build(cls, case, fem):
    spec = dict(case["mesh"])
    if cls == "axisymmetric":
        spec["a"] = [spec["a"][0], abs(spec["a"][1]) + 0.4]
    mesh, info = gm.build(spec)
    dim = info["dim"]
    region = gm.region(mesh, info)
    X = np.array(mesh.points)
    if cls == "planestrain":
        fc = fem.FieldContainer([fem.FieldPlaneStrain(region, dim=2)])
    elif cls == "axisymmetric":
        fc = fem.FieldContainer([fem.FieldAxisymmetric(region, dim=2)])
    elif cls == "mixed":
        fc = fem.FieldsMixed(region, n=3, planestrain=(dim == 2))
    else:
        fc = fem.FieldContainer([fem.Field(region, dim=dim)])
    plain2d = dim == 2 and cls not in ("planestrain", "axisymmetric", "mixed")
    mu, bulk = case["mu"], case["bulk"]

    switched_off = []

    def make_items(fcx, statevars=None):
        if cls == "linear" or plain2d:
            um = fem.LinearElastic(E=2 * mu * 1.3, nu=0.3) if dim == 3 else fem.constitution.LinearElasticPlaneStrain(E=2 * mu * 1.3, nu=0.3)
            body = fem.SolidBody(um, fcx, multiplier=(None, 2.5, 1.0, 0.4)[case["pseed"] % 4])
        elif cls == "mixed":
            body = fem.SolidBody(fem.ThreeFieldVariation(fem.NeoHooke(mu=mu, bulk=bulk)), fcx)
        elif cls == "condensed":
            body = fem.SolidBodyNearlyIncompressible(fem.NeoHooke(mu=mu), fcx, bulk=bulk)
        elif cls == "history-or":
            body = fem.SolidBody(fem.OgdenRoxburgh(fem.NeoHooke(mu=mu, bulk=bulk), r=3.0, m=1.0, beta=0.2), fcx, statevars=statevars)
        elif cls == "history-plastic":
            body = fem.SolidBody(fem.LinearElasticPlasticIsotropicHardening(E=100.0, nu=0.3, sy=1.0, K=10.0), fcx, statevars=statevars)
        else:
            # the documented multiplier of an item scales its vector and matrix alike (None / 1 in half of the cases)
            # (two of six are tiny - a soft body in a small-number unit system: reaction forces of 1e-6 .. 1e-5, far below the solver's
            # regularisation of the force norm, where "relative to the reaction forces" still has to mean what it says)
            mult = (None, 2.5, 1.0, 0.4, 1e-5, 3e-6)[case["pseed"] % 6] if cls in ("nonlinear", "loads") else None
            body = fem.SolidBody(fem.NeoHooke(mu=mu, bulk=bulk), fcx, multiplier=mult)
        items = [body]
        # (selected by a mix of drawn values, so that Hypothesis' minimal examples - all zeros, nothing moves - are not the only ones)
        pick = (case["pseed"] + case["tolexp"] + case["maxiter"] + int(1000 * sum(abs(v) for v in case["move"]))) % 2 == 0
        if pick and cls in ("linear", "nonlinear", "loads") and not plain2d:
            # a switched-off body (multiplier 0.0) of another stiffness among the items: it contributes neither to the residual nor
            # to the system matrix
            off_um = fem.LinearElastic(E=7.0 * mu, nu=0.1) if dim == 3 else fem.constitution.LinearElasticPlaneStrain(E=7.0 * mu, nu=0.1)
            items.append(fem.SolidBody(off_um, fcx, multiplier=0.0))
            switched_off.append(1)
        if cls == "linear" and "mpc" in case["extra"] and not plain2d:
            # a multi-point constraint with a skipped axis next to a linear-elastic body: still a linear problem
            right = np.where(np.isclose(X[:, 0], X[:, 0].max()))[0]
            if len(right) >= 3:
                items.append(fem.MultiPointConstraint(fcx, points=right[1:], centerpoint=int(right[0]), skip=((1, 0, 0), (0, 1, 0), (0, 0, 1))[case["pseed"] % 3][:dim] + (0,) * (3 - dim), multiplier=50.0))
        if cls == "loads":
            rng = np.random.default_rng(case["pseed"])
            for e in case["extra"]:
                if e == "pointload":
                    free = np.where(X[:, 0] > X[:, 0].min() + 1e-9)[0]
                    pts = np.unique(rng.choice(free, size=min(2, len(free)), replace=False))
                    items.append(fem.PointLoad(fcx, points=pts, values=0.05 * case["load"] * np.ones((len(pts), dim))))
                elif e == "bodyforce":
                    items.append(fem.SolidBodyForce(fcx, values=[0.3 * case["load"]] * dim, scale=1.0))
                elif e == "pressure" and spec["kind"] in ("hexahedron", "quad", "hexahedron20", "quad8"):
                    bt = {"hexahedron": fem.RegionHexahedronBoundary, "quad": fem.RegionQuadBoundary, "hexahedron20": fem.RegionQuadraticHexahedronBoundary,
                          "quad8": fem.RegionQuadraticQuadBoundary}[spec["kind"]]
                    rb = bt(mesh, mask=np.isclose(X[:, 1], X[:, 1].max()))
                    fb = fem.FieldContainer([fem.Field(rb, dim=dim)])
                    items.append(fem.SolidBodyPressure(fb, pressure=0.2 * case["load"]))
                elif e == "mpc":
                    right = np.where(np.isclose(X[:, 0], X[:, 0].max()))[0]
                    if len(right) >= 3:
                        items.append(fem.MultiPointConstraint(fcx, points=right[1:], centerpoint=int(right[0]), skip=(1, 0, 0), multiplier=50.0))
        return items

    # boundary dictionary: left face fixed, right face prescribed (first `ncomp` components), optional symmetry planes
    f0 = fc.fields[0]
    bounds = {"left": fem.Boundary(f0, fx=float(X[:, 0].min()))}
    expected = {}  # independent model: (point, component) -> prescribed value
    left_pts = np.where(np.isclose(X[:, 0], X[:, 0].min()))[0]
    right_pts = np.where(np.isclose(X[:, 0], X[:, 0].max()))[0]
    for p in left_pts:
        for c_ in range(f0.dim):
            expected[(int(p), c_)] = 0.0
    nc = min(case["ncomp"], f0.dim)
    scale = 0.01 if cls == "history-plastic" else (0.3 if cls in ("mixed", "condensed") else 1.0)
    vals = [scale * case["move"][k] * (float(np.ptp(X[:, 0]))) for k in range(nc)]
    if case.get("huge") and cls in ("nonlinear", "loads", "history-or") and dim == 3:
        vals[0] = -(1.2 + abs(case["move"][0])) * float(np.ptp(X[:, 0]))
    pointwise = None
    if case["arrayvalue"] and nc >= 2 and case["pseed"] % 3 == 0:
        # one boundary with one value per (selected point, component): a Fortran-ordered 2-d array (e.g. np.array([ux, uy]).T)
        skip = [0] * nc + [1] * (f0.dim - nc)
        pointwise = np.asfortranarray(np.array(vals)[None, :] * (1.0 + 0.2 * np.arange(len(right_pts))[:, None] / max(len(right_pts), 1)))
        bounds["right"] = fem.Boundary(f0, fx=float(X[:, 0].max()), skip=tuple(skip), value=pointwise)
    elif case["arrayvalue"] and nc >= 2:
        # one boundary with a per-component array value (one entry per non-skipped component)
        skip = [0] * nc + [1] * (f0.dim - nc)
        bounds["right"] = fem.Boundary(f0, fx=float(X[:, 0].max()), skip=tuple(skip), value=np.array(vals))
    else:
        for k in range(nc):
            skip = [1] * f0.dim
            skip[k] = 0
            val = vals[k]
            if case["arrayvalue"] and k == 0:
                val = np.full(len(right_pts), val)
            bounds[f"right-{k}"] = fem.Boundary(f0, fx=float(X[:, 0].max()), skip=tuple(skip), value=val)
    for a_, p in enumerate(right_pts):
        for k in range(nc):
            expected[(int(p), k)] = vals[k] if pointwise is None else float(pointwise[a_, k])
    if cls != "axisymmetric":
        for a in range(1, f0.dim):
            if case["sym"][a]:
                skip = [1] * f0.dim
                skip[a] = 0
                bounds[f"sym-{a}"] = fem.Boundary(f0, **{"f" + "xyz"[a]: float(X[:, a].min())}, skip=tuple(skip))
                for p in np.where(np.isclose(X[:, a], X[:, a].min()))[0]:
                    expected.setdefault((int(p), a), 0.0)
                    if expected[(int(p), a)] != 0.0:
                        expected[(int(p), a)] = None  # overlapping boundaries with different values: either is admissible
    if cls == "mixed" and case["pseed"] % 2 == 0:
        # a boundary on the THIRD field of the container (volume ratio prescribed in every second cell)
        nJ = fc.fields[2].values.shape[0]
        mJ = np.zeros(nJ, bool)
        mJ[::2] = True
        bounds["vol"] = fem.Boundary(fc.fields[2], mask=mJ, value=1.01)
        expected[("field", 2)] = (np.where(mJ)[0], 1.01)
    expected[("label", 0)] = switched_off
    return mesh, info, fc, bounds, make_items, X, expected


def residual(items, x):
    """sum of the items' vectors times their multipliers, written without felupe's own fun_items."""
    f = np.zeros(int(sum(x.fieldsizes)))
    for it in items:
        v = np.asarray(it.assemble.vector(field=x).toarray(), float).ravel()
        m = it.assemble.multiplier
        f[: v.size] += v if m is None else m * v
    return f


def reaction_norms(f, dof1, dof0):
    return float(np.linalg.norm(f[dof1])), float(np.linalg.norm(f[dof0]))


def check(cls, case, rec):
    fem = import_felupe()
    from felupe.tools._newton import fun_items

    mesh, info, fc, bounds, make_items, X, expected = build(cls, case, fem)
    dof0, dof1 = fem.dof.partition(fc, bounds)
    ext0 = fem.dof.apply(fc, bounds, dof0)
    tol = 10.0 ** (-case["tolexp"])
    maxiter = case["maxiter"]
    items = make_items(fc)
    body = items[0]
    has_state = cls in ("history-or", "history-plastic") and info["dim"] == 3  # plain 2-D fields use the linear plane-strain law
    # start state
    if case["start"] == "continuation":
        half = fem.dof.apply(fc, bounds, dof0) * 0.5
        try:
            r0 = fem.newtonrhapson(items=items, dof0=dof0, dof1=dof1, ext0=half, tol=1e-9, maxiter=25)
            x0 = r0.x
        except ValueError:
            rec.reject("pre-load did not converge")
            return
    elif case["start"] == "perturbed":
        x0 = fc.copy()
        r = np.random.default_rng(case["pseed"])
        x0.fields[0].values[...] = 0.01 * info["h"] * r.uniform(-1, 1, x0.fields[0].values.shape)
    else:
        x0 = fc
    pre_state = np.array(body.results.statevars, dtype=float).copy() if has_state else None
    rec.label("start=" + case["start"])
    try:
        res = fem.newtonrhapson(x0=x0, items=items, dof0=dof0, dof1=dof1, ext0=ext0, tol=tol, maxiter=maxiter)
    except ValueError as e:
        rec.label("raised")
        if case.get("huge") and cls in ("nonlinear", "loads", "history-or") and info["dim"] == 3:
            rec.label("raised-for-a-step-through-the-fixed-face")
        rec.nontrivial = True
        if (cls == "linear" or (info["dim"] == 2 and cls == "nonlinear")) and maxiter >= 1 and tol >= 1e-10 and case["start"] != "perturbed":
            # a linear problem is solved by the first update (whatever the start state and the item multiplier)
            rec.require("linear-problem-converges", False, {"maxiter": maxiter, "tol": tol, "start": case["start"]})
        if has_state:
            rec.require("no-commit-on-failure", np.array_equal(np.asarray(body.results.statevars), pre_state))
        return
    rec.label("returned")
    if case.get("huge") and cls in ("nonlinear", "loads", "history-or") and info["dim"] == 3:
        rec.label("returned-for-a-step-through-the-fixed-face")
    rec.label(f"iterations={min(res.iterations, 6)}")
    rec.nontrivial = res.iterations >= 2
    rec.require("success-flag", res.success is True or res.success == True)  # noqa
    rec.require("iterations<=maxiter", 1 <= res.iterations <= maxiter and len(res.fnorms) == res.iterations, [res.iterations, maxiter])
    xv = np.concatenate([f.values.ravel() for f in res.x.fields])
    # u0 + (ext0 - u0) in floating point: exact up to one unit in the last place of the operands
    ulp = 4 * np.finfo(float).eps * max(1.0, float(np.abs(ext0).max()) if len(dof0) else 1.0)
    rec.close("prescribed-values-exact", float(np.abs(xv[dof0] - ext0).max()) if len(dof0) else 0.0, ulp)
    # independent of dof.apply: the values the boundary dictionary prescribes, from the definition of the boundaries
    u_res = res.x[0].values
    worst = 0.0
    for (p, c_), v in expected.items():
        if p == "label":
            if v:
                rec.label("switched-off-body-among-the-items")
        elif p == "field":
            idx, val = v
            worst = max(worst, float(np.abs(np.asarray(res.x[c_].values).ravel()[idx] - val).max()))
            rec.label("boundary-on-the-third-field")
        elif v is not None:
            worst = max(worst, abs(float(u_res[p, c_]) - v))
    rec.close("field-carries-boundary-values", worst, ulp, {"arrayvalue": case["arrayvalue"]})
    rec.close("reported-norm<tol", float(res.fnorms[-1]), tol)
    # residual re-assembled by fresh items on a deep copy of the result
    xc = copy.deepcopy(res.x)
    fresh = make_items(xc, statevars=None if pre_state is None else pre_state.copy())
    f = residual(fresh, xc)
    if cls == "condensed":
        f = residual(fresh, xc)  # settle
    rec.close("fun_items=sum-of-item-vectors", float(np.abs(np.asarray(fun_items(fresh, xc), float).ravel() - f).max()) / max(float(np.abs(f).max()), 1e-12), 1e-12)
    n1, n0 = reaction_norms(f, dof1, dof0)
    fn = n1 / (1e-3 + n0)
    bound = tol * (1 + 1e-6) + 1e-12
    if cls == "condensed":
        bound += 50 * case["bulk"] * float(res.xnorms[-1]) ** 2 / (1e-3 + n0)
    rec.close("fresh-residual<tol", fn, bound, {"reported": float(res.fnorms[-1]), "tol": tol, "iterations": int(res.iterations)})
    if cls != "condensed":
        rec.close("fresh-residual=reported", abs(fn - float(res.fnorms[-1])), 1e-9 + 1e-6 * float(res.fnorms[-1]))
        rec.close("returned-fun=residual", float(np.abs(np.asarray(res.fun).ravel() - f).max()) / max(float(np.abs(f).max()), 1e-12), 1e-9)
    linear = cls == "linear" or (info["dim"] == 2 and cls in ("nonlinear", "loads", "history-or")) or False
    if cls == "linear" or (info["dim"] == 2 and cls in ("nonlinear",)):
        if not (cls == "loads"):
            rec.require("linear-problem-one-iteration", res.iterations == 1 or tol < 1e-11, [res.iterations, tol])
    if case["start"] == "zero" and res.iterations < maxiter:
        # the same problem again from scratch with the iteration limit set to the iterations it needed: converging in exactly
        # `maxiter` iterations is a success
        mesh_b, info_b, fc_b, bounds_b, make_b, X_b, _ = build(cls, case, fem)
        items_b = make_b(fc_b)
        d0b, d1b = fem.dof.partition(fc_b, bounds_b)
        e0b = fem.dof.apply(fc_b, bounds_b, d0b)
        try:
            res_b = fem.newtonrhapson(x0=fc_b, items=items_b, dof0=d0b, dof1=d1b, ext0=e0b, tol=tol, maxiter=int(res.iterations))
            rec.require("rerun-with-maxiter=needed-iterations-succeeds", int(res_b.iterations) == int(res.iterations), [int(res_b.iterations), int(res.iterations)])
        except ValueError as e_:
            rec.require("rerun-with-maxiter=needed-iterations-succeeds", False, str(e_)[:80])
    if has_state:
        # committed state = trial state of the converged iterate (fresh evaluation with the previous committed state)
        um = fresh[0].umat
        F = xc.extract()[0]
        trial = np.asarray(um.gradient([F, pre_state.copy()])[-1], float)
        rec.close("committed-state=trial-of-converged-iterate", float(np.abs(np.asarray(body.results.statevars) - trial).max()) / max(1.0, float(np.abs(trial).max())), 1e-9)
        if float(np.abs(trial - pre_state).max()) > 0:
            rec.label("state-changed")


# ---------------------------------------------------------------------------------------------------------------
def solve_strategy(kind, tier):
    return st.fixed_dictionaries({"n": st.lists(st.integers(2, 3), min_size=3, max_size=3), "seed": st.integers(0, 2**32 - 1), "frac0": fl(0.1, 0.7),
                                  "ext": st.sampled_from(["given", "given", "none"]), "r": st.booleans(), "fields": st.integers(1, 3)})


def solve_check(kind, case, rec):
    fem = import_felupe()
    import scipy.sparse as sp

    mesh = fem.Cube(n=tuple(case["n"]))
    region = fem.RegionHexahedron(mesh)
    fc = fem.FieldsMixed(region, n=case["fields"]) if case["fields"] > 1 else fem.FieldContainer([fem.Field(region, dim=3)])
    rng = np.random.default_rng(case["seed"])
    n = int(sum(fc.fieldsizes))
    A = sp.random(n, n, density=0.1, random_state=int(case["seed"] % 2**31), format="csr")
    if kind == "spd":
        K = (A @ A.T + sp.eye(n) * 2.0).tocsr()
    else:
        K = (A + sp.eye(n) * (1.0 + abs(A).sum(1).max())).tocsr()
    perm = rng.permutation(n)
    k0 = max(1, int(case["frac0"] * n))
    dof0 = np.sort(perm[:k0])
    dof1 = np.sort(perm[k0:])
    if (case["seed"] // 4 + k0) % 3 == 2:
        # index arrays in the caller's own order (e.g. the concatenated dof arrays of the boundaries): the blocks, the residual
        # and the prescribed values are all ordered like them
        dof0, dof1 = perm[:k0].copy(), perm[k0:].copy()
        rec.label("index-arrays-not-ascending")
    if case["ext"] == "given":
        for f in fc.fields:
            f.values[...] = rng.uniform(-1, 1, f.values.shape)
        ext0 = rng.uniform(-1, 1, k0)
        if case["seed"] % 4 == 1:
            ext0 = np.zeros(k0)  # complete unloading from a non-zero state: all prescribed values are zero, the field is not
    else:
        ext0 = None  # documented use: homogeneous prescribed unknowns
        # ... also from a state that is not zero at the prescribed unknowns (a continuation without ext0): the increment takes them
        # to zero, du0 = 0 - u0 (only this is compared there: the reduced right-hand side of that call is not specified)
        for f in fc.fields:
            f.values[...] = rng.uniform(-1, 1, f.values.shape)
        u_nz = np.concatenate([f.values.ravel() for f in fc.fields])
        du_nz = np.asarray(fem.solve.solve(*fem.solve.partition(fc, K, dof1, dof0, None))).ravel()
        rec.require("shape(ext0=None, non-zero state)", du_nz.size == n)
        rec.close("prescribed-increments(ext0=None, non-zero state)", float(np.abs(du_nz[dof0] + u_nz[dof0]).max()), 0.0)
        rec.label("ext0=None-from-a-non-zero-state")
        for f in fc.fields:
            f.values[...] = 0.0
    r = rng.uniform(-1, 1, n) if case["r"] else None
    u = np.concatenate([f.values.ravel() for f in fc.fields])
    system = fem.solve.partition(fc, K, dof1, dof0, r)
    du = fem.solve.solve(*system, ext0)
    rec.nontrivial = True
    rec.require("shape", np.asarray(du).size == n)
    du = np.asarray(du).ravel()
    Kd = K.toarray()
    e0 = np.zeros(k0) if ext0 is None else ext0
    rhs = -(r[dof1] if r is not None else 0) - Kd[np.ix_(dof1, dof0)] @ (e0 - u[dof0])
    ref = np.linalg.solve(Kd[np.ix_(dof1, dof1)], rhs * np.ones(len(dof1)))
    sc = max(float(np.abs(ref).max()), 1e-12)
    rec.close("reduced-system", float(np.abs(du[dof1] - ref).max()) / sc, 1e-9)
    rec.close("prescribed-increments", float(np.abs(du[dof0] - (e0 - u[dof0])).max()), 0.0)
    # the tools-level wrapper solves K dx = b for a right-hand side b (here b = -r) and returns the increments split per field
    if r is not None and case["seed"] % 3 == 0:
        parts = fem.tools.solve(K, -r, fc, dof0, dof1, fc.offsets, ext0)
        rec.require("tools.solve:one-array-per-field", len(parts) == len(fc.fields), len(parts))
        rec.close("tools.solve=solve.solve", float(np.abs(np.concatenate([np.asarray(p_).ravel() for p_ in parts]) - du).max()), 1e-12)
    # one partitioned system solved for several load cases (linear model without re-assembly): solve() leaves it unchanged
    if case["seed"] % 2 == 0:
        for rep in range(2):
            e2 = rng.uniform(-1, 1, k0)
            du2 = np.asarray(fem.solve.solve(*system, e2)).ravel()
            rhs2 = -(r[dof1] if r is not None else 0) - Kd[np.ix_(dof1, dof0)] @ (e2 - u[dof0])
            ref2 = np.linalg.solve(Kd[np.ix_(dof1, dof1)], rhs2 * np.ones(len(dof1)))
            rec.close("reduced-system(system re-used)", float(np.abs(du2[dof1] - ref2).max()) / max(float(np.abs(ref2).max()), 1e-12), 1e-9, {"solve": rep + 2})
        if r is not None:
            rec.require("solve-leaves-residual-unchanged", np.array_equal(np.asarray(system[-1]).ravel(), r[dof1]))
    u_, u0_, K11, K10, d1, d0, r1 = system
    rec.require("partition-blocks", np.array_equal(K11.toarray(), Kd[np.ix_(dof1, dof1)]) and np.array_equal(K10.toarray(), Kd[np.ix_(dof1, dof0)])
                and np.array_equal(np.asarray(u0_), u[dof0]))


def scalar_strategy(kind, tier):
    return st.fixed_dictionaries({"n": st.lists(st.integers(3, 5), min_size=3, max_size=3), "seed": st.integers(0, 2**16), "norph": st.integers(0, 3),
                                  "values": st.lists(st.floats(-2, 2).map(lambda v: round(v, 2)), min_size=2, max_size=2), "jitter": st.sampled_from([0.0, 0.2])})


def scalar_check(kind, case, rec):
    """steady heat conduction (Laplace): one scalar unknown per point on a 2-D / 3-D mesh that carries points without cells
    anywhere in the numbering; linear problem -> one update, prescribed values kept, equilibrium on all free unknowns"""
    fem = import_felupe()
    dim = 2 if kind == "quad" else 3
    grid = (fem.Rectangle if dim == 2 else fem.Cube)(n=tuple(case["n"][:dim]))
    rng = np.random.default_rng(case["seed"])
    P, C = np.array(grid.points), np.array(grid.cells)
    if case["jitter"]:
        inner = np.all((P > 1e-9) & (P < 1 - 1e-9), axis=1)
        P[inner] += case["jitter"] / (max(case["n"][:dim]) - 1) * rng.uniform(-0.5, 0.5, (int(inner.sum()), dim))
    for _ in range(case["norph"]):
        pos = int(rng.integers(0, len(P) + 1))
        P = np.insert(P, pos, rng.uniform(0.2, 0.8, dim) + 1.5, axis=0)
        C = C + (C >= pos)
    mesh = fem.Mesh(P, C, grid.cell_type)
    region = (fem.RegionQuad if dim == 2 else fem.RegionHexahedron)(mesh)
    va, vb = case["values"]
    # two of three cases start from a uniform non-zero field (an initial temperature): unknowns that nothing prescribes and no cell
    # touches (points without cells) keep that value, whatever the boundaries say elsewhere
    T0 = 0.0 if case["seed"] % 3 == 0 else round(1.3 + 0.5 * va, 3)
    T = fem.Field(region, dim=1, values=T0)
    fc = fem.FieldContainer([T])
    bounds = dict(left=fem.Boundary(T, fx=0.0, value=va), right=fem.Boundary(T, fx=1.0, value=vb))
    dof0, dof1 = fem.dof.partition(fc, bounds)
    ext0 = fem.dof.apply(fc, bounds, dof0)
    import contextlib
    import io

    # the progress report (verbose) must not change what is computed
    verbose = case["seed"] % 2 == 1
    with contextlib.redirect_stdout(io.StringIO()) as out:
        res = fem.newtonrhapson(x0=fc, kwargs=dict(umat=fem.Laplace(), grad=True, add_identity=False, sym=False), dof0=dof0, dof1=dof1, ext0=ext0, verbose=verbose)
    rec.require("verbose-report-iff-requested", bool(out.getvalue().strip()) == verbose, out.getvalue()[:80])
    Tv = res.x[0].values.ravel()
    x = P[:, 0]
    attached = np.zeros(len(P), bool)
    attached[np.unique(C)] = True
    pres = {}
    for i in np.where(np.isclose(x, 0.0) & attached)[0]:
        pres[int(i)] = va
    for i in np.where(np.isclose(x, 1.0) & attached)[0]:
        pres[int(i)] = vb
    free = np.array([i for i in range(len(P)) if attached[i] and i not in pres], dtype=int)
    rec.nontrivial = case["norph"] >= 1 and va != vb
    rec.label(f"cell-less-points={case['norph']}")
    rec.require("success", bool(res.success))
    # (u0 + (ext0 - u0) in floating point: exact from a zero start field, up to one unit in the last place otherwise)
    rec.close("prescribed-values-kept", max([abs(Tv[i] - v) for i, v in pres.items()] + [0.0]), 4 * np.finfo(float).eps * max(1.0, abs(va), abs(vb), abs(T0)) if T0 else 0.0)
    rec.close("cell-less-points-untouched", float(np.abs(Tv[~attached] - T0).max()) if (~attached).any() else 0.0, 0.0, {"start value": T0})
    if T0:
        rec.label("non-zero-start-field")
    H = res.x.extract(grad=True, add_identity=False)
    r = np.asarray(fem.IntegralForm([H[0]], res.x, region.dV).assemble().toarray()).ravel()
    reaction = float(np.linalg.norm(r[list(pres)]))
    rec.close("residual-on-free-unknowns", float(np.linalg.norm(r[free])) / (1e-3 + reaction), 1.5e-8, {"free": len(free), "dof1": len(dof1)})
    rec.require("free-set=attached-and-not-prescribed", np.array_equal(np.sort(np.asarray(dof1)), free), [len(dof1), len(free)])
    rec.require("linear-problem-converges-with-the-first-update", int(res.iterations) <= 2 and (len(res.xnorms) < 2 or res.xnorms[1] <= 1e-9 * max(1.0, res.xnorms[0])),
                {"iterations": int(res.iterations)})


# ---------------------------------------------------------------------------------------------------------------
# the umat path of newtonrhapson (no items): residual and tangent assembled from umat.gradient / umat.hessian with the
# extraction flags handed over as kwargs
# ---------------------------------------------------------------------------------------------------------------
class HookeInH:
    """linear-elastic law written in the displacement gradient H (or its symmetric part): used with add_identity=False"""

    def __init__(self, mu, lmbda):
        self.mu, self.lmbda = mu, lmbda

    def gradient(self, x):
        H, sv = x[0], x[-1]
        eps = (H + np.einsum("ij...->ji...", H)) / 2
        tr = np.einsum("ii...->...", eps)
        return [2 * self.mu * eps + self.lmbda * tr * np.eye(3).reshape(3, 3, 1, 1), sv]

    def hessian(self, x):
        I = np.eye(3)
        I4 = (np.einsum("ik,jl->ijkl", I, I) + np.einsum("il,jk->ijkl", I, I)) / 2
        return [(2 * self.mu * I4 + self.lmbda * np.einsum("ij,kl->ijkl", I, I)).reshape(3, 3, 3, 3, 1, 1)]


def umat_strategy(kind, tier):
    return st.fixed_dictionaries({"n": st.lists(st.integers(2, 3), min_size=3, max_size=3), "move": fl(-0.2, 0.3), "mu": fl(0.5, 3), "lmbda": fl(0.5, 5),
                                  "sym": st.booleans(), "clamped": st.booleans(), "jseed": st.integers(0, 2**16), "tolexp": st.integers(6, 11)})


def umat_check(kind, case, rec):
    fem = import_felupe()
    mesh = fem.Cube(n=tuple(case["n"]))
    X = np.array(mesh.points)
    inner = ~np.any((np.abs(X) < 1e-12) | (np.abs(X - 1) < 1e-12), axis=1)
    X[inner] += 0.1 / max(case["n"]) * np.random.default_rng(case["jseed"]).uniform(-1, 1, (int(inner.sum()), 3))
    mesh.update(points=X)
    region = fem.RegionHexahedron(mesh)
    fc = fem.FieldContainer([fem.Field(region, dim=3)])
    bounds, lc = fem.dof.uniaxial(fc, move=case["move"], clamped=case["clamped"])
    if kind == "displacement-gradient-law":
        um = HookeInH(case["mu"], case["lmbda"])
        flags = dict(grad=True, sym=case["sym"], add_identity=False)
        linear = True
    else:
        um = fem.NeoHooke(mu=case["mu"], bulk=case["mu"] + case["lmbda"])
        flags = dict(grad=True, sym=False, add_identity=True)
        linear = False
    tol = 10.0 ** (-case["tolexp"])
    rec.nontrivial = abs(case["move"]) >= 0.02
    try:
        res = fem.newtonrhapson(x0=fc, kwargs=dict(umat=um, **flags), tol=tol, **lc)
    except ValueError:
        rec.require("umat-path-converges", not linear, {"move": case["move"]})
        rec.label("raised")
        return
    xv = np.concatenate([f.values.ravel() for f in res.x.fields])
    dof0, dof1, ext0 = lc["dof0"], lc["dof1"], lc["ext0"]
    rec.close("prescribed-values-exact", float(np.abs(xv[dof0] - ext0).max()), 4 * np.finfo(float).eps * max(1.0, abs(case["move"])))
    # independent re-assembly with the caller's flags
    Fq = res.x.extract(**flags)
    stress = um.gradient([np.asarray(Fq[0]), None])[:-1]
    r = np.asarray(fem.IntegralForm(stress, res.x, region.dV).assemble().toarray()).ravel()
    fn = float(np.linalg.norm(r[dof1]) / (1e-3 + np.linalg.norm(r[dof0])))
    rec.close("fresh-residual<tol", fn, tol * (1 + 1e-6) + 1e-12, {"flags": {k: bool(v) for k, v in flags.items()}, "iterations": int(res.iterations)})
    if linear and tol >= 1e-10:
        rec.require("linear-problem-one-iteration", int(res.iterations) == 1, int(res.iterations))


FAMILIES = [
    Family("umat-path", ["displacement-gradient-law", "deformation-gradient-law"], umat_check, strategy=umat_strategy, n={"quick": 12, "thorough": 300}, chunk=6),
    Family("scalar", ["quad", "hexahedron"], scalar_check, strategy=scalar_strategy, n={"quick": 15, "thorough": 400}, chunk=5),
    Family("newton", CLASSES, check, strategy=strategy, n={"quick": 48, "thorough": 1200}, chunk=8, weight=3),
    Family("solve", ["spd", "unsymmetric"], solve_check, strategy=solve_strategy, n={"quick": 30, "thorough": 3000}, chunk=50),
]

LEVEL_TEXT = (
    "Problem classes enumerated; Hypothesis draws meshes, boundary dictionaries, loads, tolerances, iteration limits "
    "and start states; the returned field is checked against the prescribed values (exactly) and against an "
    "independently re-assembled residual; failure paths must raise and leave state variables untouched; the partitioned "
    "linear solve is compared with a dense solve."
)
LEVEL_NOTE = "fresh items are built from the same constructors (assembly decided by C01/C02); systems of <= ~400 unknowns"
TECHNIQUE = "property-based testing (Hypothesis) with post-condition oracles on solver results (independent residual re-assembly, dense reference solve)"
