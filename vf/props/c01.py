"""C01 - the assembled tangent matrix is the exact derivative of the assembled vector."""
import numpy as np
from hypothesis import strategies as st

from vf.core import Family, import_felupe
from vf.gen import materials as gmat
from vf.gen import meshes as gm

PROPERTY = "C01"
RULE = (
    "finite axis = item x field kind: SolidBody on 3-D / plane-strain / axisymmetric / mixed u-p-J containers "
    "(ThreeFieldVariation and NearlyIncompressible wrappers, also axisymmetric and plane strain), "
    "SolidBodyNearlyIncompressible at a settled state, SolidBodyPressure and SolidBodyCauchyStress on boundary regions "
    "(3-D, plane strain, axisymmetric; closed and masked surfaces), MultiPointConstraint / MultiPointContact, PointLoad, "
    "SolidBodyForce, SolidBodyGravity, FormItem with consistent (linear, bilinear) pairs, and item lists through "
    "tools.fun_items / jac_items. Hypothesis draws the mesh (cell family, distortion, curvature), the displacement "
    "state (affine + random nodal part, det F >= 0.3 verified), p / J values, the material (hand-coded, tensortrax, jax, "
    "models with state variables reached by a pre-load), load magnitudes, masks and the parallel flag. Oracle: central "
    "finite differences (h = 1e-6) of the assembled vector w.r.t. ALL unknowns; symmetry for hyperelastic bodies, "
    "constraints and pressure on closed surfaces. Non-trivial: max|F - I| >= 0.05 and >= 2 cells (loads: non-zero)."
    ' Added after seeded rounds: a u/p law that returns all nv x nu blocks (non-symmetric for alpha != 1), contact walls that touch the body initially, every second single-item case hands the state over in a foreign copy of the container.'
    ' Family lifecycle: generated programs of state changes, load updates and assemblies (own container / foreign copy / no argument) on ONE item; after every assembly the vector or matrix equals that of an item built from scratch at the same state (model of the no-argument call: the state seen last; update() of pressure / Cauchy-stress items re-reads their container).'
    ' Families material-kwargs (per-call material arguments: vector / matrix with kwargs equal those of the material with that default) and tools-fun-jac (the item-free helpers of the Newton path: jac = d fun / du for sym=True / sym=False); ring loads and Cauchy stresses on axisymmetric fields; a boundary region reloaded under a Cauchy-stress item.'
)
ASSUMPTIONS = [
    "finite differences resolve relative errors >= 1e-6 of the largest matrix entry",
    "nearly-incompressible body: residual and matrix are taken at a settled state (vector evaluated twice at the same unknowns)",
    "contact: generated gaps satisfy |x_c - x_t| >= 1e-3 on the active axes (away from the open/closed switch)",
]

SOLID_MATS = ["user:nonsymmetric-tangent", "NeoHooke", "NeoHookeCompressible", "tt:yeoh", "tt:ogden", "jax:mooney_rivlin", "OgdenRoxburgh(NeoHooke)", "tt:ogden_roxburgh(neo_hooke)",
              "tt:finite_strain_viscoelastic", "LinearElasticLargeStrain", "tt:saint_venant_kirchhoff"]
K3 = ["hexahedron", "tetra", "hexahedron20", "tetra10", "hexahedron27"]
K2 = ["quad", "triangle", "quad8", "triangle6", "quad9"]
KB3 = ["hexahedron", "hexahedron20", "hexahedron27"]
KB2 = ["quad", "quad8", "quad9"]

ITEMS = ["SolidBody/3d", "SolidBody/planestrain", "SolidBody/axi", "SolidBody/3d+nonsym", "SolidBody/planestrain+nonsym", "SolidBody/axi+nonsym", "SolidBody/mixed-threefield", "SolidBody/mixed-nearlyinc",
         "SolidBody/mixed-axi", "SolidBody/mixed-planestrain", "SolidBody/mixed-fullblocks", "SolidBody/linear-elastic", "SolidBody/plasticity",
         "NearlyIncompressible/3d", "NearlyIncompressible/planestrain", "NearlyIncompressible/axi",
         "Pressure/3d", "Pressure/planestrain", "Pressure/axi", "CauchyStress/3d", "CauchyStress/planestrain", "CauchyStress/axi",
         "MPC", "Contact", "PointLoad", "BodyForce", "Gravity", "FormItem/linear-elastic", "FormItem/neo-hooke", "ItemList", "SolidBody/linear-elastic-uniform", "FormItem/nonsymmetric"]


def kinds_for(item):
    item = item.replace("+nonsym", "")
    if item == "SolidBody/linear-elastic-uniform":
        return ["quad", "hexahedron", "quad8", "hexahedron20"]
    if item == "NearlyIncompressible/3d":
        return K3
    if item in ("SolidBody/3d", "SolidBody/linear-elastic", "SolidBody/plasticity", "MPC", "Contact", "PointLoad", "BodyForce",
                "Gravity", "FormItem/linear-elastic", "FormItem/neo-hooke", "FormItem/nonsymmetric", "ItemList"):
        return K3 + K2
    if item in ("SolidBody/mixed-threefield", "SolidBody/mixed-nearlyinc"):
        return ["hexahedron", "hexahedron20", "tetra10", "quad", "triangle6"]
    if item in ("SolidBody/mixed-axi", "SolidBody/mixed-planestrain"):
        return ["quad", "quad8", "triangle6"]
    if item == "SolidBody/mixed-fullblocks":
        return ["hexahedron", "hexahedron20", "tetra10", "quad", "quad8", "triangle6"]
    if item in ("Pressure/3d", "CauchyStress/3d"):
        return KB3
    if item in ("Pressure/planestrain", "Pressure/axi", "CauchyStress/planestrain", "CauchyStress/axi"):
        return KB2
    return K2


def strategy(item, tier):
    item = item.replace("+nonsym", "")
    axi = item.endswith("axi")
    return st.fixed_dictionaries(
        {
            "mesh": st.sampled_from(kinds_for(item)).flatmap(
                lambda k: gm.st_mesh(k, tier, max_n=(3 if gm.kind_dim(k) == 2 else 2) if "27" not in k and "20" not in k else 2, affine=not (axi or item == "Contact"),
                                     curved=True)),
            "mat": st.sampled_from(SOLID_MATS).flatmap(lambda n: st.fixed_dictionaries(
                {"name": st.just(n), "params": gmat.REG[n]["params"] if n in gmat.REG else st.fixed_dictionaries({"mu": gmat.fl(0.5, 2), "beta": gmat.fl(0.1, 1)})})),
            "H": st.lists(st.floats(-0.15, 0.15).map(lambda v: round(v, 3)), min_size=9, max_size=9),
            "uamp": st.sampled_from([0.0, 0.03, 0.08]),
            "useed": st.integers(0, 2**16),
            "pJ": st.lists(st.floats(-0.3, 0.3).map(lambda v: round(v, 3)), min_size=2, max_size=2),
            "bulk": st.sampled_from([2.0, 20.0, 500.0]),
            "load": st.floats(-2, 2).map(lambda v: round(v, 3)),
            "lseed": st.integers(0, 2**16),
            "mask": st.booleans(),
            "parallel": st.booleans(),
            "preload": st.booleans(),
            "skip": st.lists(st.booleans(), min_size=3, max_size=3),
            "mult": st.sampled_from([1.0, 10.0, 1e3]),
        }
    )


def user_material(fem, mu, beta):
    """a user-defined (non-hyperelastic) law P = mu F + beta tr(F) F: its tangent has no major symmetry"""
    I = np.eye(3)

    def stress(x, mu, beta):
        F = x[0]
        return [mu * F + beta * np.trace(F) * F, x[1]]

    def elasticity(x, mu, beta):
        F = x[0]
        one = np.ones((1, 1, 1, 1) + F.shape[2:])
        A = (mu + beta * np.trace(F)) * np.einsum("ik,jl->ijkl", I, I).reshape(3, 3, 3, 3, 1, 1) * one
        A = A + beta * np.einsum("ij...,kl->ijkl...", F, I)
        return [A]

    return fem.Material(stress, elasticity, mu=mu, beta=beta)


class ScaledPerturbedLagrange:
    """user two-field (u, p) law  r_u = P(F) + p J F^-T,  r_p = alpha (J - 1 - p / bulk): for alpha != 1 it has no
    potential, K_pu != K_up^T, and the hessian must list all nv * nu blocks row-major (the 'full' block layout)."""

    def __init__(self, fem, material, bulk, alpha):
        self.fem, self.material, self.bulk, self.alpha = fem, material, bulk, alpha
        self.x = [material.x[0], np.ones(1), material.x[-1]]

    def gradient(self, x):
        m = self.fem.math
        [F, p], sv = x[:2], x[-1]
        J = m.det(F)
        iFT = m.transpose(m.inv(F, determinant=J))
        P, svn = self.material.gradient([F, sv])
        return [P + p * J * iFT, self.alpha * (J - 1 - p / self.bulk), svn]

    def hessian(self, x):
        m = self.fem.math
        [F, p], sv = x[:2], x[-1]
        J = m.det(F)
        iFT = m.transpose(m.inv(F, determinant=J))
        A = self.material.hessian([F, sv])[0] + p * J * (m.dya(iFT, iFT) - m.cdya_il(iFT, iFT))
        return [A, J * iFT, self.alpha * J * iFT, -self.alpha / self.bulk * np.ones_like(p)]


def set_state(fc, X, case, dim):
    """affine + random nodal displacement on the first field, random p / J on the others."""
    H = np.array(case["H"]).reshape(3, 3)[:dim, :dim]
    rng = np.random.default_rng(case["useed"])
    h = float(np.ptp(X, axis=0).min()) / 3
    u = (X - X.mean(0)) @ H.T + case["uamp"] * h * rng.uniform(-1, 1, X.shape)
    f0 = fc.fields[0]
    f0.values[...] = u[:, : f0.dim]
    if len(fc.fields) > 1:
        fc.fields[1].values[...] = case["pJ"][0] + 0.1 * rng.uniform(-1, 1, fc.fields[1].values.shape)
        if len(fc.fields) > 2:
            fc.fields[2].values[...] = 1 + case["pJ"][1] * 0.5 + 0.05 * rng.uniform(-1, 1, fc.fields[2].values.shape)


def flat(fc):
    return np.concatenate([f.values.ravel() for f in fc.fields]).astype(float)


def setx(fc, x):
    off = 0
    for f in fc.fields:
        n = f.values.size
        f.values[...] = x[off : off + n].reshape(f.values.shape)
        off += n


def dense(v, n):
    a = np.asarray(v.toarray(), float)
    if a.ndim == 2 and a.shape[1] == 1:
        a = a.ravel()
        if a.size < n:
            a = np.pad(a, (0, n - a.size))
        return a
    if a.shape[0] < n:
        a = np.pad(a, ((0, n - a.shape[0]), (0, n - a.shape[1])))
    return a


def check(item, case, rec):
    fem = import_felupe()
    from felupe.tools._newton import fun_items, jac_items

    if item.endswith("+nonsym"):
        # material class without a potential (tangent without major symmetry): enumerated, not left to chance
        item = item[: -len("+nonsym")]
        case = dict(case)
        p = case["mat"]["params"]
        case["mat"] = {"name": "user:nonsymmetric-tangent", "params": {"mu": 1.0 + abs(case["load"]), "beta": 0.2 + 0.3 * abs(case["pJ"][0])}}
    spec = dict(case["mesh"])
    axi = item.endswith("axi")
    if axi:
        spec["a"] = [spec["a"][0], abs(spec["a"][1]) + 0.4]
    # item 'linear-elastic-uniform': an equidistant axis-parallel grid with the compressed storage of a uniform region
    # (a tangent that is constant over the cells is then broadcast from one cell to all)
    uniform = item == "SolidBody/linear-elastic-uniform"
    if uniform:
        item = "SolidBody/linear-elastic"
        spec.update(jitter=0.0, affine=None, ratio=None, curve=0.0)
    mesh, info = gm.build(spec)
    dim = info["dim"]
    region = gm.region(mesh, info, uniform=True) if uniform else gm.region(mesh, info)
    if uniform:
        rec.label("uniform-region")
    X = np.array(mesh.points)
    rng = np.random.default_rng(case["lseed"])
    par = case["parallel"]
    symmetric = False
    settle = False
    mname, mpar = case["mat"]["name"], case["mat"]["params"]

    def vector_field(kind):
        if kind == "planestrain":
            return fem.FieldPlaneStrain(region, dim=2)
        if kind == "axi":
            return fem.FieldAxisymmetric(region, dim=2)
        return fem.Field(region, dim=dim)

    fkind = "3d"
    if "planestrain" in item:
        fkind = "planestrain"
    if axi:
        fkind = "axi"
    items = None
    extra_fd = None
    if item.startswith("SolidBody/") and not item.startswith("SolidBody/mixed"):
        fc = fem.FieldContainer([vector_field(fkind)])
        if item == "SolidBody/linear-elastic":
            um = fem.LinearElastic(E=2.0 + abs(case["load"]), nu=0.3)
            symmetric = True
        elif item == "SolidBody/plasticity":
            um = fem.LinearElasticPlasticIsotropicHardening(E=100.0, nu=0.3, sy=1.0, K=10.0)
        elif mname == "user:nonsymmetric-tangent":
            um = user_material(fem, mpar["mu"], mpar["beta"])
            symmetric = False
        else:
            um = gmat.build(mname, mpar)
            symmetric = gmat.REG[mname]["hyper"] and gmat.REG[mname]["nstate"] == 0
        if dim == 2 and fkind == "3d":
            # a plain 2-D field needs a 2-D constitutive law
            um = fem.constitution.LinearElasticPlaneStrain(E=2.0 + abs(case["load"]), nu=0.3)
            symmetric = True
        if case["lseed"] % 4 == 0:
            # the documented apply= hook (a callable applied on the assembled vector and matrix alike): rows scaled by a
            # diagonal operator; the scaled matrix is the derivative of the scaled vector, but no longer symmetric
            from scipy.sparse import diags

            T = diags(1.0 + 0.5 * np.sin(1.0 + np.arange(int(sum(fc.fieldsizes)))))
            body = fem.SolidBody(um, fc, apply=lambda A_: T @ A_)
            symmetric = False
            rec.label("apply-hook")
        else:
            body = fem.SolidBody(um, fc)
        set_state(fc, X, case, dim)
        registry = item in ("SolidBody/3d", "SolidBody/planestrain", "SolidBody/axi") and not (dim == 2 and fkind == "3d") and mname in gmat.REG
        ns = gmat.REG[mname]["nstate"] if registry else (28 if item == "SolidBody/plasticity" else 0)
        fun = gmat.REG[mname].get("fun") if registry else None
        if item == "SolidBody/plasticity":
            fc.fields[0].values[...] *= 0.3
        if ns and fun == "finite_strain_viscoelastic":
            body.results.statevars[[0, 3, 5]] = 1.0  # virgin state: C_in = I
        if ns and (case["preload"] or fun == "finite_strain_viscoelastic"):
            # reach a stored state by a pre-load: evaluate at a scaled state and commit its trial state variables
            x_end = flat(fc)
            setx(fc, 1.4 * x_end)
            body.assemble.vector(fc)
            body.results.statevars = np.array(body.results._statevars, dtype=float).copy()
            setx(fc, x_end)
            rec.label("stored-state")
        items = [body]
    elif item == "SolidBody/mixed-fullblocks":
        kw = {"planestrain": True} if dim == 2 else {}
        fc = fem.FieldsMixed(region, n=2, **kw)
        alpha = (1.0, 3.0, -0.5, 0.25)[case["lseed"] % 4]
        um = ScaledPerturbedLagrange(fem, fem.NeoHooke(mu=1.0 + abs(case["load"])), case["bulk"], alpha)
        body = fem.SolidBody(um, fc)
        set_state(fc, X, case, dim)
        symmetric = alpha == 1.0
        rec.label("fullblocks:" + ("symmetric" if symmetric else "non-symmetric"))
        items = [body]
    elif item.startswith("SolidBody/mixed"):
        kw = {}
        if item.endswith("axi"):
            kw["axisymmetric"] = True
        if item.endswith("planestrain"):
            kw["planestrain"] = True
        fc = fem.FieldsMixed(region, n=3, **kw)
        base = gmat.build("NeoHooke(bulk=None)", {"mu": mpar.get("mu", 1.0) if isinstance(mpar.get("mu", 1.0), float) else 1.0})
        if item == "SolidBody/mixed-threefield" or (item != "SolidBody/mixed-nearlyinc" and case["mask"]):
            um = fem.ThreeFieldVariation(fem.NeoHooke(mu=1.0, bulk=case["bulk"]))
        else:
            if case["lseed"] % 2:
                # user-defined volumetric law U(J) = K/4 (J^2 - 1 - 2 ln J): U'' differs from K away from J = 1
                um = fem.NearlyIncompressible(base, bulk=case["bulk"], dUdJ=lambda J, bulk: bulk / 2 * (J - 1 / J),
                                              d2UdJdJ=lambda J, bulk: bulk / 2 * (1 + 1 / J**2))
                rec.label("user-volumetric-law")
            else:
                um = fem.NearlyIncompressible(base, bulk=case["bulk"])
        body = fem.SolidBody(um, fc)
        set_state(fc, X, case, dim)
        symmetric = True
        items = [body]
    elif item.startswith("NearlyIncompressible/"):
        fc = fem.FieldContainer([vector_field(fkind)])
        um = fem.NeoHooke(mu=1.0) if dim == 3 or fkind != "3d" else None
        if um is None:
            rec.reject("no 2-D hyperelastic law for a plain 2-D field")
            return
        if mname in ("tt:yeoh", "jax:mooney_rivlin", "tt:ogden") and case["mask"]:
            um = gmat.build(mname, mpar)
        body = fem.SolidBodyNearlyIncompressible(um, fc, bulk=case["bulk"])
        set_state(fc, X, case, dim)
        settle = True
        symmetric = True
        items = [body]
    elif item.startswith(("Pressure/", "CauchyStress/")):
        btmpl = {"hexahedron": "RegionHexahedronBoundary", "hexahedron20": "RegionQuadraticHexahedronBoundary", "hexahedron27": "RegionTriQuadraticHexahedronBoundary",
                 "quad": "RegionQuadBoundary", "quad8": "RegionQuadraticQuadBoundary", "quad9": "RegionBiQuadraticQuadBoundary"}[spec["kind"]]
        kw = {}
        if case["mask"]:
            kw["mask"] = X[:, 0] >= np.median(X[:, 0])
        if dim == 2:
            kw["ensure_3d"] = True
        rb = getattr(fem, btmpl)(mesh, **kw)
        if rb.mesh.ncells == 0:
            rec.reject("empty face selection")
            return
        if fkind == "planestrain":
            fb = fem.FieldPlaneStrain(rb, dim=2)
        elif fkind == "axi":
            fb = fem.FieldAxisymmetric(rb, dim=2)
        else:
            fb = fem.Field(rb, dim=dim)
        fc = fem.FieldContainer([fb])
        set_state(fc, X, case, dim)
        if item.startswith("Pressure"):
            if case["preload"]:
                # created without / with another value and ramped through update(), as a Step does
                it = fem.SolidBodyPressure(fc) if case["useed"] % 2 else fem.SolidBodyPressure(fc, pressure=-3.3)
                it.assemble.vector(fc)
                it.update(case["load"] + 0.1)
                rec.label("load-set-by-update")
            elif case["useed"] % 3 == 0:
                # the load level handed over with the assembly call itself (keyword pressure= of vector / matrix): the first matrix at
                # the new level is already the tangent of that level
                it = fem.SolidBodyPressure(fc, pressure=-1.7)
                it.assemble.vector(fc)
                K_kw = np.asarray(it.assemble.matrix(fc, pressure=case["load"] + 0.1).toarray()).copy()
                K_pl = np.asarray(it.assemble.matrix(fc).toarray())
                rec.close("matrix(pressure=p)=matrix-at-that-level", float(np.abs(K_kw - K_pl).max()) / max(float(np.abs(K_pl).max()), 1e-300), 1e-14)
                rec.label("load-set-by-the-keyword-of-the-assembly-call")
            else:
                it = fem.SolidBodyPressure(fc, pressure=case["load"] + 0.1)
            symmetric = not case["mask"] and fkind != "axi"
        else:
            sig = rng.uniform(-1, 1, (3, 3))  # a general (not symmetric) stress array
            if case["preload"]:
                it = fem.SolidBodyCauchyStress(fc) if case["useed"] % 2 else fem.SolidBodyCauchyStress(fc, cauchy_stress=np.eye(3))
                it.assemble.vector(fc)
                it.update(sig)
                rec.label("load-set-by-update")
            else:
                it = fem.SolidBodyCauchyStress(fc, cauchy_stress=sig)
        if case["useed"] % 4 == 2 and fkind not in ("axi",) and item.startswith("CauchyStress"):
            # the boundary region is re-evaluated on sheared points after the item was created (the documented
            # mesh.update(points, callback=region.reload)) and the item is NOT told: whatever geometry it then works with, vector and
            # matrix still belong together (not done for the follower pressure: its item keeps the normals it read when it was created,
            # so after such a reload it is no longer the pressure on the closed surface whose symmetry is asserted below - section 9)
            it.assemble.vector(fc)
            Sh = np.eye(dim)
            Sh[0, 1] = 0.25
            rb.mesh.update(points=np.asarray(rb.mesh.points) @ Sh.T, callback=rb.reload)
            rec.label("boundary-region-reloaded-on-sheared-points-after-the-item-was-created")
        items = [it]
    elif item in ("MPC", "Contact"):
        skip = tuple(case["skip"][:dim]) if not all(case["skip"][:dim]) else (False,) * dim
        skip = skip + (False,) * (3 - len(skip))
        if item == "MPC":
            fc = fem.FieldContainer([fem.Field(region, dim=dim)])
            set_state(fc, X, case, dim)
            npts = len(X)
            pts = rng.choice(np.arange(1, npts), size=min(4, npts - 1), replace=False)
            it = fem.MultiPointConstraint(fc, points=pts, centerpoint=0, skip=skip, multiplier=case["mult"])
        else:
            # rigid wall next to the face with the largest first coordinate: an extra (cell-less) centre point
            order = np.argsort(-X[:, 0])
            pts = np.sort(order[: min(4, len(X) - 1)])
            Xc = X[pts].mean(0)
            # every third case: the wall initially touches the outermost point(s) (zero initial gap on the normal axis)
            touching = case["useed"] % 3 == 0
            Xc[0] = X[pts, 0].max() + (0.0 if touching else 0.03)
            mesh = mesh.copy()
            mesh.update(points=np.vstack([X, Xc]))
            X = np.array(mesh.points)
            region = gm.region(mesh, info)
            fc = fem.FieldContainer([fem.Field(region, dim=dim)])
            set_state(fc, X, case, dim)
            c = len(X) - 1
            skip = (False,) + tuple(skip[1:])
            it = fem.MultiPointContact(fc, points=pts, centerpoint=c, skip=skip, multiplier=case["mult"])
            u = fc.fields[0].values
            u[c] = 0.02 * rng.uniform(-1, 1, dim)
            act = ~np.array(skip[:dim], bool)
            gap0 = X[c] - X[pts]
            # normal direction: prescribe the current gap (x_c - x_t) away from zero, about half of the points closed
            for k, p in enumerate(pts):
                want_closed = (k + case["lseed"]) % 2 == 0
                target = (-1.0 if want_closed else 1.0) * (0.01 + 0.04 * rng.uniform())
                u[p, 0] = (X[c, 0] + u[c, 0]) - X[p, 0] - target
            gap = (u[c] + X[c]) - (u[pts] + X[pts])
            if np.abs(gap[:, act]).min() < 1e-3:
                rec.reject("gap too close to the switching point")
                return
            if (np.abs(gap0[:, act]) < 1e-12).any():
                rec.label("contact:initially-touching")
            closed = (np.sign(gap0) != np.sign(gap))[:, act]
            rec.label("contact:closed+open" if closed.any() and (~closed).any() else "contact:one-sided")
        symmetric = True
        items = [it]
    elif item == "PointLoad":
        fc = fem.FieldsMixed(region, n=2) if (case["mask"] and spec["kind"] in ("hexahedron", "quad")) else fem.FieldContainer([fem.Field(region, dim=dim)])
        ring = dim == 2 and len(fc.fields) == 1 and case["useed"] % 2 == 1
        if ring:
            # ring loads on an axisymmetric field (axisymmetric=True): scaled by 2 pi R of the UNDEFORMED point positions - a dead load
            # whose tangent is zero
            fc = fem.FieldContainer([fem.FieldAxisymmetric(region, dim=2)])
            rec.label("pointload:ring-loads")
        set_state(fc, X, case, dim)
        pts = np.unique(rng.choice(len(X), size=min(3, len(X)), replace=False))
        it = fem.PointLoad(fc, points=pts, values=rng.uniform(-1, 1, (len(pts), dim)), axisymmetric=ring)
        symmetric = True
        items = [it]
    elif item in ("BodyForce", "Gravity"):
        fc = fem.FieldContainer([fem.Field(region, dim=dim)])
        set_state(fc, X, case, dim)
        if item == "BodyForce":
            it = fem.SolidBodyForce(fc, values=rng.uniform(-1, 1, dim).tolist(), scale=case["load"] + 0.1)
        else:
            it = fem.SolidBodyGravity(fc, gravity=rng.uniform(-1, 1, dim).tolist(), density=abs(case["load"]) + 0.1)
        symmetric = True
        items = [it]
    elif item.startswith("FormItem"):
        from felupe.math import ddot, det, dot, grad, inv, sym, trace, transpose

        fc = fem.FieldContainer([fem.Field(region, dim=dim)])
        set_state(fc, X, case, dim)
        mu, lm = 1.0 + abs(case["load"]), 2.0
        if item.endswith("nonsymmetric"):
            # a weak form without symmetry (Cauchy-elastic law sigma = mu H + beta tr(H) H^T-free part): a(v, u) != a(u, v)
            Wc = np.array([[0.3, 1.1, -0.4], [0.0, 0.7, 0.9], [-0.6, 0.2, 0.5]])[:dim, :dim].reshape(dim, dim, 1, 1)

            @fem.Form(v=fc, u=fc)
            def bform():
                def a(v, u, **kw):
                    return mu * ddot(grad(v), dot(Wc, grad(u)))

                return [a]

            @fem.Form(v=fc)
            def lform():
                def L(v, **kw):
                    H = fc.extract(grad=True, sym=False, add_identity=False)[0]
                    return mu * ddot(grad(v), dot(Wc, H))

                return [L]

            it = fem.FormItem(bform, lform, sym=False)
            symmetric = False
        elif item.endswith("linear-elastic"):
            @fem.Form(v=fc, u=fc)
            def bform():
                def a(v, u, **kw):
                    de, e = sym(grad(v)), sym(grad(u))
                    return 2 * mu * ddot(de, e) + lm * trace(de) * trace(e)

                return [a]

            @fem.Form(v=fc)
            def lform():
                def L(v, **kw):
                    e = sym(fc.extract(grad=True, sym=False, add_identity=False)[0])
                    return 2 * mu * ddot(sym(grad(v)), e) + lm * trace(grad(v)) * trace(e)

                return [L]

            it = fem.FormItem(bform, lform, sym=case["mask"])
            symmetric = True
        else:
            # the shear modulus reaches the weak forms through the item's keyword arguments and is set by update(), the way
            # a Step ramps a FormItem (ramp_item = 0)
            def P_of(F, mu):
                J = det(F)
                iFT = transpose(inv(F, J))
                return mu * (F - iFT) + lm * np.log(J) * iFT

            @fem.Form(v=fc)
            def lform():
                def L(v, shear, **kw):
                    F = fc.extract()[0]
                    return ddot(P_of(F, shear), grad(v))

                return [L]

            @fem.Form(v=fc, u=fc)
            def bform():
                def a(v, u, shear, **kw):
                    mu = shear
                    F = fc.extract()[0]
                    J = det(F)
                    iFT = transpose(inv(F, J))
                    dv, du = grad(v), grad(u)
                    t1 = ddot(dv, du)
                    # d(iFT):dU = -iFT dU^T iFT
                    A = dot(dot(iFT, transpose(du)), iFT)
                    return mu * t1 + (mu - lm * np.log(J)) * ddot(dv, A) + lm * ddot(iFT, du) * ddot(iFT, dv)

                return [a]

            it = fem.FormItem(bform, lform, sym=False, kwargs={"shear": 0.37, "unused": 1.0}, ramp_item=0)
            it.update(mu)
            symmetric = True
            # the same law as a solid body: the item assembles the same vector
            ref_body = fem.SolidBody(fem.NeoHookeCompressible(mu=mu, lmbda=lm), fc)
            rv = np.asarray(ref_body.assemble.vector(fc).toarray()).ravel()
            gv = np.asarray(it.assemble.vector(fc).toarray()).ravel()
            rec.close("form-item-vector=solid-body-vector", float(np.abs(gv - rv).max()) / max(float(np.abs(rv).max()), 1e-12), 1e-10)
        items = [it]
    elif item == "ItemList":
        fc = fem.FieldContainer([fem.Field(region, dim=dim)])
        set_state(fc, X, case, dim)
        um = fem.NeoHooke(mu=1.0, bulk=5.0) if dim == 3 else fem.constitution.LinearElasticPlaneStrain(E=3.0, nu=0.3)
        body = fem.SolidBody(um, fc)
        pts = np.unique(rng.choice(len(X), size=min(3, len(X)), replace=False))
        pl = fem.PointLoad(fc, points=pts, values=rng.uniform(-1, 1, (len(pts), dim)))
        mpc = fem.MultiPointConstraint(fc, points=rng.choice(np.arange(1, len(X)), size=2, replace=False), centerpoint=0, multiplier=case["mult"])
        bf = fem.SolidBodyForce(fc, values=rng.uniform(-1, 1, dim).tolist(), scale=0.5)
        # an item whose vector and matrix are scaled by its multiplier; 0.0 = a switched-off body (edge of the documented domain)
        m2 = 0.0 if case["useed"] % 5 == 0 else 0.5 + case["mult"] / 20
        body2 = fem.SolidBody(um, fc, multiplier=m2)
        rec.label("item-multiplier=0" if m2 == 0.0 else "item-multiplier")
        items = [body, body2, pl, mpc, bf][: 2 + case["useed"] % 4]
        symmetric = True
    else:
        raise KeyError(item)

    # ---- validity of the state: det F >= 0.3 at all quadrature points of the (volume) region
    if not item.startswith(("Pressure", "CauchyStress")):
        F = fc.extract()[0]
        Fm = np.moveaxis(np.asarray(F), (0, 1), (-2, -1))
        if np.linalg.det(Fm).min() < 0.3:
            rec.reject("det F < 0.3")
            return
        rec.nontrivial = bool(np.abs(Fm - np.eye(Fm.shape[-1])).max() >= 0.05 and mesh.ncells >= 2)
    else:
        rec.nontrivial = mesh.ncells >= 2
    n = int(sum(fc.fieldsizes))
    x0 = flat(fc).copy()
    rec.label(f"n={min(n // 50 * 50, 300)}+")
    rec.label("parallel" if par else "sequential")
    single = items[0] if len(items) == 1 else None
    # every second single-item case hands the state over in a foreign container (a copy of the item's own one), the way
    # a job passes the global field to its items
    foreign = single is not None and not settle and not item.startswith("FormItem") and case["lseed"] % 2 == 1
    fq = fc.copy() if foreign else fc
    if foreign:
        rec.label("state-in-foreign-container")

    def vec(x):
        setx(fq, x)
        if single is not None:
            r = single.assemble.vector(fq, parallel=par)
            if settle:
                r = single.assemble.vector(fq, parallel=par)
            return dense(r, n).copy()
        return np.array(fun_items(items, fc, parallel=par), dtype=float).copy()

    def mat():
        setx(fq, x0)
        if single is not None:
            if settle:
                single.assemble.vector(fq, parallel=par)
                single.assemble.vector(fq, parallel=par)
            K = single.assemble.matrix(fq, parallel=par)
            return dense(K, n).copy()
        fun_items(items, fc, parallel=par)
        return np.asarray(jac_items(items, fc, parallel=par).toarray(), float).copy()

    K = mat()
    h = 1e-6
    Kfd = np.zeros((n, n))
    for j in range(n):
        e = np.zeros(n)
        e[j] = h
        Kfd[:, j] = (vec(x0 + e) - vec(x0 - e)) / (2 * h)
    setx(fc, x0)
    if K.shape != Kfd.shape:
        rec.require("matrix-shape", False, [K.shape, Kfd.shape])
        return
    sc = max(float(np.abs(K).max()), float(np.abs(Kfd).max()), 1e-12)
    tol = 2e-6
    if item == "SolidBody/plasticity":
        tol = 1e-4
    rec.close("K=dr/dx", float(np.abs(K - Kfd).max()) / sc, tol, {"material": mname if item.startswith("SolidBody/") else None, "kind": spec["kind"], "n": n})
    if symmetric:
        rec.close("K-symmetric", float(np.abs(K - K.T).max()) / sc, 1e-10)
    # the matrix does not depend on evaluation order (vector first or not)
    K2 = mat()
    rec.close("matrix-reproducible", float(np.abs(K2 - K).max()) / sc, 1e-12)


# ---------------------------------------------------------------------------------------------------------------
# family lifecycle: an item that has been used before answers like a freshly built one
# ---------------------------------------------------------------------------------------------------------------
LIFE = ["solid/3d", "solid/planestrain", "solid/axi", "solid/mixed", "solid/nonsym", "pressure/3d", "pressure/axi", "cauchy/3d", "bodyforce/3d", "bodyforce/axi",
        "pointload/3d"]


def life_strategy(kind, tier):
    op = st.one_of(
        st.fixed_dictionaries({"op": st.just("state"), "seed": st.integers(0, 2**16), "amp": st.sampled_from([0.05, 0.15])}),
        st.fixed_dictionaries({"op": st.sampled_from(["vector", "matrix"]), "how": st.sampled_from(["own", "foreign", "none"]), "parallel": st.booleans()}),
        st.fixed_dictionaries({"op": st.just("update"), "seed": st.integers(0, 2**16)}),
    )
    return st.fixed_dictionaries({"n": st.lists(st.integers(2, 3), min_size=3, max_size=3), "jseed": st.integers(0, 2**16), "mu": st.sampled_from([0.7, 1.0, 2.5]),
                                  "ops": st.lists(op, min_size=3, max_size=8)})


def life_check(kind, case, rec):
    """a generated program of state changes, load updates and assemblies (own container, a foreign copy handed over as field=, or
    no argument = the state the item has seen last) runs on ONE item; after every assembly the result is compared with
    that of an item built from scratch on a fresh container holding the same state and load values"""
    fem = import_felupe()
    what, fk = kind.split("/")
    dim = 2 if fk in ("planestrain", "axi") else 3
    a0 = (0.0, 0.5) if fk == "axi" else (0.0,) * dim
    mesh = (fem.Rectangle if dim == 2 else fem.Cube)(a=tuple(a0), b=tuple(np.array(a0) + 1.0), n=tuple(case["n"][:dim]))
    X = np.array(mesh.points)
    lo, hi = X.min(0), X.max(0)
    inner = ~np.any((np.abs(X - lo) < 1e-12) | (np.abs(X - hi) < 1e-12), axis=1)
    X[inner] += 0.1 / max(case["n"]) * np.random.default_rng(case["jseed"]).uniform(-1, 1, (int(inner.sum()), dim))
    mesh.update(points=X)
    region = (fem.RegionQuad if dim == 2 else fem.RegionHexahedron)(mesh)
    boundary = what in ("pressure", "cauchy")
    if boundary:
        kwb = {"ensure_3d": True} if dim == 2 else {}
        rb = (fem.RegionQuadBoundary if dim == 2 else fem.RegionHexahedronBoundary)(mesh, mask=X[:, 0] >= np.median(X[:, 0]), **kwb)

    def container():
        reg = rb if boundary else region
        if what == "solid" and fk == "mixed":
            return fem.FieldsMixed(reg, n=3)
        f = fem.FieldPlaneStrain(reg, dim=2) if fk == "planestrain" else fem.FieldAxisymmetric(reg, dim=2) if fk == "axi" else fem.Field(reg, dim=dim)
        return fem.FieldContainer([f])

    mu = case["mu"]

    def make(fc, load):
        if what == "solid":
            if fk == "mixed":
                return fem.SolidBody(fem.NearlyIncompressible(fem.NeoHooke(mu=mu), bulk=20.0 * mu), fc)
            if fk == "nonsym":
                return fem.SolidBody(user_material(fem, mu, 0.3), fc)
            return fem.SolidBody(fem.NeoHooke(mu=mu, bulk=5.0 * mu), fc)
        if what == "pressure":
            return fem.SolidBodyPressure(fc, pressure=float(load[0]))
        if what == "cauchy":
            sig = np.diag(load[:3]) + 0.1 * np.ones((3, 3))
            return fem.SolidBodyCauchyStress(fc, cauchy_stress=sig)
        if what == "bodyforce":
            return fem.SolidBodyForce(fc, values=load[: fc.fields[0].dim].tolist(), scale=1.7)
        return fem.PointLoad(fc, points=[0, len(X) - 1], values=np.tile(load[: fc.fields[0].dim], (2, 1)))

    def update(it, load):
        if what == "pressure":
            it.update(float(load[0]))
        elif what == "cauchy":
            it.update(np.diag(load[:3]) + 0.1 * np.ones((3, 3)))
        elif what == "bodyforce":
            it.update(load[: it.field.fields[0].dim].tolist())
        elif what == "pointload":
            it.update(np.tile(load[: it.field.fields[0].dim], (2, 1)))

    def set_values(fc, state):
        off = 0
        for f in fc.fields:
            n_ = f.values.size
            f.values[...] = state[off : off + n_].reshape(f.values.shape)
            off += n_

    own = container()
    nall = int(sum(own.fieldsizes))
    state = np.zeros(nall)
    if len(own.fields) > 2:
        state[-own.fields[2].values.size :] = 1.0
    set_values(own, state)
    load = np.array([0.3, -0.2, 0.5])
    it = make(own, load)
    bound_state = state.copy()  # the state the item has seen last (construction, or the last assembly with a field handed over)
    bound = own
    n_asm = 0
    for k, o in enumerate(case["ops"]):
        if o["op"] == "state":
            r = np.random.default_rng(o["seed"])
            nu_ = own.fields[0].values.size
            state = state.copy()
            state[:nu_] = (o["amp"] * np.sin(3.0 * np.asarray(mesh.points) + r.uniform(0, 6, dim)) * r.uniform(0.3, 1.0, dim)).ravel()
            if len(own.fields) > 1:
                state[nu_:] = np.concatenate([0.1 * r.uniform(-1, 1, own.fields[1].values.size), 1 + 0.05 * r.uniform(-1, 1, own.fields[2].values.size)])
            set_values(own, state)
        elif o["op"] == "update":
            if what == "solid":
                continue
            load = np.round(np.random.default_rng(o["seed"]).uniform(-1, 1, 3), 3)
            update(it, load)
            if what in ("pressure", "cauchy"):
                bound_state = state  # update() re-initialises these items: the kinematics are extracted anew from their container
        else:
            if o["how"] == "own":
                arg, at = own, state
                bound, bound_state = own, state
            elif o["how"] == "foreign":
                arg = container()
                set_values(arg, state)
                at = state
                bound, bound_state = arg, state
            else:
                # without a field the item answers for the state it has seen last (at construction or in the last call with a
                # field) - felupe keeps the extracted kinematics, not a view on the container
                arg, at = None, bound_state
            fresh_fc = container()
            set_values(fresh_fc, at)
            fresh = make(fresh_fc, load)
            fn = (lambda b, *a_, **kw: b.assemble.vector(*a_, **kw)) if o["op"] == "vector" else (lambda b, *a_, **kw: b.assemble.matrix(*a_, **kw))
            got = fn(it, *(() if arg is None else (arg,)), parallel=o["parallel"])
            ref = fn(fresh, fresh_fc)
            g, r_ = np.asarray(got.toarray(), float), np.asarray(ref.toarray(), float)
            n_asm += 1
            name = f'{o["op"]}-of-a-used-item=that-of-a-fresh-item'
            if g.shape != r_.shape:
                rec.require(name, False, {"shapes": [g.shape, r_.shape], "step": k, "how": o["how"]})
                return
            rec.close(name, float(np.abs(g - r_).max()) / max(float(np.abs(r_).max()), 1e-12), 1e-12, {"step": k, "how": o["how"], "ops": [x_["op"] for x_ in case["ops"][: k + 1]]})
    rec.nontrivial = n_asm >= 2
    rec.label(f"assemblies={min(n_asm, 4)}")


# ---------------------------------------------------------------------------------------------------------------
# per-call material arguments: assemble.vector / assemble.matrix(field, kwargs=...) hand them to umat.gradient / umat.hessian
# ---------------------------------------------------------------------------------------------------------------
def kw_strategy(kind, tier):
    return st.fixed_dictionaries({"n": st.lists(st.integers(2, 3), min_size=3, max_size=3), "seed": st.integers(0, 2**16), "T": st.floats(5.0, 60.0).map(lambda v: round(v, 1)),
                                  "mu": st.floats(0.5, 2.0).map(lambda v: round(v, 2)), "parallel": st.booleans()})


def kw_check(kind, case, rec):
    """a material whose gradient / hessian take an optional per-call keyword (a temperature that softens the shear modulus): the vector
    and the matrix assembled with kwargs={"temperature": T} are those of the same body whose material has T as its default, and the
    matrix is the derivative of the vector at that T"""
    fem = import_felupe()

    class Thermo:
        def __init__(self, mu, bulk, T0=0.0):
            self.base, self.T0 = fem.NeoHooke(mu=mu, bulk=bulk), T0
            self.x = self.base.x

        def _f(self, temperature):
            return 1.0 / (1.0 + 0.02 * (self.T0 if temperature is None else temperature))

        def gradient(self, x, temperature=None):
            P, sv = self.base.gradient(x)
            return [self._f(temperature) * P, sv]

        def hessian(self, x, temperature=None):
            return [self._f(temperature) * self.base.hessian(x)[0]]

    mesh = fem.Cube(n=tuple(case["n"]))
    region = fem.RegionHexahedron(mesh)
    rng = np.random.default_rng(case["seed"])
    u = 0.08 * rng.uniform(-1, 1, mesh.points.shape)
    f1, f2 = (fem.FieldContainer([fem.Field(region, dim=3, values=u.copy())]) for _ in range(2))
    T = case["T"]
    b_kw = fem.SolidBody(Thermo(case["mu"], 5.0), f1)
    b_df = fem.SolidBody(Thermo(case["mu"], 5.0, T0=T), f2)
    par = case["parallel"]
    r_kw = np.asarray(b_kw.assemble.vector(f1, kwargs={"temperature": T}, parallel=par).toarray()).ravel().copy()
    K_kw = np.asarray(b_kw.assemble.matrix(f1, kwargs={"temperature": T}, parallel=par).toarray()).copy()
    r_df = np.asarray(b_df.assemble.vector(f2, parallel=par).toarray()).ravel()
    K_df = np.asarray(b_df.assemble.matrix(f2, parallel=par).toarray())
    rec.nontrivial = True
    rec.close("vector(kwargs=T)=vector-of-the-material-with-default-T", float(np.abs(r_kw - r_df).max()) / float(np.abs(r_df).max()), 1e-13, {"T": T})
    rec.close("matrix(kwargs=T)=matrix-of-the-material-with-default-T", float(np.abs(K_kw - K_df).max()) / float(np.abs(K_df).max()), 1e-13, {"T": T})
    r0 = np.asarray(b_kw.assemble.vector(f1).toarray()).ravel()
    rec.require("without-kwargs-the-default-applies", float(np.abs(r0 - r_kw).max()) > 1e-3 * float(np.abs(r_kw).max()))


# ---------------------------------------------------------------------------------------------------------------
# the item-free helpers tools.fun / tools.jac (what newtonrhapson assembles from a bare umat): same extraction flags on both sides
# ---------------------------------------------------------------------------------------------------------------
def fj_strategy(kind, tier):
    return st.fixed_dictionaries({"n": st.lists(st.integers(2, 3), min_size=3, max_size=3), "seed": st.integers(0, 2**16), "mu": st.floats(0.5, 2.0).map(lambda v: round(v, 2)),
                                  "c": st.floats(0.5, 5.0).map(lambda v: round(v, 2)), "parallel": st.booleans()})


def fj_check(kind, case, rec):
    """a non-linear law written in the displacement gradient it is handed (stress 2 mu H + 4 c (H:H) H, meant for the symmetrised
    gradient): jac(...) is the derivative of fun(...) for the flags sym=True / sym=False alike"""
    fem = import_felupe()
    mu, c_ = case["mu"], case["c"]

    class InH:
        x = [np.eye(3), np.zeros(0)]

        def gradient(self, x):
            H = x[0]
            hh = np.einsum("ij...,ij...->...", H, H)
            return [2 * mu * H + 4 * c_ * hh * H, x[-1]]

        def hessian(self, x):
            H = x[0]
            hh = np.einsum("ij...,ij...->...", H, H)
            I4 = np.einsum("ik,jl->ijkl", np.eye(3), np.eye(3))
            if sym:
                # a law for the symmetrised gradient has a minor-symmetric tangent (it only ever sees symmetric perturbations)
                I4 = 0.5 * (I4 + np.einsum("il,jk->ijkl", np.eye(3), np.eye(3)))
            return [(2 * mu + 4 * c_ * hh) * I4.reshape(3, 3, 3, 3, 1, 1) + 8 * c_ * np.einsum("ij...,kl...->ijkl...", H, H)]

    mesh = fem.Cube(n=tuple(case["n"]))
    region = fem.RegionHexahedron(mesh)
    rng = np.random.default_rng(case["seed"])
    u0 = 0.15 * rng.uniform(-1, 1, mesh.points.shape)
    fc = fem.FieldContainer([fem.Field(region, dim=3, values=u0.copy())])
    sym = kind == "sym=True"
    um = InH()
    kw = dict(umat=um, parallel=case["parallel"], grad=True, add_identity=False, sym=sym)
    from felupe.tools._newton import fun as fun_umat, jac as jac_umat  # (felupe.tools.fun / jac are the item versions)

    Ks = jac_umat(fc, **kw)
    K = np.asarray(Ks.toarray() if hasattr(Ks, "toarray") else Ks, float).copy()
    h = 1e-6
    fd = np.zeros_like(K)
    for j in range(u0.size):
        e = np.zeros(u0.size)
        e[j] = h
        fc[0].values[...] = (u0.ravel() + e).reshape(u0.shape)
        rp = np.asarray(fun_umat(fc, **kw)).ravel().copy()
        fc[0].values[...] = (u0.ravel() - e).reshape(u0.shape)
        rm = np.asarray(fun_umat(fc, **kw)).ravel().copy()
        fd[:, j] = (rp - rm) / (2 * h)
    fc[0].values[...] = u0
    rec.nontrivial = True
    rec.close("tools.jac=d(tools.fun)/du", float(np.abs(K - fd).max()) / float(np.abs(K).max()), 2e-6, {"sym": sym})


FAMILIES = [Family("tools-fun-jac", ["sym=True", "sym=False"], fj_check, strategy=fj_strategy, n={"quick": 3, "thorough": 40}, chunk=3),
            Family("material-kwargs", ["solid/3d"], kw_check, strategy=kw_strategy, n={"quick": 6, "thorough": 100}, chunk=6),
            Family("tangent", ITEMS, check, strategy=strategy, n={"quick": 8, "thorough": 96}, chunk=4, weight=3),
            Family("lifecycle", LIFE, life_check, strategy=life_strategy, n={"quick": 12, "thorough": 300}, chunk=12)]

LEVEL_TEXT = (
    "Every item / field-kind combination enumerated; Hypothesis draws meshes, states, materials and loads; the dense "
    "assembled matrix is compared with central finite differences of the assembled vector with respect to all unknowns "
    "(also through tools.fun_items / jac_items); symmetry asserted where the property demands it."
)
LEVEL_NOTE = "finite differences resolve errors >= 2e-6 relative; systems of <= ~300 unknowns; contact away from the switch"
TECHNIQUE = "property-based testing (Hypothesis) with numerical-differentiation oracle on the assembled system"
