"""CLI:  python -m vf.run <ID> [--tier quick|thorough] [--replay FILE] [--family NAME ...] [--jobs N]"""
import argparse
import os
import sys


def main(argv=None):
    ap = argparse.ArgumentParser()
    ap.add_argument("prop")
    ap.add_argument("--tier", default=os.environ.get("VERIF_TIER", "quick"), choices=["quick", "thorough"])
    ap.add_argument("--replay")
    ap.add_argument("--family", action="append")
    ap.add_argument("--jobs", type=int)
    a = ap.parse_args(argv)
    from vf import core

    core.pin_environment()
    try:
        seed = int(os.environ.get("VERIF_SEED", "1") or "1")
    except ValueError:
        seed = 1
    try:
        if a.replay:
            return core.replay_main(a.prop.upper(), a.replay)
        return core.run_property(a.prop.upper(), a.tier, seed, jobs=a.jobs, only_family=a.family)
    except core.HarnessError as e:
        print("HARNESS-ERROR:", e, file=sys.stderr)
        return 2


if __name__ == "__main__":
    try:
        rc = main()
    except SystemExit:
        raise
    except BaseException:  # noqa
        import traceback

        traceback.print_exc()
        rc = 2
    # leave with the computed code whatever the tear-down of the imported native libraries does (a changed library has been seen to
    # crash the interpreter at exit, after the report was complete)
    sys.stdout.flush()
    sys.stderr.flush()
    os._exit(int(rc or 0))
