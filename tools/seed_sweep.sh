#!/bin/bash
# usage: tools/seed_sweep.sh "<seeds>" [ids...]  -- quick tier at several VERIF_SEED values; prints only non-clean runs and a summary
seeds=${1:-"11 12 13"}; shift
ids=${@:-C01 C02 C03 C04 C05 C06 C07 C08 C09 C10 C11 C12 C13 C14 C15 C16 C17 C18 C19 C20}
cd "$(dirname "$0")/.."
bad=0; n=0
for s in $seeds; do for p in $ids; do
  out=$(VERIF_SEED=$s VF_NO_EVIDENCE=1 /venv/bin/python -m vf.run $p --tier quick 2>&1); rc=$?; n=$((n+1))
  if [ $rc -ne 0 ]; then bad=$((bad+1)); echo "seed=$s $p exit=$rc"; echo "$out" | grep "^VIOLATION\|HARNESS-ERROR" | cut -c1-300 | head -5; fi
done; done
echo "runs=$n non-clean=$bad"
