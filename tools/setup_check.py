"""setup_cmd: verify that everything the checks need is importable offline; install hypothesis from the wheelhouse if absent."""
import importlib
import os
import subprocess
import sys

try:
    importlib.import_module("hypothesis")
except ImportError:
    subprocess.check_call([sys.executable, "-m", "pip", "install", "--no-index", "--find-links", "/opt/veriftools/wheels", "hypothesis"])
sys.path.insert(0, os.path.dirname(os.path.dirname(os.path.abspath(__file__))))
from vf import core  # noqa

fem = core.import_felupe()
import hypothesis, numpy, scipy  # noqa

print("felupe", fem.__version__, "from", fem.__file__, "| hypothesis", hypothesis.__version__, "| numpy", numpy.__version__)
