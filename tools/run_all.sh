#!/bin/bash
# usage: tools/run_all.sh quick|thorough [ids...]   -- runs the checks one after the other and prints one summary line each
tier=${1:-quick}; shift
ids=${@:-C01 C02 C03 C04 C05 C06 C07 C08 C09 C10 C11 C12 C13 C14 C15 C16 C17 C18 C19 C20}
cd "$(dirname "$0")/.."
for p in $ids; do
  /venv/bin/python -m vf.run $p --tier $tier 2>/dev/null | grep "^\[$p\|^VIOLATION\|^KNOWN" | cut -c1-260
  echo "  exit=${PIPESTATUS[0]}"
done
