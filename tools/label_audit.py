"""Which generator options never occurred? Lists the literal labels (rec.label("...")) of every check that are absent from the
label counts in evidence/<ID>.json (run the quick tier first). An option whose label never shows up is a dead branch of the
generator (e.g. a selector that can never be true) - not a check, not registered in MANIFEST.json.

usage: python tools/label_audit.py
"""
import json
import os
import re

HERE = os.path.dirname(os.path.dirname(os.path.abspath(__file__)))


def main():
    for i in range(1, 21):
        pid = f"C{i:02d}"
        src = open(os.path.join(HERE, "vf", "props", f"c{i:02d}.py")).read()
        lits = set(re.findall(r'rec\.label\(\s*"([^"]+)"\s*\)', src))
        ev = json.load(open(os.path.join(HERE, "evidence", f"{pid}.json")))
        seen = set()

        def walk(o):
            if isinstance(o, dict):
                for k, v in o.items():
                    if k == "labels" and isinstance(v, dict):
                        seen.update(v)
                    else:
                        walk(v)
            elif isinstance(o, list):
                for x in o:
                    walk(x)

        walk(ev)
        missing = [l for l in sorted(lits) if not any(s.endswith(l) for s in seen)]
        print(pid, "never seen:", missing if missing else "-")


if __name__ == "__main__":
    main()
