"""Which lines of a property's anchored files does its quick check never execute?

usage: python tools/coverage_gaps.py <ID> [--tier quick]
Runs the check in-process (VF_JOBS=1) under coverage.py (statement + branch coverage of /repo/src/felupe), then lists, for
every file named in the property's anchors, the functions with unexecuted lines. A guide for generator gaps (keyword
arguments nobody sets, branches no generated input reaches) - not a check, not registered in MANIFEST.json.
"""
import ast
import json
import os
import subprocess
import sys
import tempfile

HERE = os.path.dirname(os.path.dirname(os.path.abspath(__file__)))
REPO = os.environ.get("VF_REPO", "/repo")


def functions(path):
    tree = ast.parse(open(path).read())
    out = []
    for node in ast.walk(tree):
        if isinstance(node, (ast.FunctionDef, ast.AsyncFunctionDef)):
            out.append((node.lineno, max(getattr(n, "end_lineno", node.lineno) for n in ast.walk(node) if hasattr(n, "end_lineno")), node.name))
    return sorted(out)


def main():
    pid = sys.argv[1].upper()
    tier = "quick"
    if "--tier" in sys.argv:
        tier = sys.argv[sys.argv.index("--tier") + 1]
    prop = [json.loads(l) for l in open(os.path.join(HERE, "properties.jsonl")) if json.loads(l)["id"] == pid][0]
    import glob

    files = []
    for f in prop["anchors"]["files"]:
        if f.endswith(".py"):
            files += sorted(glob.glob(os.path.join(REPO, f))) if "*" in f else [os.path.join(REPO, f)]
    tmp = tempfile.mkdtemp(prefix="vf_cov_")
    data = os.path.join(tmp, ".coverage")
    env = dict(os.environ, VF_JOBS="1", VF_NO_EVIDENCE="1", VF_BUDGET_S="100000", VF_REPLAY_DIR=os.path.join(tmp, "replays"), COVERAGE_FILE=data)
    cmd = ["/venv/bin/python", "-m", "coverage", "run", "--branch", "--source", os.path.join(REPO, "src", "felupe"), "-m", "vf.run", pid, "--tier", tier, "--jobs", "1"]
    r = subprocess.run(cmd, cwd=HERE, env=env, capture_output=True, text=True)
    print((r.stdout.strip().splitlines() or [""])[-1][:200])
    js = os.path.join(tmp, "cov.json")
    subprocess.run(["/venv/bin/python", "-m", "coverage", "json", "-o", js, "--include", ",".join(files)], cwd=HERE, env=env, capture_output=True, text=True)
    rep = json.load(open(js))
    for f in files:
        info = rep["files"].get(f) or rep["files"].get(os.path.relpath(f, HERE))
        if info is None:
            print(f"-- {os.path.relpath(f, REPO)}: not imported / no data")
            continue
        miss = set(info["missing_lines"])
        pct = info["summary"]["percent_covered"]
        print(f"-- {os.path.relpath(f, REPO)}: {pct:.0f} % covered, {len(miss)} lines never executed")
        src = open(f).read().splitlines()
        for lo, hi, name in functions(f):
            m = sorted(l for l in miss if lo <= l <= hi)
            if m and name != "__repr__":
                first = m[0]
                print(f"     {name} (l.{lo}): {len(m)} lines, e.g. l.{first}: {src[first - 1].strip()[:90]}")
    subprocess.run(["rm", "-rf", tmp])


if __name__ == "__main__":
    main()
