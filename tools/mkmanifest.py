"""Regenerates MANIFEST.json from the property modules that exist (vf/props/cNN.py with a LEVEL_TEXT)."""
import importlib
import json
import os
import sys

HERE = os.path.dirname(os.path.dirname(os.path.abspath(__file__)))
sys.path.insert(0, HERE)
from vf import core  # noqa

core.pin_environment()
PY = "/venv/bin/python"
checks, na = [], []
for l in open(os.path.join(HERE, "properties.jsonl")):
    p = json.loads(l)
    pid = p["id"]
    path = os.path.join(HERE, "vf", "props", pid.lower() + ".py")
    if not os.path.exists(path):
        na.append(dict(property_id=pid, reason="check not built yet (planned, see DESIGN.md section 5); the technique applies"))
        continue
    mod = importlib.import_module(f"vf.props.{pid.lower()}")
    checks.append(
        dict(
            property_id=pid,
            quick_cmd=f"{PY} -m vf.run {pid} --tier quick",
            thorough_cmd=f"{PY} -m vf.run {pid} --tier thorough",
            evidence_file=f"evidence/{pid}.json",
            replay_cmd_template=f"{PY} -m vf.run {pid} --replay {{path}}",
            engine="vf",
            level_claimed=dict(category="exploration", text=mod.LEVEL_TEXT, design_ref=f"DESIGN.md section 5 ({pid})"),
            level_note=mod.LEVEL_NOTE,
            technique=mod.TECHNIQUE,
        )
    )
man = dict(
    version=1,
    setup_cmd=f"{PY} tools/setup_check.py",
    hooks=dict(
        guard="FELUPE_VERIF",
        enable="no source hooks are needed: every observation point is public API; checks import felupe from /repo/src (fresh interpreter per run)",
        baseline_off_cmd="cd /repo && /venv/bin/python -m pytest -ra -q -p no:cacheprovider --timeout=900 --continue-on-collection-errors",
        source_commits=[],
        add_only=True,
    ),
    engines=[
        dict(
            name="vf",
            path="vf/",
            serves_properties=[c["property_id"] for c in checks],
            kind_free_text="Hypothesis-driven generated-input search (seeded, sharded over 16 processes) against explicit oracles; "
            "finite configuration axes enumerated exhaustively; survey -> bucket -> shrink -> replay file",
        )
    ],
    checks=checks,
    not_applicable=na,
    notes="Exit 0 = held on everything explored, 1 = VIOLATION line(s) printed, 2 = harness error. "
    "known_findings.json lists genuine defects that are recorded rather than repaired (KNOWN-FINDING lines) and fixed ones.",
)
json.dump(man, open(os.path.join(HERE, "MANIFEST.json"), "w"), indent=1)
print("checks:", [c["property_id"] for c in checks], "not_applicable:", [n["property_id"] for n in na])
