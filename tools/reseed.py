"""Regress the archived seeded changes against the current checks.

usage: python tools/reseed.py [<ID>-<k> ...]        (default: every directory under seeded/)
For each: a scratch git worktree of /repo under /tmp, `git apply seeded/<ID>-<k>/patch.diff`, quick check with
VF_REPO=<worktree> (no evidence written, replays to a scratch dir), worktree removed. Prints one line per change:
  DETECTED <ID>-<k> <n> violation line(s) | MISSED <ID>-<k> | NOAPPLY <ID>-<k>
Exit 0 if every applied change is detected.
"""
import os
import shutil
import subprocess
import sys
import tempfile

HERE = os.path.dirname(os.path.dirname(os.path.abspath(__file__)))
PY = "/venv/bin/python"
REPO = os.environ.get("VF_REPO", "/repo")


def sh(cmd, cwd, env=None):
    e = dict(os.environ)
    e.update(env or {})
    r = subprocess.run(cmd, cwd=cwd, env=e, capture_output=True, text=True)
    return r.returncode, r.stdout, r.stderr


def main():
    names = sys.argv[1:] or sorted(d for d in os.listdir(os.path.join(HERE, "seeded")) if os.path.isfile(os.path.join(HERE, "seeded", d, "patch.diff")))
    wt = tempfile.mkdtemp(prefix="vf_reseed_wt_")
    os.rmdir(wt)
    rc, o, e = sh(["git", "-C", REPO, "worktree", "add", "--detach", wt, "HEAD"], HERE)
    if rc:
        print("cannot create worktree", e)
        return 2
    missed = 0
    try:
        for name in names:
            pid = name.split("-")[0]
            patch = os.path.join(HERE, "seeded", name, "patch.diff")
            try:
                import json

                # a change produced for one property may fall under another property's check (meta.json "decided_by")
                pid = json.load(open(os.path.join(HERE, "seeded", name, "meta.json"))).get("decided_by", pid)
            except (OSError, ValueError):
                pass
            rc, o, e = sh(["git", "apply", patch], wt)
            if rc:
                print(f"NOAPPLY {name} {e.strip()[:120]}", flush=True)
                continue
            tmp = tempfile.mkdtemp(prefix="vf_reseed_")
            try:
                rc, o, e = sh([PY, "-m", "vf.run", pid], HERE, {"VF_REPO": wt, "VF_NO_EVIDENCE": "1", "VF_REPLAY_DIR": tmp, "PYTHONPATH": ""})
            finally:
                shutil.rmtree(tmp, ignore_errors=True)
                sh(["git", "checkout", "--", "."], wt)
                sh(["git", "clean", "-fdq"], wt)
            viol = [l for l in o.splitlines() if l.startswith("VIOLATION")]
            if rc == 1 and viol:
                print(f"DETECTED {name} {len(viol)} violation line(s): {viol[0][:160]}", flush=True)
            else:
                missed += 1
                print(f"MISSED {name} exit={rc}", flush=True)
    finally:
        sh(["git", "-C", REPO, "worktree", "remove", "--force", wt], HERE)
        shutil.rmtree(wt, ignore_errors=True)
    return 1 if missed else 0


if __name__ == "__main__":
    sys.exit(main())
