"""Confirm and archive a seeded breaking change produced by an independent sub-agent.

usage: python tools/seeded.py <PROPERTY> <worktree> <k> [--no-tests]
  <worktree>/_out/change_<k>.diff, demo_<k>.py, notes_<k>.md are expected; the worktree must be clean.
Steps: demo on the clean worktree (expect exit 0) -> git apply -> demo (expect exit 1) -> full test suite with the change
(expect all pass) -> our quick check with VF_REPO=<worktree> (expect exit 1 + VIOLATION) -> git checkout.
The result is written to seeded/<PROPERTY>-<k>/ (patch.diff, demo.py, notes.md, meta.json).
"""
import json
import os
import shutil
import subprocess
import sys
import tempfile

HERE = os.path.dirname(os.path.dirname(os.path.abspath(__file__)))
PY = "/venv/bin/python"


def run(cmd, cwd, env=None, timeout=3600):
    e = dict(os.environ)
    e.update(env or {})
    r = subprocess.run(cmd, cwd=cwd, env=e, capture_output=True, text=True, timeout=timeout)
    return r.returncode, r.stdout, r.stderr


def main():
    pid, wt, k = sys.argv[1].upper(), os.path.abspath(sys.argv[2]), sys.argv[3]
    tests = "--no-tests" not in sys.argv
    out = os.path.join(wt, "_out")
    diff = os.path.join(out, f"change_{k}.diff")
    demo = os.path.join(out, f"demo_{k}.py")
    env = {"PYTHONPATH": os.path.join(wt, "src"), "FELUPE_VERBOSE": "false"}
    meta = dict(property=pid, source="independent sub-agent given only the property text and its own worktree", ran=[])
    run(["git", "checkout", "--", "src"], wt)
    rc0, o, e = run([PY, demo], wt, env)
    meta["ran"].append(f"demo on clean tree: exit {rc0}")
    rc, o, e = run(["git", "apply", diff], wt)
    if rc != 0:
        print("patch does not apply", e)
        return 2
    try:
        rc1, o1, e1 = run([PY, demo], wt, env)
        meta["ran"].append(f"demo with change: exit {rc1}: {(o1 + e1).strip().splitlines()[-1][:200] if (o1 + e1).strip() else ''}")
        if tests:
            rct, ot, et = run([PY, "-m", "pytest", "-q", "-p", "no:cacheprovider", "--timeout=900", "tests"], wt, env)
            tail = (ot.strip().splitlines() or [""])[-1]
            meta["ran"].append(f"full test suite with change: exit {rct}: {tail}")
        else:
            rct = None
        tmp = tempfile.mkdtemp(prefix="vf_seed_")
        rcc, oc, ec = run([PY, "-m", "vf.run", pid], HERE, {"VF_REPO": wt, "VF_NO_EVIDENCE": "1", "VF_REPLAY_DIR": tmp, "PYTHONPATH": ""})
        viol = [l for l in oc.splitlines() if l.startswith("VIOLATION")]
        meta["ran"].append(f"vf.run {pid} --tier quick (VF_REPO=worktree with change): exit {rcc}, {len(viol)} VIOLATION line(s)")
        meta["detected_by_quick"] = bool(rcc == 1 and viol)
        meta["violations"] = [v[:300] for v in viol[:6]]
        shutil.rmtree(tmp, ignore_errors=True)
    finally:
        run(["git", "checkout", "--", "src"], wt)
        for f in ("mesh.vtk", "result.h5", "result.vtk", "result.vtu", "result.xdmf", "result_with_cauchy.vtk", "umat.png"):
            try:
                os.remove(os.path.join(wt, f))
            except OSError:
                pass
    ok = rc0 == 0 and rc1 != 0 and (rct in (0, None))
    meta["confirmed"] = bool(ok)
    notes = open(os.path.join(out, f"notes_{k}.md")).read() if os.path.exists(os.path.join(out, f"notes_{k}.md")) else ""
    meta["needs"] = notes.strip()[:1500]
    dst = os.path.join(HERE, "seeded", f"{pid}-{k}")
    if ok:
        os.makedirs(dst, exist_ok=True)
        shutil.copy(diff, os.path.join(dst, "patch.diff"))
        shutil.copy(demo, os.path.join(dst, "demo.py"))
        if notes:
            open(os.path.join(dst, "notes.md"), "w").write(notes)
        json.dump(meta, open(os.path.join(dst, "meta.json"), "w"), indent=1)
    print(json.dumps({k_: v for k_, v in meta.items() if k_ != "needs"}, indent=1))
    return 0 if ok else 1


if __name__ == "__main__":
    sys.exit(main())
