"""Apply each patch of mutants/<ID>/ (or the given patch files) to a scratch copy of /repo/src and run the quick check
against it (VF_REPO=<scratch>); a mutant is 'killed' when the check exits 1 with a VIOLATION line.

usage: python tools/sensitivity.py C17 [patch ...] [--tier quick] [--family NAME]
"""
import glob
import os
import shutil
import subprocess
import sys
import tempfile

HERE = os.path.dirname(os.path.dirname(os.path.abspath(__file__)))


def main():
    args = [a for a in sys.argv[1:] if not a.startswith("--")]
    opts = [a for a in sys.argv[1:] if a.startswith("--")]
    pid = args[0].upper()
    def decided_by(patch):
        # a seeded change produced for one property may fall under another property's check (meta.json "decided_by")
        import json

        try:
            return json.load(open(os.path.join(os.path.dirname(patch), "meta.json"))).get("decided_by", os.path.basename(os.path.dirname(patch)).split("-")[0])
        except (OSError, ValueError):
            return os.path.basename(os.path.dirname(patch)).split("-")[0]

    seeded = [q for q in glob.glob(os.path.join(HERE, "seeded", "*", "patch.diff")) if decided_by(q) == pid]
    patches = args[1:] or sorted(glob.glob(os.path.join(HERE, "mutants", pid, "*.json")) + glob.glob(os.path.join(HERE, "mutants", pid, "*.patch")) + seeded)
    extra = []
    for o in opts:
        k, _, v = o.partition("=")
        extra += [k, v] if v else [k]
    res = []
    for p in patches:
        tmp = tempfile.mkdtemp(prefix="vf_mut_")
        try:
            shutil.copytree("/repo/src", os.path.join(tmp, "src"), ignore=shutil.ignore_patterns("__pycache__"))
            if p.endswith(".json"):
                import json

                ok = True
                for m in json.load(open(p))["replace"]:
                    fp = os.path.join(tmp, m["file"])
                    txt = open(fp).read()
                    if txt.count(m["old"]) != m.get("count", 1):
                        res.append((p, "PATCH-FAILED", f"{m['old']!r} occurs {txt.count(m['old'])}x in {m['file']}"))
                        ok = False
                        break
                    open(fp, "w").write(txt.replace(m["old"], m["new"]))
                if not ok:
                    continue
            else:
                r = subprocess.run(["patch", "-p1", "-s", "-d", tmp, "-i", os.path.abspath(p)], capture_output=True, text=True)
                if r.returncode != 0:
                    res.append((p, "PATCH-FAILED", r.stdout + r.stderr))
                    continue
            env = dict(os.environ, VF_REPO=tmp, VF_NO_EVIDENCE="1", VF_REPLAY_DIR=os.path.join(tmp, "replays"))
            r = subprocess.run(["/venv/bin/python", "-m", "vf.run", pid] + extra, cwd=HERE, env=env, capture_output=True, text=True)
            viol = [l for l in r.stdout.splitlines() if l.startswith("VIOLATION")]
            status = "KILLED" if r.returncode == 1 and viol else ("HARNESS-ERROR" if r.returncode == 2 else "SURVIVED")
            res.append((p, status, "\n".join(viol[:3]) + ("\n" + r.stderr[-1500:] if status == "HARNESS-ERROR" else "")))
        finally:
            shutil.rmtree(tmp, ignore_errors=True)
    for p, s, d in res:
        print(f"{s:14s} {os.path.relpath(p, HERE)}")
        if d:
            print("    " + d.replace("\n", "\n    ")[:1200])
    return 0 if all(s == "KILLED" for _, s, _ in res) else 1


if __name__ == "__main__":
    sys.exit(main())
